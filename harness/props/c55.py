"""C55 — compiled and pure-Python implementations are interchangeable.

Cython is not installed, so the extensions cannot be rebuilt from the current source.  The
pre-built `.so` of a module is compared only when the current `.py` is byte-identical to the
source the extension was built from (sha256 recorded below from the pinned snapshot commit);
otherwise the extension is stale, reported as such in the evidence and not used.

One workload (seeded) is executed by harness/c55_worker.py in two processes:
  * `py`  — all seven *_cy modules forced to their pure-Python source;
  * `so`  — only the stale modules forced to source, every fresh extension really loaded;
and the canonical outputs are compared case by case (corr/c55:py-vs-so).  The same outputs are
compared with the Lean models where one exists (utility collections of C54, M-CYUTIL), and an
independent reference oracle (insertion-ordered set, id set, dict merge, stdlib conversions,
tuple semantics of rows, row-stream semantics of results) is evaluated on BOTH builds.
"""
import hashlib
import json
import os
import subprocess
import sys
import tempfile

PID = "C55"
LEVEL = "translation_validation"
LEAN = ["SaVerif.Props.C55"]
META = {
    "text": "Differential check of the two builds of every dual-implemented module (util/_collections_cy, util/_immutabledict_cy, engine/_processors_cy, engine/_util_cy, sql/_util_cy, engine/_row_cy, engine/_result_cy): one seeded workload (operation sequences on OrderedSet/IdentitySet/immutabledict/unique_list, result processors on valid/invalid/None inputs, _distill_params on every parameter shape, tuplegetter, anon_map/prefix_anon_map lookup histories, Row access patterns incl. pickling, Result fetch sequences with scalars/mappings/columns/unique/yield_per/partitions) is executed in two processes — all modules pure Python vs every non-stale pre-built extension loaded — and return values / exception types / resulting states are compared; both builds are compared with one Lean model each case kind has: the collection models of C54, M-CYUTIL, M-ROW (BaseRow/Row: tuple semantics, key access, ordering, hash, pickling) and — reusing the operation sequences, executor and line format of C10 — M-RESULT / its memoized-getter refinement ResultMemo, whichever C10 itself is checked against (every result kind: cursor strategies, IteratorResult, ChunkedIteratorResult, MergedResult, frozen results, scalars/mappings/unique/columns/yield_per/partitions), plus independent reference oracles. Lean: refine_trans (both builds refining one model are interchangeable), tuplegetter_eq_itemgetter (the contiguous-slice fast path is unobservable for valid indexes), anon_map index stability / density / injectivity, apply_processors_spec, row_key_access, row_pickle_roundtrip, row_ordering_is_tuple_ordering (strict total lexicographic order), apply_processors_branches_agree / row_apply_processors_branches_agree (M-APPLYPROCS: the pure-Python branch of _apply_processors — copy, overwrite the proc_valid positions — equals the compiled branch — position by position — for every processors tuple, also processors that do not map NULL to NULL, and every raw row incl. NULLs), apply_processors_compiled_spec, apply_processors_skip_null_counterexample (sensitivity). Besides values: freshness/aliasing — unique_list returns a new list independent of its argument under later mutation of either side (sizes 0/1/2 x every argument form), OrderedSet/IdentitySet never share state with, nor later modify, an argument (arguments are mutated after each operation and re-checked after every later one), Rows are independent of the raw row; one raw row with NULLs x processors (incl. NULL-defaulting) x every fetch path (one/first/fetchone/fetchmany/all/iter/partitions/yield_per/unique/columns/tuples/freeze/scalars/scalar/mappings/_raw_all_tuples/direct Row) is compared with the Lean model. A source edit confined to a pure-Python-only branch (else: of `if cython.compiled`) leaves the extension a valid build of the compiled branch (ast compiled-view hash), so the two builds are still compared.",
    "note": "The extensions cannot be rebuilt (no Cython): an extension is examined only while its .py is byte-identical to the source it was built from; a stale extension is reported in evidence and skipped (util/_collections_cy is stale since the F9/F18 fixes). Theorem content is thin (the claim is carried by the differential run): level translation_validation. engine/_result_cy is compared with M-RESULT of C10 (its assumptions and hazard truncation apply unchanged: only the prefix of each sequence whose outputs C10 determines is compared), engine/_row_cy with M-ROW (integer values, distinct keys). Performance and C-level behaviour are not compared.",
    "technique": "two-process differential execution of both builds on one seeded workload + correspondence with Lean models + reference oracles; Lean lemmas for the helper fast paths",
    "design_ref": "DESIGN.md §3 C55",
}

# sha256 (first 16 hex) of each *_cy.py at the snapshot commit e26212a the extensions were built from
BUILT_FROM = {
    "sqlalchemy.util._collections_cy": "720c3b46822d8a2d",
    "sqlalchemy.util._immutabledict_cy": "061cb2abe3dc5b2a",
    "sqlalchemy.engine._processors_cy": "43af2cfecd7320d4",
    "sqlalchemy.engine._result_cy": "e37769b80534480f",
    "sqlalchemy.engine._row_cy": "411bef86a07971e5",
    "sqlalchemy.engine._util_cy": "02273028bbfa22e2",
    "sqlalchemy.sql._util_cy": "b9dcba8b210de612",
}


# the same sources with every pure-Python-only region removed (`if cython.compiled: A else: B` -> A,
# `X if cython.compiled else Y` -> X), ast-normalised and hashed (computed with /venv/bin/python 3.12):
# what the extension was really compiled from.  An edit confined to a pure-Python branch leaves this
# view unchanged, so the extension is still a faithful build of the compiled branch and the two
# builds must still agree — exactly the situation C55 is about.
BUILT_FROM_COMPILED_VIEW = {
    "sqlalchemy.util._collections_cy": "48c1b1575bae5551",
    "sqlalchemy.util._immutabledict_cy": "9e0c97c921e7be7b",
    "sqlalchemy.engine._processors_cy": "42b8be4a75ddf767",
    "sqlalchemy.engine._result_cy": "3bff2c1122154a00",
    "sqlalchemy.engine._row_cy": "38e31b76b14f4d7e",
    "sqlalchemy.engine._util_cy": "ec698f86d14273aa",
    "sqlalchemy.sql._util_cy": "57a26a40cc25c711",
}


def compiled_view_hash(src):
    import ast

    class T(ast.NodeTransformer):
        @staticmethod
        def which(test):
            # True for `cython.compiled`, False for `not cython.compiled`, None otherwise
            if (isinstance(test, ast.Attribute) and test.attr == "compiled"
                    and isinstance(test.value, ast.Name) and test.value.id == "cython"):
                return True
            if isinstance(test, ast.UnaryOp) and isinstance(test.op, ast.Not):
                w = T.which(test.operand)
                return None if w is None else (not w)
            return None

        def visit_If(self, node):
            self.generic_visit(node)
            w = self.which(node.test)
            if w is None:
                return node
            return (node.body if w else node.orelse) or [ast.Pass()]

        def visit_IfExp(self, node):
            self.generic_visit(node)
            w = self.which(node.test)
            if w is None:
                return node
            return node.body if w else node.orelse

    try:
        tree = T().visit(ast.parse(src))
        return hashlib.sha256(ast.dump(tree, include_attributes=False).encode()).hexdigest()[:16]
    except SyntaxError:
        return None


# compiled modules that link against another extension's C API (cimport): unusable when that one is stale
C_DEPENDS = {"sqlalchemy.sql._util_cy": ["sqlalchemy.util._collections_cy"]}

# every module whose behaviour a case kind exercises: a case is compared py-vs-so only when all are fresh
KIND_DEPENDS = {
    "row": ["sqlalchemy.engine._row_cy", "sqlalchemy.engine._result_cy"],
    "result": ["sqlalchemy.engine._result_cy", "sqlalchemy.engine._row_cy", "sqlalchemy.engine._util_cy"],
    "applyprocs": ["sqlalchemy.engine._result_cy", "sqlalchemy.engine._row_cy", "sqlalchemy.engine._util_cy"],
    "distill": ["sqlalchemy.engine._util_cy", "sqlalchemy.util._immutabledict_cy"],
    "sqlresult": ["sqlalchemy.engine._result_cy", "sqlalchemy.engine._row_cy", "sqlalchemy.engine._util_cy",
                  "sqlalchemy.engine._processors_cy", "sqlalchemy.util._immutabledict_cy"],
    "c10": ["sqlalchemy.engine._result_cy", "sqlalchemy.engine._row_cy", "sqlalchemy.engine._util_cy",
            "sqlalchemy.util._immutabledict_cy"],
}


def extension_status():
    """module -> (fresh?, why)"""
    from harness import vlib

    lib = os.path.join(vlib.REPO, "lib")
    out = {}
    for mod, want in BUILT_FROM.items():
        base = os.path.join(lib, *mod.split("."))
        py = base + ".py"
        d = os.path.dirname(base)
        stem = os.path.basename(base)
        sos = [f for f in os.listdir(d) if f.startswith(stem + ".") and f.endswith(".so")] if os.path.isdir(d) else []
        if not os.path.exists(py):
            out[mod] = (False, "source missing")
        elif not sos:
            out[mod] = (False, "no pre-built extension")
        else:
            raw = open(py, "rb").read()
            h = hashlib.sha256(raw).hexdigest()[:16]
            if h == want:
                out[mod] = (True, "source identical to the one the extension was built from")
            elif compiled_view_hash(raw.decode("utf-8", "replace")) == BUILT_FROM_COMPILED_VIEW.get(mod):
                out[mod] = (True, "source differs only inside pure-Python-only branches: the extension is still a build of the compiled branch")
            else:
                out[mod] = (False, "stale: source %s differs from build source %s" % (h, want))
    # test hook (sensitivity experiments only): treat the listed extensions as fresh whatever the source says
    for mod in os.environ.get("VERIF_C55_ASSUME_FRESH", "").split(","):
        if mod in out and "stale" in out[mod][1]:
            out[mod] = (True, "assumed fresh by VERIF_C55_ASSUME_FRESH (test hook)")
    for mod, deps in C_DEPENDS.items():
        bad = [d for d in deps if not out[d][0]]
        if out[mod][0] and bad:
            out[mod] = (False, "fresh, but links against the C API of stale %s" % ", ".join(bad))
    return out


def make_workload(ctx, thorough):
    from harness import lib_coll as L
    from harness import lib_cy as Y

    rng = ctx.rng
    w = []
    for _ in range(2500 if thorough else 500):
        nregs, ops = L.os_gen_sequence(rng, maxlen=12 if thorough else 9)
        w.append({"kind": "oset", "nregs": nregs, "ops": ops})
    for _ in range(2000 if thorough else 400):
        nregs, ops = L.is_gen_sequence(rng, maxlen=12 if thorough else 9)
        w.append({"kind": "idset", "nregs": nregs, "ops": ops})
    for _ in range(2000 if thorough else 500):
        w.append(dict(L.id_gen_union_case(rng), kind="immdict-union"))
    w += [dict(c, kind="immdict-union") for c in L.id_exhaustive_union()] if thorough else []
    for _ in range(600 if thorough else 150):
        c = {
            "self": L.id_gen_items(rng),
            "other": rng.choice([["bad"], ["dict", L.id_gen_items(rng)], ["imm", L.id_gen_items(rng)], ["odict", L.id_gen_items(rng)]]),
            "via": rng.choice(["or", "ror"]),
            "kind": "immdict-or",
        }
        if c["via"] == "ror" and c["other"][0] in ("imm", "odict"):
            c["via"] = "or"
        w.append(c)
    for items in ([], [[1, 2]], [[3, 4], [1, 2], [0, 0]]):
        w.append({"kind": "immdict-immutability", "items": items})
    # boundary sizes 0/1/2 x every argument form (fast paths live there), then random ones
    for seq in ([], [3], [3, 3], [3, 4], [4, 3], [3, 4, 3]):
        for form in ("list", "tuple", "iter", "gen"):
            w.append({"kind": "unique_list", "seq": seq, "form": form})
    for _ in range(100):
        seq = [rng.randrange(6) for _ in range(rng.randint(0, 8))]
        w.append({"kind": "unique_list", "seq": seq, "form": rng.choice(["list", "tuple", "iter", "gen"])})
    w += Y.gen_cases(rng, 12000 if thorough else 2500)
    # result-delivery op sequences of C10 (every result kind): same generators, same executor, same
    # driver op and request encoding as harness/props/c10.py (imported, not copied); both builds are
    # compared with the model C10 itself is compared with
    import inspect
    import re

    from harness.props import c10

    m = re.search(r'case_line\("(\w+)", case, k\)', inspect.getsource(c10.run))
    cmd = m.group(1) if m else "mrun"
    cases = []
    for i in range(6000 if thorough else 700):
        if i % 8 == 5 and hasattr(c10, "gen_projection_chain"):
            cases.append(c10.gen_projection_chain(rng, ctx.tier))
        elif i % 4 == 3:
            cases.append(c10.gen_memo_scenario(rng, ctx.tier))
        else:
            cases.append(c10.gen_case(rng, ctx.tier))
    hz = c10.memo_hazards(ctx, cases) if hasattr(c10, "memo_hazards") else [None] * len(cases)
    for case, mhz in zip(cases, hz):
        w.append({"kind": "c10", "case": case, "cmd": cmd, "mhz": None if mhz is None else sorted(mhz)})
    return w


MODULE_OF_KIND = {
    "oset": "sqlalchemy.util._collections_cy",
    "idset": "sqlalchemy.util._collections_cy",
    "unique_list": "sqlalchemy.util._collections_cy",
    "immdict-union": "sqlalchemy.util._immutabledict_cy",
    "immdict-or": "sqlalchemy.util._immutabledict_cy",
    "immdict-immutability": "sqlalchemy.util._immutabledict_cy",
    "proc": "sqlalchemy.engine._processors_cy",
    "distill": "sqlalchemy.engine._util_cy",
    "tuplegetter": "sqlalchemy.engine._util_cy",
    "panon": "sqlalchemy.sql._util_cy",
    "anon": "sqlalchemy.sql._util_cy",
    "row": "sqlalchemy.engine._row_cy",
    "result": "sqlalchemy.engine._result_cy",
    "applyprocs": "sqlalchemy.engine._result_cy",
    "sqlresult": "sqlalchemy.engine._result_cy",
    "c10": "sqlalchemy.engine._result_cy",
}


def run_worker(workload_path, forced, tag):
    from harness import vlib

    out_path = workload_path + "." + tag + ".out"
    worker = os.path.join(vlib.VERIF, "harness", "c55_worker.py")
    env = dict(os.environ)
    p = subprocess.run([sys.executable, "-B", worker, workload_path, out_path, ",".join(sorted(forced))], capture_output=True, text=True, env=env, timeout=3000)
    if p.returncode != 0 or not os.path.exists(out_path):
        raise RuntimeError("c55 worker (%s) failed rc=%s: %s" % (tag, p.returncode, (p.stdout + p.stderr)[-1500:]))
    r = json.load(open(out_path))
    os.unlink(out_path)
    return r


def run(ctx, deep=False, only_workload=None):
    from harness import vlib

    thorough = ctx.tier == "thorough" or deep
    status = extension_status()
    stale = {m for m, (ok, _) in status.items() if not ok}
    for m, (ok, why) in sorted(status.items()):
        ctx.count("extension.%s=%s" % (".".join(m.split(".")[-2:]), "fresh" if ok else "STALE-skipped"))
        if not ok:
            ctx.assumptions.append("pre-built extension of %s not examined (%s)" % (m, why))
    ctx.trusted = [t for t in ctx.trusted if "pre-built .so not examined" not in t]
    ctx.trusted.append("the sha256 table BUILT_FROM (source each pre-built extension was compiled from = snapshot commit e26212a)")
    ctx.rule = (
        "one seeded workload run in two processes (pure Python vs fresh extensions): OrderedSet / IdentitySet operation sequences, "
        "immutabledict union/merge_with/|, unique_list, processors x inputs, _distill_params shapes, tuplegetter, anon maps, Row "
        "access sequences, Result fetch sequences; every case non-trivial; distinct = distinct case description"
    )
    workload = only_workload if only_workload is not None else make_workload(ctx, thorough)
    fd, path = tempfile.mkstemp(prefix="c55-", suffix=".json")
    with os.fdopen(fd, "w") as f:
        json.dump(workload, f)
    try:
        py = run_worker(path, set(BUILT_FROM), "py")
        so = run_worker(path, stale, "so")
    finally:
        os.unlink(path)
    for m, comp in so["compiled"].items():
        want = m not in stale
        if comp != want:
            ctx.obligation("c55:extension-loaded:" + m, False, "expected compiled=%s got %s" % (want, comp))
    for m, comp in py["compiled"].items():
        if comp:
            ctx.obligation("c55:source-mode:" + m, False, "pure-Python run loaded a compiled module")
    ctx.count("modules.compared.py-vs-so", len(BUILT_FROM) - len(stale))
    cases_d, a_out, b_out = [], [], []
    mcases, mimpl, mreq, mfix = [], [], [], []
    scases, simpl, sreq, sfix = [], [], [], []
    for c, rp, rs in zip(workload, py["results"], so["results"]):
        kind = c["kind"]
        ctx.case(json.dumps(c, sort_keys=True), nontrivial=True)
        ctx.count("kind=" + kind)
        mod = MODULE_OF_KIND[kind]
        comparable = not (set([mod] + KIND_DEPENDS.get(kind, [])) & stale)
        for build, r in (("py", rp), ("so", rs)):
            if r.get("fail") and not (build == "so" and not comparable):
                ctx.violation("%s[%s]" % (r["fail"][0], build), {"workload": [c], "build": build}, r["fail"][1])
        if comparable:
            cases_d.append(c)
            a_out.append(rp["out"])
            b_out.append(rs["out"])
        if rp.get("req"):
            mcases.append(c)
            mimpl.append(rp["out"])
            mreq.append(rp["req"])
            mfix.append(bool(rp.get("nullfix")))
        if comparable and rs.get("req") and rs["out"] != rp["out"]:
            # the extension is compared with the model on its own as well
            scases.append(c)
            simpl.append(rs["out"])
            sreq.append(rs["req"])
            sfix.append(bool(rs.get("nullfix")))
    for i, c in enumerate(workload):
        if c["kind"] in ("row", "result", "proc", "distill") and len(ctx.samples) < 5 and i % 7 == 0:
            ctx.sample({"case": c, "py": py["results"][i]["out"], "so": so["results"][i]["out"]})
    for i, c in enumerate(workload):
        if c["kind"] == "c10" and len(ctx.samples) < 7 and len(py["results"][i]["out"]) > 60:
            ctx.sample({"case": c, "py": py["results"][i]["out"], "so": so["results"][i]["out"]})
    ctx.correspond("corr/c55:pure-python-vs-prebuilt-extension", cases_d, a_out, b_out)
    if ctx.driver_ok() and mreq:
        from harness.props import c10

        def fixed(model, impl, flags):
            return [c10._null_fix(m, i) if f else m for m, i, f in zip(model, impl, flags)]

        ctx.correspond("corr/c55:pure-python-vs-Lean-models", mcases, mimpl, fixed(ctx.driver(mreq), mimpl, mfix))
        if sreq:
            ctx.correspond("corr/c55:prebuilt-extension-vs-Lean-models", scases, simpl, fixed(ctx.driver(sreq), simpl, sfix))
    ctx.exhaustive = False


def search(ctx, broken):
    sub = type(ctx)(ctx.pid, "thorough", ctx.seed + 1, ctx.level)
    run(sub, deep=True)
    ctx.violations.extend(sub.violations)
    # a py-vs-so disagreement with both oracles silent is still a violation of interchangeability
    for d in ctx.disagreements + sub.disagreements:
        if d["corr"] == "corr/c55:pure-python-vs-prebuilt-extension":
            ctx.violation("py-vs-so-differ-" + d["case"]["kind"], {"workload": [d["case"]], "build": "both"}, "pure python: %s ; extension: %s" % (d["impl"], d["model"]))
        elif d["corr"] == "corr/c55:pure-python-vs-Lean-models":
            ctx.violation("py-differs-from-model-" + d["case"]["kind"], {"workload": [d["case"]], "build": "py"}, "pure python: %s ; Lean model: %s" % (d["impl"], d["model"]))
        elif d["corr"] == "corr/c55:prebuilt-extension-vs-Lean-models":
            ctx.violation("so-differs-from-model-" + d["case"]["kind"], {"workload": [d["case"]], "build": "so"}, "extension: %s ; Lean model: %s" % (d["impl"], d["model"]))


def replay(ctx, obj):
    c = obj["case"]
    sub = type(ctx)(ctx.pid, "quick", ctx.seed, ctx.level)
    run(sub, only_workload=c["workload"])
    differ = list(sub.disagreements)
    print("replay C55 %s\n  oracle violations: %s\n  py-vs-so disagreements: %s" % (json.dumps(c["workload"])[:400], [(v["key"], v["detail"]) for v in sub.violations], differ))
    return bool(sub.violations) or bool(differ)
