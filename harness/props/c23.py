"""C23 — Connection transactions and savepoints have nested-transaction semantics.

Model:    lean/SaVerif/Model/Txn.lean  (transcription of Connection / RootTransaction /
          NestedTransaction / TransactionalContext from engine/base.py, engine/util.py)
Theorems: lean/SaVerif/Props/C23.lean
Tie:      op sequences (begin, begin_nested, execute, commit, rollback, close, handle
          commit/rollback/close, context-manager __enter__/__exit__ with and without
          exception, incl. misuse) run on the real code against a SQLite file database
          observed by an independent connection; after EVERY op the full observation
          record (result class, in_transaction, in_nested_transaction, closed,
          invalidated, get_transaction(), get_nested_transaction(), _trans_context_manager,
          is_active of every transaction object, rows other connections see, rows this
          connection sees, warnings) is compared with the Lean model.
Oracle:   an independent Python reference model ("stack of scopes") of what the property
          states: committed rows, rows seen, both flags, is_active of every handle and
          raise-vs-act on ended handles.
"""
import json

PID = "C23"
LEVEL = "proof"
LEAN = ["SaVerif.Props.C23"]
META = {
    "text": "Lean theorems: (refines_nested_spec, by induction over ALL accepted operation sequences with a simulation relation) every well-nested, fault-free history of begin/begin_nested/INSERT/DELETE/SELECT/commit/rollback and handle commit/rollback/close - including operations on ended handles, double commit, begin inside a transaction, failing statements - on the transcribed Connection state machine refines a stack-of-scopes specification step by step: same result class, same rows visible to other connections, same rows seen, same in_transaction()/in_nested_transaction(); (ended_commit_raises_no_effect, ended_nested_rollback_no_effect: for EVERY state) operations on ended transactions raise / do nothing and leave the state untouched; (close_rolls_back_all) close ends everything, leaves committed data unchanged and returns a clean DBAPI connection; (ctx_exit_semantics, ctx_exit_restores, ctx_enter_exit_roundtrip, ctx_blocks_use_after_end: for EVERY state) __exit__ is commit / rollback / nothing exactly as specified, always restores the enclosing context manager, and a with-block whose transaction ended refuses begin/begin_nested; (wf_all, cancel_reaches_end: for EVERY history incl. misuse and faults) the transaction pointer names a root object, _previous_nested links point to older objects, cancellation reaches the end of the savepoint chain. The model is tied to engine/base.py + engine/util.py by a per-step differential run on a SQLite file DB with an observer connection (scripted shapes, structured histories with injected misuse, random soups, context managers) and a reference-model oracle.",
    "note": "refines_nested_spec is proved for well-nested use; for out-of-order savepoint rollback/release the model (and the code) keep inner NestedTransaction objects active (F8): out_of_order_rollback_counterexample + known finding out-of-order-savepoint-rollback/-release; a stale RootTransaction.rollback()/close() cancels the savepoints of the current transaction (stale_root_rollback_counterexample, known finding stale-root-rollback-cancels-savepoints). Modelled-not-verified: the DBAPI driver and SQLite (abstract DB with SAVEPOINT stack; sqlite3 in PEP-249 autocommit=False mode behind a thin proxy), warnings machinery, Python object identity of handles. PostgreSQL/MariaDB are not executed; two-phase transactions are not modelled.",
    "technique": "Lean 4 refinement proof (simulation relation, induction over op sequences) about a hand-transcribed model + per-step differential correspondence against the real Connection on SQLite",
    "design_ref": "DESIGN.md §3 C23",
}

KEY_OOO_RB = "out-of-order-savepoint-rollback"
KEY_OOO_REL = "out-of-order-savepoint-release"
KEY_STALE_ROOT = "stale-root-rollback-cancels-savepoints"


# ---------------------------------------------------------------- reference model (oracle)
class Ref:
    """Nested-transaction reference model: what the property says should be observable.

    step(tok) -> dict(raises=True|False|None) or None when the op is outside what the
    property speaks about (then checking of this history stops)."""

    def __init__(self):
        self.committed = set()
        self.cur = set()
        self.root = None
        self.scopes = []  # [handle, snapshot] innermost last
        self.kinds = []  # isRoot per handle
        self.closed = False
        self.ctx = []  # entered handles, LIFO
        self.key = None  # classification if the impl deviates at this step

    # -- helpers
    def active(self, h):
        return h == self.root or any(h == s[0] for s in self.scopes)

    def _new(self, is_root):
        self.kinds.append(is_root)
        return len(self.kinds) - 1

    def _blocked(self):
        """begin / begin_nested / execute raise: connection closed, or inside a
        with-block whose transaction has already ended"""
        if self.closed:
            return True
        return bool(self.ctx) and not self.active(self.ctx[-1])

    def _autobegin(self):
        if self.root is None:
            self.root = self._new(True)

    def _end_all(self, commit):
        if commit:
            self.committed = set(self.cur)
        else:
            self.cur = set(self.committed)
        self.root = None
        self.scopes = []

    def _commit_handle(self, h, in_exit=False):
        if h == self.root:
            self._end_all(True)
            return {"raises": False}
        idx = [i for i, s in enumerate(self.scopes) if s[0] == h]
        if idx:
            if not in_exit and self._blocked():
                # RELEASE is itself a statement: inside a with-block whose transaction
                # has ended it is refused; what then becomes of the savepoint object is
                # not something the property speaks about
                return None
            if idx[0] != len(self.scopes) - 1:
                self.key = KEY_OOO_REL
            del self.scopes[idx[0]:]
            return {"raises": False}
        return {"raises": True}  # ended: raises, no effect

    def _rollback_handle(self, h, in_exit=False):
        if h == self.root:
            self._end_all(False)
            return {"raises": False}
        idx = [i for i, s in enumerate(self.scopes) if s[0] == h]
        if idx:
            if not in_exit and self._blocked():
                return None
            if idx[0] != len(self.scopes) - 1:
                self.key = KEY_OOO_RB
            self.cur = set(self.scopes[idx[0]][1])
            del self.scopes[idx[0]:]
            return {"raises": False}
        # ended handle: rollback()/close() are allowed and do nothing
        if self.kinds[h] and self.scopes:
            self.key = KEY_STALE_ROOT
        return {"raises": False}

    def step(self, tok):
        self.key = None
        t0 = tok[0]
        arg = int(tok[1:]) if len(tok) > 1 and tok[1:].isdigit() else None
        if tok == "b":
            if self._blocked() or self.root is not None:
                return {"raises": True}
            self._autobegin()
            return {"raises": False}
        if tok == "n":
            if self._blocked():
                return {"raises": True}
            self._autobegin()
            self.scopes.append([self._new(False), set(self.cur)])
            return {"raises": False}
        if t0 in "idq":
            if self._blocked():
                return {"raises": True}
            self._autobegin()
            if t0 == "i":
                if arg in self.cur:
                    return {"raises": True}
                self.cur.add(arg)
            elif t0 == "d":
                self.cur.discard(arg)
            return {"raises": False, "sel": sorted(self.cur) if t0 == "q" else None}
        if tok == "C":
            if self.root is not None:
                self._end_all(True)
            return {"raises": False}
        if tok == "R":
            if self.root is not None:
                self._end_all(False)
            return {"raises": False}
        if tok == "X":
            self._end_all(False)
            self.closed = True
            return {"raises": False}
        if t0 == "c":
            return self._commit_handle(arg)
        if t0 in "rx":
            return self._rollback_handle(arg)
        if t0 == "e":
            if arg in self.ctx:
                return None  # re-entering a context manager that is already entered
            self.ctx.append(arg)
            return {"raises": False}
        if t0 in "of":
            if not self.ctx or self.ctx[-1] != arg:
                return None  # out-of-band __exit__: not a `with` statement any more
            self.ctx.pop()
            if not self.active(arg):
                # ended transaction: __exit__ has nothing to do
                if self.kinds[arg] and self.scopes:
                    self.key = KEY_STALE_ROOT
                return {"raises": False}
            return self._commit_handle(arg, True) if t0 == "o" else self._rollback_handle(arg, True)
        return None


def oracle(ops, records):
    """Compare the implementation's observation records with the reference model.
    -> (key, step_index, description) for the first deviation, or None."""
    from harness import lib_txn

    ref = Ref()
    for i, (tok, rec) in enumerate(zip(ops, records)):
        exp = ref.step(tok)
        if exp is None:
            return None
        o = lib_txn.parse_record(rec)
        res = o["res"].split(":")[0]
        # (1) what the DATABASE shows and whether the call raised: never covered by a known
        #     finding — an out-of-order rollback must still undo exactly the work since that
        #     savepoint, and nothing rolled back may ever become visible to others
        why = None
        if o["res"].startswith("EXC:") or o["res"].startswith("OBSERVE-ERROR"):
            return ("c23-oracle", i, "step %d (%s) let an internal error escape: %s" % (i, tok, o["res"]))
        if exp["raises"] is True and res == "ok":
            why = "op %r on an ended/blocked transaction did not raise" % tok
        elif exp["raises"] is False and res != "ok":
            why = "op %r raised %s but the nested-transaction semantics allow it" % (tok, res)
        want_comm = ",".join(map(str, sorted(ref.committed))) or "-"
        if why is None and o["committed"] != want_comm:
            why = "other connections see %s, reference model %s" % (o["committed"], want_comm)
        if why is None and not ref.closed and o["working"] != "x":
            want_cur = ",".join(map(str, sorted(ref.cur))) or "-"
            if o["working"] != want_cur:
                why = "connection sees %s, reference model %s (a savepoint rollback must undo exactly the work since that savepoint)" % (o["working"], want_cur)
        if why is None and exp.get("sel") is not None and ":" in o["res"]:
            got = o["res"].split(":")[1]
            want = ",".join(map(str, exp["sel"])) or "-"
            if got != want:
                why = "SELECT returned %s, reference model %s" % (got, want)
        if why is not None:
            key = "c23-oracle" if ref.key is None else ref.key + "-data-visible"
            return (key, i, "step %d (%s): %s" % (i, tok, why))
        # (2) flags and handle state: here the known findings (F8, F18) apply, keyed by the
        #     misuse pattern of this very step
        f = o["flags"]
        if (f[0] == "1") != (ref.root is not None):
            why = "in_transaction()=%s, reference model %s" % (f[0], ref.root is not None)
        elif (f[1] == "1") != bool(ref.scopes):
            why = "in_nested_transaction()=%s, reference model %s" % (f[1], bool(ref.scopes))
        elif (f[2] == "1") != ref.closed:
            why = "closed=%s, reference model %s" % (f[2], ref.closed)
        if why is None:
            want_act = "".join("1" if ref.active(h) else "0" for h in range(len(ref.kinds))) or "-"
            if o["actives"] != want_act:
                why = "is_active of handles %s, reference model %s" % (o["actives"], want_act)
        if why is not None:
            return (ref.key or "c23-oracle", i, "step %d (%s): %s" % (i, tok, why))
    return None


# ---------------------------------------------------------------- generators
def gen_soup(rng, world, n):
    """random op soup, handles chosen among those existing"""
    ops = []
    k = 1
    for _ in range(n):
        r = rng.random()
        nh = len(world.handles)
        if r < 0.10:
            tok = "b"
        elif r < 0.28:
            tok = "n"
        elif r < 0.48:
            if rng.random() < 0.15 and k > 1:
                tok = "i%d" % rng.randrange(1, k)
            else:
                tok = "i%d" % k
                k += 1
        elif r < 0.53 and k > 1:
            tok = "d%d" % rng.randrange(1, k)
        elif r < 0.56:
            tok = "q"
        elif r < 0.64:
            tok = "C"
        elif r < 0.70:
            tok = "R"
        elif r < 0.72:
            tok = "X"
        elif nh:
            tok = rng.choice("crxcrxeof") + str(rng.randrange(nh))
        else:
            tok = "q"
        ops.append(tok)
        yield tok


def gen_structured(rng, world, n):
    """mostly well-nested programs (with-blocks or explicit handles) with injected misuse"""
    stack = []  # (handle index, entered?)
    k = 1
    misuse = rng.random() < 0.6
    steps = 0
    while steps < n:
        steps += 1
        r = rng.random()
        nh = len(world.handles)
        if misuse and r < 0.10 and nh:
            # misuse: op on an arbitrary (often ended or outer) handle, begin inside a
            # transaction, use after close
            tok = rng.choice(["c", "r", "x", "o", "f", "c", "r"]) + str(rng.randrange(nh))
            yield tok
            stack = [(h, e) for (h, e) in stack if world.handles[h].is_active]
            continue
        if misuse and r < 0.13:
            yield rng.choice(["b", "X", "C", "R"])
            stack = [(h, e) for (h, e) in stack if h < len(world.handles) and world.handles[h].is_active]
            continue
        if r < 0.40 or not stack:
            # open a scope
            before = len(world.handles)
            if not stack and rng.random() < 0.5:
                tok = "b"
            elif not stack and rng.random() < 0.3:
                tok = "i%d" % k
                k += 1
            else:
                tok = "n"
            yield tok
            after = len(world.handles)
            if after > before and tok != "i%d" % (k - 1):
                h = after - 1
                entered = rng.random() < 0.5
                if after - before == 2:  # autobegun root + savepoint
                    stack.append((after - 2, False))
                if entered:
                    yield "e%d" % h
                stack.append((h, entered))
            elif after > before:
                stack.append((after - 1, False))
            continue
        if r < 0.70:
            if rng.random() < 0.12 and k > 1:
                yield "i%d" % rng.randrange(1, k)
            elif rng.random() < 0.15 and k > 1:
                yield "d%d" % rng.randrange(1, k)
            elif rng.random() < 0.1:
                yield "q"
            else:
                yield "i%d" % k
                k += 1
            continue
        # close the innermost scope (or, sometimes, use the connection-level call)
        h, entered = stack.pop()
        if entered:
            yield rng.choice(["o", "o", "f"]) + str(h)
        elif world.handles[h]._is_root and rng.random() < 0.5:
            yield rng.choice(["C", "R"])
            stack = []
        else:
            yield rng.choice(["c", "c", "r", "x"]) + str(h)
        stack = [(a, e) for (a, e) in stack if world.handles[a].is_active or e]


def gen_faulty(rng, world, n):
    """op soup in which COMMIT / ROLLBACK / SAVEPOINT / RELEASE / ROLLBACK TO fail now and then
    (DBAPI error, sometimes a disconnect) and the ended or half-ended handles are used again"""
    k = 1
    last = None
    for _ in range(n):
        r = rng.random()
        nh = len(world.handles)
        if last is not None and r < 0.45:
            # use the handle whose operation has just failed once more
            tok = rng.choice("crxc") + str(last)
            last = None
            yield tok
            continue
        if r < 0.30:
            p = rng.choice("xxxcr")
            yield "F" + p + rng.choice("eeed")
            if p == "x":
                cand = ["n", "i%d" % k]
                if nh:
                    h = rng.randrange(nh)
                    cand += [rng.choice("cr") + str(h)] * 3
                tok = rng.choice(cand)
            elif p == "c":
                tok = rng.choice(["C", "c0"] if nh else ["C"])
            else:
                tok = rng.choice(["R", "r0", "x0"] if nh else ["R"])
            if tok.startswith("i"):
                k += 1
            yield tok
            if tok[0] in "crx" and len(tok) > 1:
                last = int(tok[1:])
            if world.plan.armed:
                yield "D"
            continue
        if r < 0.38:
            tok = "b"
        elif r < 0.55:
            tok = "n"
        elif r < 0.70:
            tok = "i%d" % k
            k += 1
        elif r < 0.76:
            tok = rng.choice(["C", "R"])
        elif nh:
            tok = rng.choice("crxcreof") + str(rng.randrange(nh))
        else:
            tok = "q"
        yield tok


def gen_exhaustive(maxlen):
    """all op sequences up to `maxlen` over begin / begin_nested / insert / commit / rollback and
    commit / rollback of the first three handles (handle operands that do not exist yet are
    skipped at run time)"""
    import itertools

    alpha = ["b", "n", "i", "C", "R", "c0", "c1", "c2", "r0", "r1", "r2"]
    for n in range(1, maxlen + 1):
        for seq in itertools.product(alpha, repeat=n):
            yield seq


def run_fixed_adaptive(seq, reset="rollback"):
    """run a token sequence, numbering inserts and dropping ops whose handle does not exist"""
    from harness import lib_txn

    w = lib_txn.World(reset, "c23x")
    ops, recs = [], []
    k = 1
    try:
        for tok in seq:
            if tok == "i":
                tok = "i%d" % k
                k += 1
            elif tok[0] in "cr" and len(tok) > 1 and int(tok[1:]) >= len(w.handles):
                continue
            ops.append(tok)
            recs.append(w.step(tok))
    finally:
        w.dispose()
    return ops, recs


def run_history(gen, rng, n, reset="rollback"):
    """drive a generator against a fresh World; -> (ops, records)"""
    from harness import lib_txn

    w = lib_txn.World(reset, "c23")
    ops, recs = [], []
    try:
        g = gen(rng, w, n)
        for tok in g:
            ops.append(tok)
            recs.append(w.step(tok))
    finally:
        w.dispose()
    return ops, recs


def replay_ops(ops, reset="rollback"):
    from harness import lib_txn

    return lib_txn.run_ops(ops, reset, "c23r")


FIXED = [
    # scripted shapes: documented usage patterns, and the misuse the property names
    "b;i1;C",
    "i1;n;i2;r1;C",
    "b;e0;i1;n;e1;i2;o1;i3;o0",
    "b;e0;i1;n;e1;i2;f1;i3;o0",
    "b;e0;i1;f0;q",
    "b;i1;c0;c0;r0;i2;C",
    "n;i1;n;i2;n;i3;c2;r1;i4;C;q",
    "b;e0;c0;i1;o0;i1;C",
    "b;e0;n;e1;c0;i1;o1;i1;o0;i2;C",
    "b;i1;X;i2;C;c0;r0",
    "n;i1;c1;r1;c1;x1;C",
    "b;i1;n;i2;C;i3;R;q",
    "b;i1;n;i2;R;i3;C;q",
    "i1;i1;C;q",
    "b;b;n;i1;R",
    "n;e1;i1;r1;i2;n;o1;i3;C",
    # the known findings (F8 rollback / release form, F18)
    "n;i1;n;i2;r1",
    "n;i1;n;i2;c1",
    "b;i1;c0;n;i2;r0",
]


def check_history(ctx, ops, recs, cases, impl_out, reqs, reset="rollback"):
    from harness import lib_txn

    case = {"ops": ops, "reset": reset}
    nontrivial = any(t[0] in "nr" or t[0] in "cxeof" and len(t) > 1 for t in ops)
    ctx.case(";".join(ops), nontrivial=nontrivial)
    for t in ops:
        ctx.count("op=" + (t[0] if t[0] not in "id" else t[0]))
    ctx.count("len=%02d" % min(len(ops), 20))
    for r in recs:
        ctx.count("res=" + r.split("/")[0].split(":")[0])
    bad = oracle(ops, recs)
    if bad:
        key, i, why = bad
        ctx.violation(key, {"ops": ops[: i + 1], "reset": reset}, why)
    cases.append(case)
    impl_out.append("|".join(recs) if recs else "-")
    reqs.append(lib_txn.driver_line(ops, reset))


def is_faulty(ops):
    return any(t[0] in "FD" for t in ops)


def oracle_any(ops, recs):
    """the reference-model oracle, or for histories with injected failures only: no internal
    error escapes"""
    if not is_faulty(ops):
        return oracle(ops, recs)
    for i, r in enumerate(recs):
        res = r.split("/")[0]
        if res.startswith("EXC:") or res.startswith("OBSERVE-ERROR"):
            return ("c23-oracle", i, "step %d (%s) let an internal error escape: %s" % (i, ops[i], res))
    return None


def check_faulty(ctx, ops, recs, cases, impl_out, reqs):
    """histories with injected DBAPI failures: compared with the Lean model step by step (the
    nested-scope reference model does not speak about failing COMMIT/ROLLBACK/RELEASE)"""
    from harness import lib_txn

    fired = any(r.split("/")[0].split(":")[0] in ("DISC", "OE") for r in recs)
    ctx.case("faulty:" + ";".join(ops), nontrivial=fired)
    ctx.count("faulty")
    for t in ops:
        ctx.count("op=" + (t if t[0] == "F" else t[0]))
    for r in recs:
        ctx.count("res=" + r.split("/")[0].split(":")[0])
    bad = oracle_any(ops, recs)
    if bad:
        ctx.violation(bad[0], {"ops": ops[: bad[1] + 1], "reset": "rollback"}, bad[2])
    cases.append({"ops": ops, "reset": "rollback"})
    impl_out.append("|".join(recs) if recs else "-")
    reqs.append(lib_txn.driver_line(ops, "rollback"))


FIXED_FAULTY = [
    # RELEASE fails: the savepoint object is inactive but still current; commit() on it again
    "n;i1;Fxe;c1;c1;r1;C",
    "n;i1;Fxe;c1;c1;R",
    # COMMIT fails: the transaction stays attached, inactive; commit again, then rollback
    "b;i1;Fce;C;C;c0;R;i2;C",
    "b;i1;n;i2;Fce;c0;c1;r1;r0;q",
    # ROLLBACK TO fails, ROLLBACK fails
    "n;i1;n;i2;Fxe;r2;r2;c1;C",
    "b;i1;n;Fre;R;q;r1;c1",
    "b;i1;Fre;x0;c0;r0;b;C",
    # SAVEPOINT fails
    "b;i1;Fxe;n;n;i2;c1;C",
]


def run(ctx, deep=False):
    ctx.rule = (
        "histories of begin/begin_nested/INSERT/DELETE/SELECT/commit/rollback/close, handle commit/rollback/close and "
        "__enter__/__exit__(ok|exc) on one Connection: 19 scripted shapes + structured well-nested programs with injected "
        "misuse + random op soups (length <=10 quick, <=16 thorough) + op soups in which COMMIT/ROLLBACK/SAVEPOINT/RELEASE/ROLLBACK TO fail "
        "(injected DBAPI error or disconnect) and the half-ended handles are used again (compared with the Lean model only) + in thorough ALL sequences of <=4 ops over begin/begin_nested/insert/commit/rollback/handle commit+rollback; every op's observation record is compared with the Lean "
        "model and with an independent reference model; non-trivial = uses a savepoint, a handle op or a context manager"
    )
    ctx.trusted.append("sqlite3 (autocommit=False) + SQLite SAVEPOINT semantics behind harness/lib_txn.py's DBAPI proxy (abstract DB in the model)")
    ctx.trusted.append("harness/lib_txn.py executor and observation (reads Connection._trans_context_manager, pool queue)")
    big = ctx.tier == "thorough" or deep
    cases, impl_out, reqs = [], [], []
    for s in FIXED:
        ops = s.split(";")
        check_history(ctx, ops, replay_ops(ops), cases, impl_out, reqs)
    n_struct = 9000 if big else 1400
    n_soup = 6000 if big else 900
    maxlen = 16 if big else 10
    for i in range(n_struct):
        ops, recs = run_history(gen_structured, ctx.rng, ctx.rng.randint(3, maxlen))
        check_history(ctx, ops, recs, cases, impl_out, reqs)
        if i % 400 == 0 and len(ops) >= 6:
            ctx.sample({"ops": ";".join(ops), "last": recs[-1]})
    for i in range(n_soup):
        ops, recs = run_history(gen_soup, ctx.rng, ctx.rng.randint(2, maxlen))
        check_history(ctx, ops, recs, cases, impl_out, reqs)
        if i % 400 == 0 and len(ops) >= 6:
            ctx.sample({"ops": ";".join(ops), "last": recs[-1]})
    for s in FIXED_FAULTY:
        ops = s.split(";")
        check_faulty(ctx, ops, replay_ops(ops), cases, impl_out, reqs)
    for i in range(5000 if big else 700):
        ops, recs = run_history(gen_faulty, ctx.rng, ctx.rng.randint(3, maxlen))
        check_faulty(ctx, ops, recs, cases, impl_out, reqs)
    if big:
        # exhaustive small scope: every sequence of <= 4 ops over the core alphabet
        seen = set()
        for seq in gen_exhaustive(4):
            ops, recs = run_fixed_adaptive(seq)
            sig = ";".join(ops)
            if sig in seen or not ops:
                continue
            seen.add(sig)
            check_history(ctx, ops, recs, cases, impl_out, reqs)
        ctx.count("exhaustive<=4", len(seen))
        ctx.exhaustive = True
    if ctx.driver_ok():
        ctx.correspond("corr/c23:Connection-vs-Model.Txn", cases, impl_out, ctx.driver(reqs))


def search(ctx, broken):
    """obligation broken and the normal run found no oracle violation: replay the
    disagreeing histories and a larger budget through the oracle"""
    for d in ctx.disagreements:
        c = d["case"]
        recs = replay_ops(c["ops"], c.get("reset", "rollback"))
        bad = oracle_any(c["ops"], recs)
        if bad:
            ctx.violation(bad[0], {"ops": c["ops"][: bad[1] + 1], "reset": c.get("reset", "rollback")}, bad[2])
    sub = type(ctx)(ctx.pid, "thorough", ctx.seed + 1, ctx.level)
    run(sub, deep=True)
    ctx.violations.extend(sub.violations)


def replay(ctx, obj):
    c = obj["case"]
    ops = c["ops"]
    recs = replay_ops(ops, c.get("reset", "rollback"))
    bad = oracle_any(ops, recs)
    print("replay C23 ops=%s" % ";".join(ops))
    for t, r in zip(ops, recs):
        print("  %-5s %s" % (t, r))
    print("oracle:", bad)
    return bad is not None
