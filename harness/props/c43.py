"""C43 — ORM-enabled UPDATE/DELETE keep in-session objects in sync with the database.

Model:    lean/SaVerif/Model/Evaluator.lean (transcription of orm/evaluator.py
          _EvaluatorCompiler = evalPy*, SQL three-valued semantics as SQLite executes the
          rendered criteria = evalSql*, and the matched-object / SET-application loops of
          orm/bulk_persistence.py); the LIKE operators reuse Model/Like.lean (C08)
Gen:      lean/SaVerif/Gen/EvalOps.lean (the visit_* methods of _EvaluatorCompiler)
Theorems: lean/SaVerif/Props/C43.lean

What runs on the real code
  * end to end: Session.execute(update()/delete()) with synchronize_session evaluate / fetch /
    auto on SQLite over generated criteria and SET clauses, objects loaded (some attributes
    expired); direct oracle = every loaded attribute equals the row now in the database, and
    an object is gone from the session iff its row is gone (expired objects are accepted)
  * ORM bulk UPDATE by primary key (session.execute(update(E), [dicts])) and bulk
    INSERT..RETURNING over mixed loaded / unloaded / partially expired targets, same oracle
  * correspondence: per-object value of the real evaluator closure vs evalPyB; SQLite's value
    of the rendered criteria vs evalSqlB; session outcome and database row after the
    statement vs syncUpdate*/syncDelete*/dbUpdate
"""
import itertools

PID = "C43"
LEVEL = "proof"
LEAN = ["SaVerif.Props.C43"]
META = {
    "text": "Lean theorems over all criteria trees (comparisons, + - * %, true division, IS NULL, IN / NOT IN, startswith / endswith with escape and autoescape, n-ary AND / OR with the evaluator's early-return loops, NOT), all rows and all SET lists: evaluator_eq_sql_partial (the Python evaluator returns exactly the SQL three-valued value when no guard fails), evaluator_matches_sql_partial (without NOT the AND-order guard is not needed for the matched set), update/delete synchronisation theorems for evaluate and fetch, expired_sound (a definite result never depends on an expired attribute) and one counterexample per guard. Each failing guard is a genuine divergence reproduced through Session.execute(update/delete) on SQLite and listed as a known finding under its own key. The model is tied to the code by a translator for the evaluator's visitor table and by differential runs of the real evaluator closures, of SQLite, and of the whole ORM statement.",
    "note": "_partial theorems carry the guards: mod-sign, div-zero, in-null-member, in-empty-null-left, like-wildcard-or-escape, and-null-before-false, SET list independence, no expired attribute read by an UPDATE. Modelled-not-verified: 64-bit overflow and floats (true division is modelled as an exact rational comparison), collations other than BINARY, PRAGMA case_sensitive_like=ON is set by the harness (SQLite's default LIKE is case-insensitive while str.startswith is not), joins/_NO_OBJECT, tuples, multi-table criteria, 'fetch' via RETURNING only (SQLite >= 3.35).",
    "technique": "Lean 4 proofs by mutual structural induction over expression trees and clause lists + translator for the visitor table + differential execution of evaluator, SQLite and ORM bulk statements",
    "design_ref": "DESIGN.md §3 C43",
}

NI, NS = 3, 2  # integer / string columns
INTS = [None, -7, -3, -1, 0, 1, 2, 3, 5, 8]
STRS = [None, "", "a", "ab", "a%b", "a_b", "axb", "%", "_", "A", "b/", "a/%", "a%", "abc", "/"]
CMPS = ["lt", "le", "gt", "ge", "eq", "ne"]
NEGCMP = {"lt": "ge", "le": "gt", "gt": "le", "ge": "lt", "eq": "ne", "ne": "eq"}
KNOWN_KEYS = [
    "evaluator-and-null-before-false",
    "evaluator-mod-sign",
    "evaluator-div-zero",
    "evaluator-in-null-member",
    "evaluator-in-empty-null-left",
    "evaluator-like-wildcard-or-escape",
    "set-clause-reads-assigned-column",
    "update-where-reads-expired-attribute",
    "set-value-reads-expired-attribute",
]


def enc(s):
    return "s:" + ".".join(str(ord(c)) for c in s)


# ------------------------------------------------------------------ expression trees
# a tree is a nested tuple; ('ic', i) ('il', v) ('i+', a, b) ... see lean/SaVerif/Drv/Eval.lean
def tokI(e):
    t = e[0]
    if t == "ic":
        return ["ic%d" % e[1]]
    if t == "il":
        return ["il%s" % ("N" if e[1] is None else e[1])]
    if t == "ineg":
        return ["ineg"] + tokI(e[1])
    return [t] + tokI(e[1]) + tokI(e[2])


def tokS(e):
    t = e[0]
    if t == "sc":
        return ["sc%d" % e[1]]
    if t == "sl":
        return ["sl%s" % ("N" if e[1] is None else enc(e[1]))]
    return ["s||"] + tokS(e[1]) + tokS(e[2])


def tokB(e):
    t = e[0]
    if t == "bi":
        return ["bi" + e[1]] + tokI(e[2]) + tokI(e[3])
    if t == "bs":
        return ["bs" + e[1]] + tokS(e[2]) + tokS(e[3])
    if t == "bq":
        return ["bq" + e[1]] + tokI(e[2]) + tokI(e[3]) + tokI(e[4])
    if t == "bnulli":
        return ["bnulli%d" % e[1]] + tokI(e[2])
    if t == "bnulls":
        return ["bnulls%d" % e[1]] + tokS(e[2])
    if t == "bin":
        return ["bmem%d:%s" % (e[1], ",".join("N" if v is None else str(v) for v in e[3]) or "-")] + tokI(e[2])
    if t == "blike":
        _, kind, icase, neg, a, other, esc, auto = e
        return ["blike:%s:%d:%d:%s:%d:%s" % (kind, icase, neg, "N" if esc is None else ord(esc), auto, enc(other)[2:])] + tokS(a)
    if t == "bbetween":
        return ["bbetween"] + tokI(e[1]) + tokI(e[2]) + tokI(e[3])
    if t in ("band", "bor"):
        out = ["%s%d" % (t, len(e[1]))]
        for x in e[1]:
            out += tokB(x)
        return out
    if t == "bnot":
        return ["bnot"] + tokB(e[1])
    if t == "bconst":
        return ["bconst" + {True: "T", False: "F", None: "N"}[e[1]]]
    raise ValueError(e)


def negate(e):
    """what SQLAlchemy's not_() produces: NOT is pushed into comparisons, IN, IS, LIKE;
    a unary NOT remains only above AND / OR"""
    t = e[0]
    if t in ("bi", "bs", "bq"):
        return (t, NEGCMP[e[1]]) + e[2:]
    if t in ("bnulli", "bnulls"):
        return (t, 1 - e[1], e[2])
    if t == "bin":
        return ("bin", 1 - e[1], e[2], e[3])
    if t == "blike":
        return e[:3] + (1 - e[3],) + e[4:]
    if t == "bconst":
        return ("bconst", None if e[1] is None else (not e[1]))
    return ("bnot", e)


class Schema:
    def __init__(self, composite=False):
        from sqlalchemy import Column, Integer, String
        from sqlalchemy.orm import declarative_base

        Base = declarative_base()
        if composite:
            # table key (i0, i1); the mapper is told primary_key=[i1, i0]
            attrs = {"__tablename__": "a2", "i0": Column(Integer, primary_key=True, autoincrement=False), "i1": Column(Integer, primary_key=True, autoincrement=False)}
            attrs["__mapper_args__"] = {"primary_key": [attrs["i1"], attrs["i0"]]}
            for i in range(2, NI):
                attrs["i%d" % i] = Column(Integer)
        else:
            attrs = {"__tablename__": "a", "id": Column(Integer, primary_key=True)}
            for i in range(NI):
                attrs["i%d" % i] = Column(Integer)
        for i in range(NS):
            attrs["s%d" % i] = Column(String)
        self.A = type("A2" if composite else "A", (Base,), attrs)
        self.Base = Base


def saI(A, e):
    from sqlalchemy import literal

    t = e[0]
    if t == "ic":
        return getattr(A, "i%d" % e[1])
    if t == "il":
        return literal(e[1])
    if t == "ineg":
        return -saI(A, e[1])
    a, b = saI(A, e[1]), saI(A, e[2])
    return {"i+": lambda: a + b, "i-": lambda: a - b, "i*": lambda: a * b, "i%": lambda: a % b, "i//": lambda: a // b}[t]()


def saS(A, e):
    from sqlalchemy import literal

    t = e[0]
    if t == "sc":
        return getattr(A, "s%d" % e[1])
    if t == "sl":
        return literal(e[1])
    return saS(A, e[1]) + saS(A, e[2])


def _cmp(op, a, b):
    return {"lt": lambda: a < b, "le": lambda: a <= b, "gt": lambda: a > b, "ge": lambda: a >= b, "eq": lambda: a == b, "ne": lambda: a != b}[op]()


def saB(A, e):
    from sqlalchemy import and_, false, not_, null, or_, true

    t = e[0]
    if t == "bi":
        return _cmp(e[1], saI(A, e[2]), saI(A, e[3]))
    if t == "bs":
        return _cmp(e[1], saS(A, e[2]), saS(A, e[3]))
    if t == "bq":
        return _cmp(e[1], saI(A, e[2]) / saI(A, e[3]), saI(A, e[4]))
    if t == "bnulli":
        x = saI(A, e[2])
        return x.is_not(None) if e[1] else (x == None)  # noqa: E711
    if t == "bnulls":
        x = saS(A, e[2])
        return (x != None) if e[1] else x.is_(None)  # noqa: E711
    if t == "bin":
        x = saI(A, e[2])
        return x.not_in(list(e[3])) if e[1] else x.in_(list(e[3]))
    if t == "blike":
        _, kind, icase, neg, a, other, esc, auto = e
        kw = {}
        if esc is not None:
            kw["escape"] = esc
        if auto:
            kw["autoescape"] = True
        r = getattr(saS(A, a), ("i" if icase else "") + kind)(other, **kw)
        return ~r if neg else r
    if t == "bbetween":
        return saI(A, e[1]).between(saI(A, e[2]), saI(A, e[3]))
    if t == "band":
        return and_(*[saB(A, x) for x in e[1]])
    if t == "bor":
        return or_(*[saB(A, x) for x in e[1]])
    if t == "bnot":
        return not_(saB(A, e[1]))
    if t == "bconst":
        return {True: true(), False: false(), None: null()}[e[1]]
    raise ValueError(e)


# ------------------------------------------------------------------ generators
def genI(rng, d, weird=False):
    r = rng.random()
    if d <= 0 or r < 0.45:
        if rng.random() < 0.6:
            return ("ic", rng.randrange(NI))
        return ("il", rng.choice([-7, -3, -2, -1, 0, 1, 2, 3, 5]))
    if weird and r < 0.5:
        return rng.choice([("i//", genI(rng, d - 1), genI(rng, d - 1)), ("ineg", genI(rng, d - 1))])
    op = rng.choice(["i+", "i-", "i*", "i%", "i%"])
    a, b = genI(rng, d - 1, weird), genI(rng, d - 1, weird)
    if op == "i%" and b == ("il", 0) and rng.random() < 0.8:
        b = ("il", rng.choice([-3, -2, 2, 3, 5]))
    if a[0] == "il" and b[0] == "il":
        a = ("ic", rng.randrange(NI))
    return (op, a, b)


def genS(rng, d):
    r = rng.random()
    if d <= 0 or r < 0.6:
        if rng.random() < 0.65:
            return ("sc", rng.randrange(NS))
        return ("sl", rng.choice(["", "a", "b", "ab", "%", "_", "a%", "x"]))
    a, b = genS(rng, d - 1), genS(rng, d - 1)
    if a[0] == "sl" and b[0] == "sl":
        a = ("sc", rng.randrange(NS))
    return ("s||", a, b)


def genB(rng, d, weird=False, top=True):
    """constants only at the top: and_(x, false()) / or_(x, true()) fold into an AsBoolean
    element the evaluator rejects (allowed by the property, but outside the model)"""
    r = rng.random()
    if d > 0 and r < 0.42:
        n = rng.choice([2, 2, 3, 4])
        kind = rng.choice(["band", "bor"])
        sub = tuple(genB(rng, d - 1, weird, top=False) for _ in range(n))
        e = (kind, sub)
        if rng.random() < 0.35:
            e = negate(e)
        return e
    c = rng.random()
    if c < 0.3:
        a, b = genI(rng, 2, weird), genI(rng, 1, weird)
        if a[0] == "il" and b[0] == "il":
            a = ("ic", rng.randrange(NI))
        e = ("bi", rng.choice(CMPS), a, b)
    elif c < 0.4:
        e = ("bs", rng.choice(CMPS), genS(rng, 1), genS(rng, 1))
        if e[2][0] == "sl" and e[3][0] == "sl":
            e = ("bs", e[1], ("sc", rng.randrange(NS)), e[3])
    elif c < 0.5:
        e = ("bq", rng.choice(CMPS), genI(rng, 1), genI(rng, 1), ("il", rng.choice([-2, -1, 0, 1, 2, 3])))
        if e[2][0] == "il" and e[3][0] == "il":
            e = ("bq", e[1], ("ic", rng.randrange(NI)), e[3], e[4])
    elif c < 0.6:
        x = genI(rng, 1)
        if x[0] == "il":
            x = ("ic", rng.randrange(NI))
        e = ("bnulli", rng.randrange(2), x) if rng.random() < 0.7 else ("bnulls", rng.randrange(2), ("sc", rng.randrange(NS)))
    elif c < 0.78:
        n = rng.choice([0, 1, 2, 3, 3])
        vals = tuple(rng.choice([None, -3, -1, 0, 1, 2, 3, 5]) if rng.random() < 0.9 else None for _ in range(n))
        if rng.random() < 0.6:
            vals = tuple(v for v in vals if v is not None)
        x = genI(rng, 1)
        if x[0] == "il":
            x = ("ic", rng.randrange(NI))
        e = ("bin", rng.randrange(2), x, vals)
    elif c < 0.96:
        kind = rng.choice(["startswith", "endswith"])
        icase = neg = 0
        if weird and rng.random() < 0.5:
            kind = rng.choice(["contains", "startswith", "endswith"])
            icase, neg = rng.randrange(2), rng.randrange(2)
        mode = rng.random()
        other = rng.choice(["", "a", "ab", "b", "a%", "a_", "%", "_", "a/", "/", "x", "b/", "a%b"])
        if mode < 0.55:
            other = rng.choice(["", "a", "ab", "b", "x", "abc", "A"])
            esc, auto = rng.choice([None, None, "/", "^"]), rng.random() < 0.3
        elif mode < 0.8:
            esc, auto = rng.choice([None, "/", "^"]), True
        else:
            esc, auto = rng.choice([None, "/", "^"]), False
        e = ("blike", kind, icase, neg, genS(rng, 1) if rng.random() < 0.3 else ("sc", rng.randrange(NS)), other, esc, auto)
        if e[4][0] == "sl":
            e = e[:4] + (("sc", rng.randrange(NS)),) + e[5:]
    elif weird and c < 0.98:
        e = ("bbetween", ("ic", rng.randrange(NI)), ("il", 0), ("il", 3))
    elif top:
        e = ("bconst", rng.choice([True, False, None]))
    else:
        e = ("bnulli", rng.randrange(2), ("ic", rng.randrange(NI)))
    if rng.random() < 0.15:
        e = negate(e)
    return e


def gen_row(rng):
    return ([rng.choice(INTS) for _ in range(NI)], [rng.choice(STRS) for _ in range(NS)])


def gen_sets(rng, weird=False):
    """SET list over integer columns: {col: IExp}"""
    n = rng.choice([1, 1, 2, 2, 3])
    cols = rng.sample(range(NI), n)
    sets = []
    for c in cols:
        if rng.random() < 0.3:
            e = ("il", rng.choice([-5, 0, 1, 4, 9]))
        else:
            e = genI(rng, 2, weird)
        sets.append((c, e))
    return sets


def reads(e):
    if e[0] == "ic":
        return {e[1]}
    if e[0] == "il":
        return set()
    out = set()
    for x in e[1:]:
        out |= reads(x)
    return out


def sets_independent(sets):
    assigned = [c for c, _ in sets]
    for k, (c, e) in enumerate(sets):
        for k2, (c2, e2) in enumerate(sets):
            if k != k2 and c in reads(e2):
                return False
    return len(set(assigned)) == len(assigned)


def readsB(e):
    """(integer columns, string columns) read by a boolean tree"""
    t = e[0]
    if t in ("ic",):
        return ({e[1]}, set())
    if t == "sc":
        return (set(), {e[1]})
    if t in ("il", "sl", "bconst"):
        return (set(), set())
    a, b = set(), set()
    for x in e[1:]:
        if isinstance(x, tuple) and x and isinstance(x[0], str):
            ra, rb = readsB(x)
            a |= ra
            b |= rb
        elif isinstance(x, tuple):
            for y in x:
                if isinstance(y, tuple) and y and isinstance(y[0], str):
                    ra, rb = readsB(y)
                    a |= ra
                    b |= rb
    return (a, b)


def show_ints(l):
    return ",".join("N" if v is None else str(v) for v in l) if l else "-"


def show_strs(l):
    return ",".join("N" if v is None else enc(v) for v in l) if l else "-"


def show_nats(l):
    return ",".join(str(v) for v in l) if l else "-"


def tok_sets(sets):
    return "|".join("%d=%s" % (c, ";".join(tokI(e))) for c, e in sets) if sets else "-"


# ------------------------------------------------------------------ translator
def gen(ctx):
    from sqlalchemy.orm import evaluator

    names = sorted(n for n in dir(evaluator._EvaluatorCompiler) if n.startswith("visit_"))
    ctx.write_gen(
        "EvalOps",
        "/-! `visit_*` methods of `orm.evaluator._EvaluatorCompiler` (by introspection of the class) -/\n"
        "namespace SaVerif.Gen.EvalOps\n\n"
        "def visitNames : List String := [%s]\n\n"
        "end SaVerif.Gen.EvalOps\n" % ", ".join('"%s"' % n for n in names),
    )


# ------------------------------------------------------------------ real code
class World:
    def __init__(self, composite=False):
        from sqlalchemy import create_engine, event
        from sqlalchemy.pool import StaticPool

        self.composite = composite
        self.keys = ["i0", "i1"] if composite else ["id"]
        self.schema = Schema(composite)
        self.A = self.schema.A
        self.eng = create_engine("sqlite://", poolclass=StaticPool)

        @event.listens_for(self.eng, "connect")
        def _pragma(dbapi_conn, rec):
            dbapi_conn.execute("PRAGMA case_sensitive_like=ON")

        self.schema.Base.metadata.create_all(self.eng)

    def rowdict(self, k, row):
        d = {} if self.composite else {"id": k + 1}
        d.update({"i%d" % i: v for i, v in enumerate(row[0])})
        d.update({"s%d" % i: v for i, v in enumerate(row[1])})
        return d

    def load(self, sess, rows, expire):
        """insert rows, load one object per row, expire the requested attributes"""
        from sqlalchemy import select

        A = self.A
        sess.execute(A.__table__.delete())
        sess.execute(A.__table__.insert(), [self.rowdict(k, r) for k, r in enumerate(rows)])
        objs = sess.scalars(select(A).order_by(*[getattr(A, k) for k in self.keys])).all()
        for o, (xi, xs) in zip(objs, expire):
            names = ["i%d" % i for i in xi] + ["s%d" % i for i in xs]
            if names:
                sess.expire(o, names)
        return objs

    def eval_direct(self, tree, rows, expire):
        """value of the real evaluator closure per object, SQLite's value of the criteria per row"""
        from sqlalchemy import select
        from sqlalchemy.orm import Session
        from sqlalchemy.orm import evaluator

        A = self.A
        expr = saB(A, tree)
        with Session(self.eng) as sess:
            objs = self.load(sess, rows, expire)
            try:
                fn = evaluator._EvaluatorCompiler(A).process(expr)
            except evaluator.UnevaluatableError:
                fn = None
            py = []
            for o in objs:
                if fn is None:
                    py.append("U")
                    continue
                try:
                    v = fn(o)
                except ZeroDivisionError:
                    py.append("Z")
                    continue
                except Exception as ex:  # anything else is outside the model: shows up as a disagreement
                    py.append("E:" + type(ex).__name__)
                    continue
                if v is evaluator._EXPIRED_OBJECT:
                    py.append("X")
                elif v is None:
                    py.append("N")
                elif v is True or v is False:
                    py.append("T" if v else "F")
                else:
                    py.append("?%r" % (v,))
            sql = []
            for v in sess.execute(select(expr.label("v")).select_from(A).order_by(*[getattr(A, k) for k in self.keys])).scalars():
                sql.append("N" if v is None else ("T" if v else "F"))
            sess.rollback()
        return py, sql

    def run_dml(self, kind, mode, tree, sets, rows, expire, lc=None):
        """execute the bulk statement; returns per object (session outcome, db outcome, loaded dict).
        `tree` None = no WHERE; `lc` = (form, include_aliases, tree) with_loader_criteria()"""
        from sqlalchemy import delete, event, inspect, select, update
        from sqlalchemy.exc import InvalidRequestError
        from sqlalchemy.orm import Session, with_loader_criteria
        from sqlalchemy.orm import evaluator

        A = self.A
        out = {"error": None}
        with Session(self.eng) as sess:
            objs = self.load(sess, rows, expire)
            if kind == "update":
                st = update(A).values({getattr(A, "i%d" % c): saI(A, e) for c, e in sets})
            else:
                st = delete(A)
            if tree is not None:
                st = st.where(saB(A, tree))
            if lc is not None:
                form, incl, ltree = lc
                if form == "lambda":
                    opt = lambda_criteria(A, ltree, incl)
                else:
                    opt = with_loader_criteria(A, saB(A, ltree), include_aliases=incl)
                if form == "session":

                    @event.listens_for(sess, "do_orm_execute")
                    def _add(state):
                        if state.is_update or state.is_delete:
                            state.statement = state.statement.options(opt)

                else:
                    st = st.options(opt)
            try:
                sess.execute(st, execution_options={"synchronize_session": mode})
            except ZeroDivisionError:
                out["error"] = "zerodiv"
            except InvalidRequestError as e:
                if "Could not evaluate" in str(e):
                    out["error"] = "uneval"
                else:
                    out["error"] = "raise:InvalidRequestError"
            except Exception as e:
                out["error"] = "raise:" + type(e).__name__
            db = {tuple(getattr(r, k) for k in self.keys): r for r in sess.execute(select(A.__table__)).all()}
            rowkeys = [tuple(r[0][:2]) if self.composite else (k + 1,) for k, r in enumerate(rows)]
            per = []
            for k, o in enumerate(objs):
                st_ = inspect(o)
                d = dict(o.__dict__)
                loaded = {}
                sentinel = False
                for i in range(NI):
                    key = "i%d" % i
                    if key in d:
                        if d[key] is evaluator._EXPIRED_OBJECT:
                            sentinel = True
                            loaded[key] = "SENTINEL"
                        else:
                            loaded[key] = d[key]
                for i in range(NS):
                    key = "s%d" % i
                    if key in d:
                        loaded[key] = d[key]
                row = db.get(rowkeys[k])
                per.append(
                    {
                        "in_session": o in sess,
                        "expired_all": not any(key in d for key in loaded) and st_.expired,
                        "loaded": loaded,
                        "sentinel": sentinel,
                        "db": None if row is None else {c: getattr(row, c) for c in row._fields if c != "id"},
                        "key": rowkeys[k],
                    }
                )
            out["per"] = per
            sess.rollback()
        return out


def run_bulk_pk(w, sc):
    """ORM bulk UPDATE by primary key / bulk INSERT..RETURNING over mixed loaded / unloaded /
    partially expired targets.  Returns (canonical line, oracle problem or None)."""
    from sqlalchemy import insert, select, update
    from sqlalchemy.orm import Session

    A = w.A
    rows, loaded, expire, params, mode, form = sc["rows"], sc["loaded"], sc["expire"], sc["params"], sc["mode"], sc["form"]
    why = None
    with Session(w.eng) as sess:
        sess.execute(A.__table__.delete())
        sess.execute(A.__table__.insert(), [dict({"id": pk}, **{"i%d" % i: v for i, v in enumerate(vals)}, s0=None, s1=None) for pk, vals in rows])
        objs = {}
        for pk in loaded:
            objs[pk] = sess.get(A, pk)
        for pk, xi in expire.items():
            if int(pk) in objs and xi:
                sess.expire(objs[int(pk)], ["i%d" % i for i in xi])
        dicts = [dict({"id": pk}, **{"i%d" % c: v for c, v in cols}) for pk, cols in params]
        err = None
        try:
            if form == "update":
                opts = {} if mode is None else {"synchronize_session": mode}
                sess.execute(update(A), dicts, execution_options=opts)
            else:
                got = sess.execute(insert(A).returning(A), dicts).scalars().all()
                for o in got:
                    objs[o.id] = o
        except Exception as e:
            err = "raise:" + type(e).__name__
        db = {r.id: [getattr(r, "i%d" % i) for i in range(NI)] for r in sess.execute(select(A.__table__)).all()}
        parts = []
        for pk in sorted(db):
            o = objs.get(pk)
            if o is None:
                parts.append("%d/%s/U" % (pk, show_ints(db[pk])))
                continue
            d = o.__dict__
            vals = []
            for i in range(NI):
                key = "i%d" % i
                if key not in d:
                    vals.append("X")
                else:
                    vals.append("N" if d[key] is None else str(d[key]))
                    if d[key] != db[pk][i] and why is None:
                        why = "%s by primary key %s (synchronize_session=%s): loaded object %d has %s=%r, the database has %r" % (
                            "bulk UPDATE" if form == "update" else "bulk INSERT..RETURNING", [p[0] for p in params], mode, pk, key, d[key], db[pk][i])
            parts.append("%d/%s/%s" % (pk, show_ints(db[pk]), ",".join(vals)))
        if form == "insert" and err is None and sorted(o.id for o in got) != sorted(p[0] for p in params) and why is None:
            why = "bulk INSERT..RETURNING returned ids %s for parameter ids %s" % ([o.id for o in got], [p[0] for p in params])
        if err and why is None:
            why = "the statement raised %s" % err[6:]
        sess.rollback()
    return (err or ";".join(parts)), why


def gen_bulk_pk(rng):
    n = rng.randint(2, 7)
    pks = rng.sample(range(1, 20), n)
    rows = [(pk, [rng.choice([None, 0, 1, 2, 5]) for _ in range(NI)]) for pk in pks]
    form = "update" if rng.random() < 0.8 else "insert"
    if form == "update":
        loaded = [pk for pk in pks if rng.random() < 0.55]
        expire = {str(pk): sorted(rng.sample(range(NI), rng.randint(1, 2))) for pk in loaded if rng.random() < 0.2}
        targets = rng.sample(pks, rng.randint(1, n))
        if rng.random() < 0.3:
            targets = sorted(targets)
        same_keys = rng.random() < 0.6
        keys = sorted(rng.sample(range(NI), rng.randint(1, NI)))
        params = []
        for pk in targets:
            ks = keys if same_keys else sorted(rng.sample(range(NI), rng.randint(1, NI)))
            params.append((pk, [(c, rng.choice([None, 3, 4, 7, 9])) for c in ks]))
        mode = rng.choice([None, "evaluate", "auto"])
    else:
        loaded, expire = [pk for pk in pks if rng.random() < 0.4], {}
        new = [pk for pk in rng.sample(range(20, 40), rng.randint(1, 4))]
        params = [(pk, [(c, rng.choice([None, 3, 4, 7])) for c in range(NI)]) for pk in new]
        mode = None
    return {"rows": rows, "loaded": loaded, "expire": expire, "params": params, "mode": mode, "form": form}


def bulk_pk_request(sc):
    ps = "|".join("%d=%s" % (pk, ".".join("%d:%s" % (c, "N" if v is None else v) for c, v in cols) or "-") for pk, cols in sc["params"])
    slots = []
    for pk, vals in sorted(sc["rows"]):
        if pk in sc["loaded"]:
            slots.append("%d/%s/L/%s/%s" % (pk, show_ints(vals), show_ints(vals), show_nats(sc["expire"].get(str(pk), []))))
        else:
            slots.append("%d/%s/U/-/-" % (pk, show_ints(vals)))
    return "eval bulkpk %s %s" % (ps, ";".join(slots))


def lambda_criteria(A, ltree, incl):
    """with_loader_criteria(A, lambda cls: cls.iN > k): k is a tracked closure variable"""
    from sqlalchemy.orm import with_loader_criteria

    _, op, (_, col), (_, k) = ltree
    assert op == "gt"
    if col == 0:
        return with_loader_criteria(A, lambda cls: cls.i0 > k, include_aliases=incl)
    if col == 1:
        return with_loader_criteria(A, lambda cls: cls.i1 > k, include_aliases=incl)
    return with_loader_criteria(A, lambda cls: cls.i2 > k, include_aliases=incl)


def effective_tree(case):
    """criteria the statement carries: WHERE and the loader criteria, ANDed"""
    lc = case.get("lc")
    if lc is None:
        return case["tree"]
    if case["tree"] is None:
        return lc[2]
    return ("band", (case["tree"], lc[2]))


def oracle(kind, res, k):
    """the property on one object: loaded attributes equal the database row; membership follows the row"""
    p = res["per"][k]
    if res["error"] == "uneval":
        return None  # the operation raised before executing: allowed by the property
    if res["error"] and res["error"].startswith("raise:"):
        return "the statement raised %s (only UnevaluatableError -> InvalidRequestError is a faithful refusal)" % res["error"][6:]
    if p["db"] is None:
        if p["in_session"] and not p["expired_all"]:
            return "row %d was deleted but the object is still in the session with loaded state %s" % (k + 1, p["loaded"])
        return None
    if not p["in_session"]:
        return "row %d still exists %s but the object was removed from the session" % (k + 1, p["db"])
    for key, v in p["loaded"].items():
        if v != p["db"][key] or (v is None) != (p["db"][key] is None):
            return "object %d has %s=%r in the session, the database has %r%s" % (k + 1, key, v, p["db"][key], "")
    return None


def session_outcome(kind, res, k, expire):
    """canonical session outcome for the correspondence"""
    p = res["per"][k]
    db_i = "deleted" if p["db"] is None else show_ints([p["db"]["i%d" % i] for i in range(NI)])
    if kind == "update":
        dbs = db_i
        if res["error"] == "uneval":
            return "U / " + dbs
        if res["error"] == "zerodiv":
            return "zerodiv / " + dbs  # some object raised; per-object outcome undefined
        if res["error"]:
            return res["error"] + " / " + dbs
        if p["sentinel"]:
            return "sentinel / " + dbs
        vals = []
        for i in range(NI):
            key = "i%d" % i
            vals.append("X" if key not in p["loaded"] else ("N" if p["loaded"][key] is None else str(p["loaded"][key])))
        return "ok " + ",".join(vals) + " / " + dbs
    dbs = "1" if p["db"] is None else "0"
    if res["error"] == "uneval":
        return "U / " + dbs
    if res["error"]:
        return res["error"] + " / " + dbs
    if not p["in_session"]:
        return "removed / " + dbs
    if p["expired_all"]:
        return "expired / " + dbs
    return "kept / " + dbs


def mask_model(kind, line, xi):
    """model prints values of expired attributes; the session shows them as unloaded"""
    if kind != "update" or not line.startswith("ok "):
        return line
    head, db = line.split(" / ")
    vals = head[3:].split(",")
    vals = ["X" if i in xi else v for i, v in enumerate(vals)]
    return "ok " + ",".join(vals) + " / " + db


# ------------------------------------------------------------------ fixed witnesses (= Lean counterexamples)
def witnesses():
    x0, x1, x2 = ("ic", 0), ("ic", 1), ("ic", 2)
    gt = lambda a, v: ("bi", "gt", a, ("il", v))  # noqa: E731
    W = []
    W.append(("evaluator-and-null-before-false", "update", "evaluate", ("bnot", ("band", (gt(x0, 0), gt(x1, 100)))), [(2, ("il", 9))], [([None, 0, 0], [None, None])], [([], [])]))
    W.append(("evaluator-mod-sign", "update", "evaluate", ("bi", "eq", ("i%", x0, ("il", 3)), ("il", -1)), [(2, ("il", 9))], [([-7, 0, 0], [None, None])], [([], [])]))
    W.append(("evaluator-div-zero", "update", "evaluate", ("bq", "gt", x0, x1, ("il", 0)), [(2, ("il", 9))], [([5, 0, 0], [None, None])], [([], [])]))
    W.append(("evaluator-in-null-member", "update", "evaluate", ("bin", 1, x0, (1, None)), [(2, ("il", 9))], [([2, 0, 0], [None, None])], [([], [])]))
    W.append(("evaluator-in-empty-null-left", "update", "evaluate", ("bin", 1, x0, ()), [(2, ("il", 9))], [([None, 0, 0], [None, None])], [([], [])]))
    W.append(("evaluator-like-wildcard-or-escape", "update", "evaluate", ("blike", "startswith", 0, 0, ("sc", 0), "a%", None, False), [(2, ("il", 9))], [([0, 0, 0], ["axb", None])], [([], [])]))
    W.append(("evaluator-like-wildcard-or-escape", "delete", "evaluate", ("blike", "endswith", 0, 0, ("sc", 0), "_", None, True), None, [([0, 0, 0], ["a_", None])], [([], [])]))
    W.append(("set-clause-reads-assigned-column", "update", "evaluate", ("bconst", True), [(0, x1), (1, x0)], [([1, 2, 0], [None, None])], [([], [])]))
    W.append(("set-clause-reads-assigned-column", "update", "fetch", ("bconst", True), [(0, x1), (1, x0)], [([1, 2, 0], [None, None])], [([], [])]))
    W.append(("update-where-reads-expired-attribute", "update", "evaluate", gt(x1, 100), [(0, ("il", 77))], [([1, 2, 0], [None, None])], [([1], [])]))
    W.append(("set-value-reads-expired-attribute", "update", "evaluate", ("bconst", True), [(0, ("i+", x1, ("il", 1)))], [([1, 2, 0], [None, None])], [([1], [])]))
    W.append(("evaluator-mod-sign", "update", "fetch", ("bconst", True), [(2, ("i%", x0, ("il", 3)))], [([-7, 0, 0], [None, None])], [([], [])]))
    return [{"kind": k, "mode": m, "tree": t, "sets": s, "rows": r, "expire": x, "expect": key} for key, k, m, t, s, r, x in W]


def jsonable(case):
    def conv(x):
        if isinstance(x, tuple):
            return [conv(y) for y in x]
        if isinstance(x, list):
            return [conv(y) for y in x]
        return x

    return {k: conv(v) for k, v in case.items()}


def unjson(x):
    """lists back to the tuple trees the helpers expect"""
    if isinstance(x, list):
        return tuple(unjson(y) for y in x)
    return x


def case_from_json(c):
    rows = [([v for v in r[0]], [v for v in r[1]]) for r in c["rows"]]
    expire = [([v for v in e[0]], [v for v in e[1]]) for e in c["expire"]]
    sets = None if c.get("sets") is None else [(s[0], unjson(s[1])) for s in c["sets"]]
    out = {"kind": c["kind"], "mode": c["mode"], "tree": None if c["tree"] is None else unjson(c["tree"]), "sets": sets, "rows": rows, "expire": expire}
    if c.get("lc") is not None:
        out["lc"] = (c["lc"][0], c["lc"][1], unjson(c["lc"][2]))
    if c.get("composite"):
        out["composite"] = True
    return out


def gen_dml_case(rng, weird=False):
    kind = rng.choice(["update", "update", "delete"])
    mode = rng.choice(["evaluate", "evaluate", "evaluate", "fetch", "auto"])
    tree = genB(rng, rng.choice([0, 1, 1, 2, 2, 3]), weird)
    sets = gen_sets(rng, weird and rng.random() < 0.3) if kind == "update" else None
    n = rng.choice([3, 5, 8])
    rows = [gen_row(rng) for _ in range(n)]
    expire = []
    for _ in rows:
        if rng.random() < 0.12:
            expire.append((sorted(rng.sample(range(NI), rng.choice([1, 1, 2]))), []))
        elif rng.random() < 0.05:
            expire.append(([], [rng.randrange(NS)]))
        else:
            expire.append(([], []))
    case = {"kind": kind, "mode": mode, "tree": tree, "sets": sets, "rows": rows, "expire": expire}
    if rng.random() < 0.25:
        form = rng.choice(["option", "session", "lambda"])
        if form == "lambda":
            ltree = ("bi", "gt", ("ic", rng.randrange(NI)), ("il", rng.choice([-2, 0, 1, 2, 4])))
        else:
            ltree = genB(rng, rng.choice([0, 0, 1]), False, top=False)
        case["lc"] = (form, rng.random() < 0.5, ltree)
        if rng.random() < 0.5 or tree[0] == "bconst":  # (and_(false(), x) folds into an AsBoolean the evaluator rejects)
            case["tree"] = None  # no .where(): only the loader criteria restrict the rows
    return case


def gen_composite_case(rng):
    """entity whose mapper primary_key order differs from the table's; asymmetric and mirrored keys"""
    kind = rng.choice(["update", "delete"])
    mode = rng.choice(["evaluate", "fetch", "fetch", "auto"])
    keys = rng.sample([(a, b) for a in (1, 2, 3) for b in (1, 2, 3)], rng.randint(2, 6))
    if rng.random() < 0.7:
        a, b = rng.choice([(1, 2), (1, 3), (2, 3)])
        keys = list(dict.fromkeys(keys + [(a, b), (b, a)]))
    keys.sort()
    rows = [([a, b, rng.choice([None, -3, 0, 1, 2, 5])], [rng.choice(STRS), rng.choice(STRS)]) for a, b in keys]
    m = rng.random()
    if m < 0.4:
        tree = ("bi", rng.choice(CMPS), ("ic", 2), ("il", rng.choice([0, 1, 2])))
    elif m < 0.7:
        tree = ("band", (("bi", "eq", ("ic", 0), ("il", rng.choice([1, 2, 3]))), ("bi", rng.choice(CMPS), ("ic", 1), ("il", rng.choice([1, 2, 3])))))
    else:
        tree = genB(rng, rng.choice([0, 1, 2]), False)
    sets = [(2, rng.choice([("il", rng.choice([7, 9, 11])), ("i+", ("ic", 2), ("il", 10)), ("i+", ("ic", 0), ("ic", 1))]))] if kind == "update" else None
    expire = [(([2], []) if rng.random() < 0.1 else ([], [])) for _ in rows]
    return {"kind": kind, "mode": mode, "tree": tree, "sets": sets, "rows": rows, "expire": expire, "composite": True}


def dml_requests(case):
    e = ";".join(tokB(effective_tree(case)))
    reqs = []
    for (ints, strs), (xi, xs) in zip(case["rows"], case["expire"]):
        if case["kind"] == "update":
            reqs.append("eval update %s %s %s %s %s %s %s" % (case["mode"], e, tok_sets(case["sets"]), show_ints(ints), show_strs(strs), show_nats(xi), show_nats(xs)))
        else:
            reqs.append("eval delete %s %s %s %s %s %s" % (case["mode"], e, show_ints(ints), show_strs(strs), show_nats(xi), show_nats(xs)))
    return reqs


def static_key(case, k):
    """known-finding shapes that are visible without the model"""
    xi, xs = case["expire"][k]
    ri, rs = readsB(effective_tree(case))
    if case["kind"] == "update":
        if case["mode"] != "fetch" and (set(xi) & ri or set(xs) & rs):
            return "update-where-reads-expired-attribute"
        if any(set(xi) & reads(e) for c, e in case["sets"] if c not in xi):
            return "set-value-reads-expired-attribute"
        if not sets_independent(case["sets"]):
            return "set-clause-reads-assigned-column"
    return None


def viol_requests(case, k):
    """driver requests naming the failing guards for object k (criteria, then each SET value)"""
    ints, strs = case["rows"][k]
    reqs = ["eval viol 1 %s %s %s" % (";".join(tokB(effective_tree(case))), show_ints(ints), show_strs(strs))]
    for c, e in case["sets"] or []:
        reqs.append("eval viol 1 %s %s %s" % (";".join(tokB(("bi", "eq", e, ("il", 0)))), show_ints(ints), show_strs(strs)))
    return reqs


def run(ctx, deep=False):
    thorough = ctx.tier == "thorough" or deep
    ctx.rule = (
        "random typed criteria trees of depth <=3: comparisons over + - * % of 3 integer columns and literals, string "
        "comparisons and concatenation over 2 string columns, true division compared with a literal, IS [NOT] NULL, "
        "IN / NOT IN (0-3 members, NULL members, empty), startswith / endswith with wildcard operands, escape and "
        "autoescape, n-ary AND / OR (2-4 operands), NOT pushed as SQLAlchemy pushes it, constants; rows over "
        "{NULL,-7,-3,-1,0,1,2,3,5,8} and 15 strings with %, _, /; (1) evaluator closure and SQLite value per row, "
        "(2) Session.execute(update/delete) with evaluate (60%) / fetch / auto over 3-8 loaded objects, 15% of them "
        "with expired attributes, SET lists of 1-3 integer columns; a separate stream adds operators the evaluator "
        "lacks (contains, i-variants, negated LIKE, between, //, unary minus); a case is non-trivial when the tree "
        "has a connective or a NULL-sensitive operator; distinct = distinct (tree, rows)"
    )
    ctx.trusted.append("SQLite semantics of the rendered criteria (evalSql*) validated by corr/c43:sqlite-value on every run; integer overflow and floats not modelled")
    ctx.assumptions.append("PRAGMA case_sensitive_like=ON; |values| small enough that IEEE division of the generated integers compares exactly")
    w = World()

    # ---- (1) evaluator closure / SQLite value per row
    c1, i1, r1 = [], [], []
    c2, i2, r2 = [], [], []
    n_eval = 3000 if thorough else 550
    pool_rows = [gen_row(ctx.rng) for _ in range(60)]
    pool_rows += [([a, b, 0], [s, "a"]) for a, b in itertools.product([None, -7, 0, 3], repeat=2) for s in (None, "a%b")]
    for n in range(n_eval):
        weird = ctx.rng.random() < 0.12
        tree = genB(ctx.rng, ctx.rng.choice([0, 1, 1, 2, 2, 3]), weird)
        rows = ctx.rng.sample(pool_rows, 10)
        expire = [([], []) for _ in rows]
        if ctx.rng.random() < 0.3:
            expire[0] = ([ctx.rng.randrange(NI)], [])
            expire[1] = ([], [ctx.rng.randrange(NS)])
            expire[2] = (sorted(ctx.rng.sample(range(NI), 2)), [0])
        py, sql = w.eval_direct(tree, rows, expire)
        e = ";".join(tokB(tree))
        nontriv = tree[0] in ("band", "bor", "bnot", "bin", "blike", "bq", "bnulli")
        ctx.case((e, rows), nontrivial=nontriv)
        ctx.count("top=" + tree[0])
        ctx.count("evaluable=%s" % (py[0] != "U"))
        for k, ((ints, strs), (xi, xs)) in enumerate(zip(rows, expire)):
            c1.append({"tree": e, "ints": ints, "strs": strs, "xi": xi, "xs": xs})
            i1.append(py[k])
            r1.append("eval py %s %s %s %s %s" % (e, show_ints(ints), show_strs(strs), show_nats(xi), show_nats(xs)))
            c2.append({"tree": e, "ints": ints, "strs": strs})
            i2.append(sql[k])
            r2.append("eval sql %s %s %s" % (e, show_ints(ints), show_strs(strs)))
            ctx.count("py=" + py[k][:1])
        if n < 4:
            ctx.sample({"criteria": str(saB(w.A, tree)), "rows": rows[:3], "evaluator": py[:3], "sqlite": sql[:3]})

    # ---- (2) the bulk statements end to end
    cases = witnesses()
    n_dml = 4000 if thorough else 550
    for _ in range(n_dml):
        cases.append(gen_dml_case(ctx.rng, weird=ctx.rng.random() < 0.1))
    c3, i3, r3 = [], [], []
    pending = []  # oracle failures awaiting the guard names from the model
    w2 = World(composite=True)
    for _ in range(700 if thorough else 120):
        cases.append(gen_composite_case(ctx.rng))
    for case in cases:
        res = (w2 if case.get("composite") else w).run_dml(case["kind"], case["mode"], case["tree"], case["sets"], case["rows"], case["expire"], case.get("lc"))
        ctx.case((";".join(tokB(effective_tree(case))), case["rows"], case["mode"], case["kind"], str(case.get("lc"))), nontrivial=True)
        ctx.count("dml=%s/%s" % (case["kind"], case["mode"]))
        if case.get("lc") is not None:
            ctx.count("with_loader_criteria=%s%s" % (case["lc"][0], "" if case["tree"] is not None else "/no-where"))
        if case.get("composite"):
            ctx.count("composite-pk-mapper-order-differs")
        if res["error"]:
            ctx.count("dml-error=" + res["error"])
        reqs = dml_requests(case)
        known_shape = False
        for k in range(len(case["rows"])):
            why = oracle(case["kind"], res, k)
            if why:
                pending.append((case, k, why, res["error"]))
        # correspondence only where no known-finding shape is involved on any object of the case
        for k in range(len(case["rows"])):
            if static_key(case, k):
                known_shape = True
        if not known_shape:
            for k in range(len(case["rows"])):
                c3.append(dict(jsonable(case), obj=k))
                i3.append(session_outcome(case["kind"], res, k, case["expire"]))
                r3.append(reqs[k])

    # ---- (3) ORM bulk UPDATE by primary key / bulk INSERT..RETURNING
    c4, i4, r4 = [], [], []
    for _ in range(2500 if thorough else 300):
        sc = gen_bulk_pk(ctx.rng)
        line, why = run_bulk_pk(w, sc)
        ctx.case(("bulkpk", str(sc)), nontrivial=len(sc["params"]) > 1)
        ctx.count("bulk-by-pk=%s/%s" % (sc["form"], sc["mode"]))
        if why:
            ctx.violation("c43-oracle:bulk-%s-by-pk" % sc["form"], {"bulkpk": jsonable_bulk(sc)}, why)
        if sc["form"] == "update":
            c4.append(jsonable_bulk(sc))
            i4.append(line)
            r4.append(bulk_pk_request(sc))

    if not ctx.driver_ok():
        for case, k, why, _ in pending:
            ctx.violation("c43-oracle", dict(jsonable(case), obj=k), why)
        return
    m1 = ctx.driver(r1)
    m2 = ctx.driver(r2)
    ctx.correspond("corr/c43:evaluator-closure-vs-Model.Evaluator.evalPyB", c1, i1, m1)
    ctx.correspond("corr/c43:sqlite-value-vs-Model.Evaluator.evalSqlB", c2, i2, m2)
    ctx.correspond("corr/c43:bulk-update-by-pk-vs-Model.Evaluator.bulkByPk", c4, i4, ctx.driver(r4))
    # known-finding shapes of the criteria / SET values are data dependent: ask the model which guards fail
    m3 = ctx.driver(r3)
    keep = []
    vreq, vidx = [], []
    for n, c in enumerate(c3):
        case = case_from_json(c)
        for q in viol_requests(case, c["obj"]):
            vreq.append(q)
            vidx.append(n)
    vres = ctx.driver(vreq)
    guards = {}
    for n, v in zip(vidx, vres):
        if v not in ("-", "bad-op"):
            guards.setdefault(n, set()).update(v.split(","))
    # a ZeroDivisionError anywhere aborts the whole statement: drop such cases from the per-object comparison
    zero_cases = set()
    for n, c in enumerate(c3):
        if "div-zero" in guards.get(n, ()):
            zero_cases.add(id_of(c))
    cc, ii, mm = [], [], []
    for n, c in enumerate(c3):
        if n in guards or id_of(c) in zero_cases:
            ctx.count("corr-skipped-known-shape")
            continue
        cc.append(c)
        ii.append(i3[n])
        mm.append(m3[n])
    ctx.correspond("corr/c43:session-and-db-after-statement-vs-Model.Evaluator.sync", cc, ii, mm)

    # ---- classify oracle failures
    preq, pidx = [], []
    for n, (case, k, why, err) in enumerate(pending):
        for q in viol_requests(case, k):
            preq.append(q)
            pidx.append(n)
    pres = ctx.driver(preq)
    pg = {}
    for n, v in zip(pidx, pres):
        if v not in ("-", "bad-op"):
            pg.setdefault(n, set()).update(v.split(","))
    # a ZeroDivisionError raised for one object leaves every object of the statement unsynchronised:
    # one batch asks the model which statements contain a div-zero guard failure on any row
    zreq, zidx = [], []
    for n, (case, k, why, err) in enumerate(pending):
        if err == "zerodiv":
            for k2 in range(len(case["rows"])):
                for q in viol_requests(case, k2):
                    zreq.append(q)
                    zidx.append(n)
    zhit = set()
    for n, v in zip(zidx, ctx.driver(zreq)):
        if "div-zero" in v.split(","):
            zhit.add(n)
    for n, (case, k, why, err) in enumerate(pending):
        key = None
        if err == "zerodiv":
            why += " (ZeroDivisionError escaped from the evaluator after the statement was executed)"
            if n in zhit:
                key = "evaluator-div-zero"  # nothing was synchronised: the exception is the cause
        if key is None:
            key = static_key(case, k)
        if key is None and n in pg:
            key = "evaluator-" + sorted(pg[n])[0]
        ctx.violation(key or "c43-oracle:%s/%s" % (case["kind"], case["mode"]), dict(jsonable(case), obj=k), why)
        if key:
            ctx.count("known-shape=" + key)
    ctx.exhaustive = False


def jsonable_bulk(sc):
    return {"rows": [[pk, list(v)] for pk, v in sc["rows"]], "loaded": list(sc["loaded"]), "expire": sc["expire"],
            "params": [[pk, [list(cv) for cv in cols]] for pk, cols in sc["params"]], "mode": sc["mode"], "form": sc["form"]}


def id_of(c):
    return (str(c["tree"]), str(c["rows"]), c["mode"], c["kind"], str(c.get("sets")))


def _has_weird(e):
    if e[0] in ("i//", "ineg"):
        return True
    return any(_has_weird(x) for x in e[1:] if isinstance(x, tuple))


def search(ctx, broken):
    sub = type(ctx)(ctx.pid, "thorough", ctx.seed + 1, ctx.level)
    run(sub, deep=True)
    ctx.violations.extend(sub.violations)


def replay(ctx, obj):
    c = obj["case"]
    if "bulkpk" in c:
        b = c["bulkpk"]
        sc = {"rows": [(r[0], r[1]) for r in b["rows"]], "loaded": b["loaded"], "expire": b["expire"],
              "params": [(p[0], [tuple(cv) for cv in p[1]]) for p in b["params"]], "mode": b["mode"], "form": b["form"]}
        line, why = run_bulk_pk(World(), sc)
        print("replay C43 bulk %s by pk params=%s loaded=%s mode=%s -> %s ; oracle: %s" % (sc["form"], sc["params"], sc["loaded"], sc["mode"], line, why))
        return why is not None
    case = case_from_json(c)
    w = World(composite=bool(case.get("composite")))
    res = w.run_dml(case["kind"], case["mode"], case["tree"], case["sets"], case["rows"], case["expire"], case.get("lc"))
    k = c.get("obj", 0)
    why = oracle(case["kind"], res, k)
    print("replay C43 %s %s where=%s sets=%s row=%s expired=%s -> session=%s db=%s error=%s ; oracle: %s" % (
        case["kind"], case["mode"], "%s loader_criteria=%s" % (None if case["tree"] is None else str(saB(w.A, case["tree"])), case.get("lc")), case["sets"], case["rows"][k], case["expire"][k],
        res["per"][k]["loaded"] if res["per"][k]["in_session"] else "removed", res["per"][k]["db"], res["error"], why))
    return why is not None
