"""C09 — Column types round-trip values and apply processing exactly once.

Model:    lean/SaVerif/Model/Types.lean (SQLite DATETIME/DATE/TIME storage formats as templates,
          fromisoformat for those layouts, the regexp variant, Enum lookup tables, Boolean,
          one-processor-per-result-column nesting model)
Gen:      lean/SaVerif/Gen/SqliteFormats.lean — the `_storage_format` strings of
          dialects/sqlite/base.py, re-read from the working tree on every run
Theorems: lean/SaVerif/Props/C09.lean
Check:    (1) direct oracle: insert/select round trips on SQLite for every generic type with a
              Python domain, boundary + random values; TypeDecorator with non-idempotent
              bind/result processing under random nesting (labels, subqueries, CTEs, unions,
              scalar subqueries, functions, RETURNING, ORM load, WHERE/IN binds)
          (2) correspondence: real bind/result processors vs the Lean model on boundary, random
              and malformed strings; custom storage_format/regexp; Enum lookups with aliases.
"""
import datetime as dt
import decimal
import enum
import json
import re
import uuid
import warnings

PID = "C09"
LEVEL = "proof"
LEAN = ["SaVerif.Props.C09"]
META = {
    "text": "Lean theorems: for EVERY valid datetime (years 1-9999, all microseconds), date and time the string produced by the SQLite bind processor's storage format parses back to the same value (datetime_roundtrip, date_roundtrip, time_roundtrip; truncate_microseconds variant up to the microseconds), the formats being regenerated from dialects/sqlite/base.py on every run and tied to the proved ISO layouts by decide; for ANY custom storage_format whose fields are separated by non-digit literals the (\\d+)-group regexp recovers every field (custom_format_roundtrip); Enum lookup tables round-trip every member of any enum class incl. aliases (enum_roundtrip); Boolean; Interval reduces to the DATETIME round trip; exactly one result processor per column in every nesting context of the model (processor_applied_once). Everything else in the property (Integer family, Numeric/Float, strings, binary, JSON, Uuid, PickleType, TypeDecorator once-ness through real compilation and execution) is checked by the direct oracle on SQLite.",
    "note": "Trusted: Lean kernel; Python's datetime.fromisoformat / %-formatting (modelled for the layouts SQLAlchemy produces and differential-tested each run), Python datetime arithmetic (Interval), SQLite storage. Not proved (differential only, SQLite only): Numeric/Float precision, String/Unicode/LargeBinary, JSON, Uuid, PickleType, the compiler's type propagation behind processor_applied_once (the nesting model is thin; the executed TypeDecorator oracle carries that half). Out of reach offline: PostgreSQL/MySQL driver conversions, ARRAY, timezone-aware DateTime, native enums.",
    "technique": "Lean 4 proofs over regenerated format templates + differential correspondence with the real processors + executed round-trip oracle on SQLite",
    "design_ref": "DESIGN.md §3 C09",
}

FIELD_CODES = {"year": "y", "month": "m", "day": "d", "hour": "H", "minute": "M", "second": "S", "microsecond": "u"}
LEAN_FIELD = {"year": ".year", "month": ".month", "day": ".day", "hour": ".hour", "minute": ".minute",
              "second": ".second", "microsecond": ".micro"}
TOK_RE = re.compile(r"%\((year|month|day|hour|minute|second|microsecond)\)0(\d+)d")


def parse_format(fmt):
    """storage_format string -> [('f', field, width) | ('l', char)], or None if it uses
    anything but %(field)0Nd conversions and literal characters"""
    out, i = [], 0
    while i < len(fmt):
        m = TOK_RE.match(fmt, i)
        if m:
            out.append(("f", m.group(1), int(m.group(2))))
            i = m.end()
        elif fmt[i] == "%":
            if fmt[i:i + 2] == "%%":
                out.append(("l", "%"))
                i += 2
            else:
                return None
        else:
            out.append(("l", fmt[i]))
            i += 1
    return out


def lean_tmpl(toks):
    if toks is None:
        return "[]  -- format not expressible as zero-padded fields + literals"
    parts = []
    for t in toks:
        if t[0] == "f":
            parts.append(".field %s %d" % (LEAN_FIELD[t[1]], t[2]))
        else:
            parts.append(".lit (Char.ofNat %d)" % ord(t[1]))
    return "[" + ", ".join(parts) + "]"


def drv_tmpl(toks):
    return ",".join(("f%s%d" % (FIELD_CODES[t[1]], t[2])) if t[0] == "f" else "l%d" % ord(t[1]) for t in toks) or "-"


def source_formats():
    from sqlalchemy.dialects.sqlite import base as sb

    return {
        "datetimeFormat": sb.DATETIME()._storage_format,
        "datetimeTruncFormat": sb.DATETIME(truncate_microseconds=True)._storage_format,
        "dateFormat": sb.DATE()._storage_format,
        "timeFormat": sb.TIME()._storage_format,
        "timeTruncFormat": sb.TIME(truncate_microseconds=True)._storage_format,
    }


def gen(ctx):
    fm = source_formats()
    lines = ["import SaVerif.Model.Types", "namespace SaVerif.Gen.SqliteFormats", "open SaVerif.Types", ""]
    for name, fmt in fm.items():
        lines.append("/-- %s = %r -/" % (name, fmt))
        lines.append("def %s : List Tok := %s" % (name, lean_tmpl(parse_format(fmt))))
        lines.append("")
    lines.append("end SaVerif.Gen.SqliteFormats")
    ctx.write_gen("SqliteFormats", "\n".join(lines) + "\n")


# ------------------------------------------------------------------ helpers
def enc(s):
    return "s:" + ".".join(str(ord(c)) for c in s)


def dec(tok):
    body = tok[2:]
    return "" if not body else "".join(chr(int(x)) for x in body.split("."))


def fields_of(v):
    if isinstance(v, dt.datetime):
        return (v.year, v.month, v.day, v.hour, v.minute, v.second, v.microsecond)
    if isinstance(v, dt.date):
        return (v.year, v.month, v.day, 0, 0, 0, 0)
    return (0, 0, 0, v.hour, v.minute, v.second, v.microsecond)


def rand_datetime(rng):
    r = rng.random()
    if r < 0.15:
        return rng.choice([dt.datetime.min, dt.datetime.max, dt.datetime(1970, 1, 1),
                           dt.datetime(9999, 12, 31, 23, 59, 59, 999999), dt.datetime(1, 1, 1, 0, 0, 0, 1),
                           dt.datetime(2000, 2, 29, 12, 0, 0, 500000), dt.datetime(999, 9, 9, 9, 9, 9, 9)])
    y = rng.choice([rng.randint(1, 9999), rng.randint(1, 120), rng.randint(1900, 2100)])
    m = rng.randint(1, 12)
    d = rng.randint(1, 28)
    us = rng.choice([0, 1, 999999, rng.randrange(1000000), rng.randrange(1000) * 1000])
    return dt.datetime(y, m, d, rng.randrange(24), rng.randrange(60), rng.randrange(60), us)


# ------------------------------------------------------------------ (A) processors vs model
def corr_formats(ctx):
    from sqlalchemy.dialects.sqlite import base as sb
    from sqlalchemy.dialects import sqlite

    dialect = sqlite.dialect()
    types = {
        "datetime": (sb.DATETIME(), "datetime", lambda v: v),
        "datetimetrunc": (sb.DATETIME(truncate_microseconds=True), "datetime", lambda v: v.replace(microsecond=0)),
        "date": (sb.DATE(), "date", lambda v: v.date()),
        "time": (sb.TIME(), "time", lambda v: v.time()),
        "timetrunc": (sb.TIME(truncate_microseconds=True), "time", lambda v: v.time().replace(microsecond=0)),
    }
    n = 400 if ctx.tier == "quick" else 6000
    cases, impl, reqs = [], [], []
    for _ in range(n):
        v = rand_datetime(ctx.rng)
        for which, (typ, kind, expect) in types.items():
            bp = typ.bind_processor(dialect)
            rp = typ.result_processor(dialect, None)
            arg = v if kind == "datetime" else (v.date() if kind == "date" else v.time())
            s = bp(arg)
            try:
                back = rp(s)
            except Exception as e:  # noqa: BLE001
                ctx.violation("c09-oracle:%s-roundtrip" % which, {"what": "processor", "type": which, "value": list(fields_of(arg))},
                              "bind %r -> %r -> result processor raised %s: %s" % (arg, s, type(e).__name__, e))
                continue
            ctx.case("fmt:%s:%s" % (which, s))
            ctx.count("format=" + which)
            # direct oracle: the processors round-trip
            exp = expect(v) if kind == "datetime" else (arg if "trunc" not in which else expect(v))
            if back != exp:
                ctx.violation("c09-oracle:%s-roundtrip" % which, {"what": "processor", "type": which, "value": list(fields_of(arg))},
                              "bind %r -> %r -> result %r, expected %r" % (arg, s, back, exp))
            cases.append({"what": "fmt", "type": which, "value": list(fields_of(arg))})
            impl.append(enc(s))
            reqs.append("types fmt %s %s" % (which, ",".join(str(x) for x in fields_of(arg))))
            cases.append({"what": "parse", "kind": kind, "string": s})
            impl.append("ok " + ",".join(str(x) for x in fields_of(back)))
            reqs.append("types parse %s %s" % (kind, enc(s)))
    # malformed / boundary strings inside the modelled layouts
    rps = {k: types[k][0].result_processor(dialect, None) for k in ("datetime", "date", "time")}
    m = 300 if ctx.tier == "quick" else 4000
    for _ in range(m):
        kind = ctx.rng.choice(["datetime", "date", "time"])
        v = rand_datetime(ctx.rng)
        y, mo, d, h, mi, se, us = fields_of(v)
        r = ctx.rng.random()
        if r < 0.35:
            # one field out of range
            f = ctx.rng.choice(["mo", "d", "h", "mi", "se", "y"])
            if f == "mo":
                mo = ctx.rng.choice([0, 13, 99])
            elif f == "d":
                d = ctx.rng.choice([0, 32, 99])
            elif f == "h":
                h = ctx.rng.choice([24, 25, 99])
            elif f == "mi":
                mi = ctx.rng.choice([60, 99])
            elif f == "se":
                se = ctx.rng.choice([60, 61, 99])
            else:
                y = 0
        date_s = "%04d-%02d-%02d" % (y, mo, d)
        frac = ctx.rng.choice([".%06d" % us, "", ".%03d" % (us // 1000)])
        time_s = "%02d:%02d:%02d%s" % (h, mi, se, frac)
        if kind == "date":
            s = date_s
        elif kind == "time":
            s = time_s
        else:
            s = date_s + ctx.rng.choice([" ", " ", "T"]) + time_s if ctx.rng.random() < 0.9 else date_s
        if 0.35 <= r < 0.6:
            # break the layout: replace a separator / drop a char / append junk
            i = ctx.rng.randrange(len(s))
            how = ctx.rng.random()
            if how < 0.4 and not s[i].isdigit():
                s = s[:i] + ctx.rng.choice("/;x") + s[i + 1:]
            elif how < 0.7:
                s = s[:i] + s[i + 1:]
            else:
                s = s + ctx.rng.choice(["x", " ", "0"])
        try:
            back = rps[kind](s)
            out = "ok " + ",".join(str(x) for x in fields_of(back))
        except (ValueError, TypeError):
            out = "err"
        if out != "err" and not _in_layout(kind, s):
            # fromisoformat accepts more ISO-8601 shapes than the layouts SQLAlchemy writes;
            # those are outside the model
            ctx.count("parse-skipped=other-iso-shape")
            continue
        if out == "err" and _calendar_only(kind, s):
            ctx.count("parse-skipped=calendar-day")
            continue
        ctx.count("parse=" + out.split(" ")[0])
        cases.append({"what": "parse", "kind": kind, "string": s})
        impl.append(out)
        reqs.append("types parse %s %s" % (kind, enc(s)))
    if ctx.driver_ok():
        ctx.correspond("corr/c09:sqlite-datetime-processors-vs-Model.Types", cases, impl, ctx.driver(reqs))


LAYOUT = {
    "date": re.compile(r"^\d{4}-\d{2}-\d{2}$"),
    "time": re.compile(r"^\d{2}:\d{2}:\d{2}(\.\d{6}|\.\d{3})?$"),
    "datetime": re.compile(r"^\d{4}-\d{2}-\d{2}([ T]\d{2}:\d{2}:\d{2}(\.\d{6}|\.\d{3})?)?$"),
}


def _in_layout(kind, s):
    return bool(LAYOUT[kind].match(s))


def _calendar_only(kind, s):
    """in layout, every field in its static range, rejected only for the day-of-month rule"""
    if kind == "time" or not _in_layout(kind, s):
        return False
    y, mo, d = int(s[0:4]), int(s[5:7]), int(s[8:10])
    if not (1 <= y <= 9999 and 1 <= mo <= 12 and 1 <= d <= 31):
        return False
    try:
        dt.date(y, mo, d)
        return False
    except ValueError:
        return True


# ------------------------------------------------------------------ (E) custom formats
def corr_custom(ctx):
    from sqlalchemy.dialects.sqlite import base as sb
    from sqlalchemy.dialects import sqlite

    dialect = sqlite.dialect()
    n = 150 if ctx.tier == "quick" else 2500
    cases, impl, reqs = [], [], []
    seps = ["/", "-", ":", " ", ".", "T", "x", "|", "--"]
    for _ in range(n):
        order = ["year", "month", "day", "hour", "minute", "second", "microsecond"]
        if ctx.rng.random() < 0.5:
            ctx.rng.shuffle(order)
        widths = {"year": 4, "month": 2, "day": 2, "hour": 2, "minute": 2, "second": 2, "microsecond": 6}
        fmt, rx = "", ""
        toks = []
        for i, f in enumerate(order):
            w = widths[f] if ctx.rng.random() < 0.8 else ctx.rng.choice([1, widths[f], widths[f] + 2])
            fmt += "%%(%s)0%dd" % (f, w)
            rx += r"(?P<%s>\d+)" % f
            toks.append(("f", f, w))
            if i < len(order) - 1:
                sep = ctx.rng.choice(seps)
                fmt += sep
                rx += re.escape(sep)
                toks.extend(("l", c) for c in sep)
        typ = sb.DATETIME(storage_format=fmt, regexp=rx)
        bp, rp = typ.bind_processor(dialect), typ.result_processor(dialect, None)
        v = rand_datetime(ctx.rng)
        s = bp(v)
        try:
            back = rp(s)
        except Exception as e:  # noqa: BLE001
            back = "exc:%s" % type(e).__name__
        ctx.case("custom:%s:%s" % (fmt, s))
        ctx.count("custom-format")
        if back != v:
            ctx.violation("c09-oracle:custom-format-roundtrip", {"what": "custom", "format": fmt, "regexp": rx, "value": list(fields_of(v))},
                          "storage_format %r: %r -> %r -> %r" % (fmt, v, s, back))
        cases.append({"what": "cfmt", "format": fmt, "value": list(fields_of(v))})
        impl.append(enc(s))
        reqs.append("types cfmt %s %s" % (drv_tmpl(toks), ",".join(str(x) for x in fields_of(v))))
        if not isinstance(back, str):
            cases.append({"what": "cparse", "format": fmt, "string": s})
            impl.append("ok " + ",".join(str(x) for x in fields_of(back)))
            reqs.append("types cparse %s %s" % (drv_tmpl(toks), enc(s)))
    if ctx.driver_ok():
        ctx.correspond("corr/c09:custom-storage-format-vs-Model.Types", cases, impl, ctx.driver(reqs))


# ------------------------------------------------------------------ (D) Enum lookups
def corr_enum(ctx):
    import sqlalchemy as sa

    n = 150 if ctx.tier == "quick" else 2000
    cases, impl, reqs = [], [], []
    for k in range(n):
        nmem = ctx.rng.randint(1, 6)
        names = ["m%d" % i for i in range(nmem)]
        vals = []
        for i in range(nmem):
            # aliases: reuse an earlier value
            vals.append(ctx.rng.choice(vals) if vals and ctx.rng.random() < 0.3 else 100 + i)
        cls = enum.Enum("E%d" % k, list(zip(names, vals)))
        omit = ctx.rng.random() < 0.5
        typ = sa.Enum(cls, native_enum=False, omit_aliases=omit)
        allm = list(cls.__members__.items())
        # Enum._parse_into_values: aliases are dropped unless omit_aliases=False
        members = [(nm, o) for nm, o in allm if (not omit or o.name == nm)]
        objs = []
        for _, o in members:
            if o not in objs:
                objs.append(o)
        mtok = ",".join("%d>%d" % (names.index(nm), objs.index(o)) for nm, o in members)
        for nm, o in members:
            stored = typ._db_value_for_elem(o)
            back = typ._object_value_for_elem(stored)
            ctx.case("enum:%s:%s" % (mtok, nm))
            ctx.count("enum-members=%d" % nmem)
            if back is not o:
                ctx.violation("c09-oracle:enum-roundtrip", {"what": "enum", "members": list(zip(names, vals)), "member": nm},
                              "%r stored as %r read back as %r" % (o, stored, back))
            # which of several alias names is stored is not observable through the type: compare
            # the composition result(bind(obj))
            cases.append({"what": "enum-roundtrip", "members": list(zip(names, vals)), "member": nm})
            impl.append("ok %d" % objs.index(back) if back in objs else "none")
            reqs.append("types enum %s rt %d" % (mtok, objs.index(o)))
        for nm, _o in allm:
            try:
                impl_r = "ok %d" % objs.index(typ._object_value_for_elem(nm))
            except LookupError:
                impl_r = "none"
            cases.append({"what": "enum-result", "members": list(zip(names, vals)), "omit_aliases": omit, "name": nm})
            impl.append(impl_r)
            reqs.append("types enum %s result %d" % (mtok, names.index(nm)))
    for b, tok in ((None, "N"), (True, "1"), (False, "0")):
        cases.append({"what": "bool", "value": b})
        impl.append(tok)
        reqs.append("types bool " + tok)
    if ctx.driver_ok():
        ctx.correspond("corr/c09:enum-boolean-lookups-vs-Model.Types", cases, impl, ctx.driver(reqs))


# ------------------------------------------------------------------ (B) executed round trips
class Color(enum.Enum):
    red = 1
    green = 2
    crimson = 1  # alias of red
    blue = 3


def value_pool(rng, tier):
    """type name -> (type factory, values, comparison)"""
    import sqlalchemy as sa

    D = decimal.Decimal
    eq = lambda a, b: a == b and type(a) is type(b)  # noqa: E731

    def rs(n, alphabet):
        return "".join(rng.choice(alphabet) for _ in range(n))

    uni = "aZ0 _-'\"\\%\u00e9\u00df\u4e2d\u6587\U0001F600\n\t;"
    k = 6 if tier == "quick" else 40
    pools = {
        "Integer": (sa.Integer, [0, 1, -1, 2**31 - 1, -2**31, 2**63 - 1, -2**63] + [rng.randint(-2**63, 2**63 - 1) for _ in range(k)], eq),
        "BigInteger": (sa.BigInteger, [2**63 - 1, -2**63, 2**53 + 1] + [rng.randint(-2**63, 2**63 - 1) for _ in range(k)], eq),
        "SmallInteger": (sa.SmallInteger, [0, 32767, -32768], eq),
        "Numeric(12,4)": (lambda: sa.Numeric(12, 4), [D("0"), D("0.0001"), D("-0.0001"), D("99999999.9999"), D("-99999999.9999"), D("1.5"), D("123.4500")]
                          + [D(rng.randint(-10**11, 10**11)) / D(10**4) for _ in range(k)],
                          lambda a, b: isinstance(b, D) and a == b and b.as_tuple().exponent == -4),
        "Numeric(10,2)": (lambda: sa.Numeric(10, 2), [D("0.01"), D("-12345678.99"), D("7")] + [D(rng.randint(-10**9, 10**9)) / D(100) for _ in range(k)],
                          lambda a, b: isinstance(b, D) and a == b and b.as_tuple().exponent == -2),
        "Float": (sa.Float, [0.0, -0.0, 1.5, 1e-300, 1.7976931348623157e308, 5e-324, 0.1, 1 / 3] + [rng.uniform(-1e6, 1e6) for _ in range(k)],
                  lambda a, b: isinstance(b, float) and a == b),
        "String(50)": (lambda: sa.String(50), ["", " ", "a", "O'Reilly", '"q"', "100%", "back\\slash", "\u00e9\u00df\u4e2d\u6587", "\U0001F600", "line\nbreak", ";--"]
                       + [rs(rng.randint(0, 20), uni) for _ in range(k)], eq),
        "Text": (sa.Text, ["", "x" * 5000, "\u4e2d" * 100] + [rs(rng.randint(0, 60), uni) for _ in range(k)], eq),
        "Unicode(30)": (lambda: sa.Unicode(30), ["", "\u00fc\u00f1\u00ee", "\U0001F600\U0001F601"] + [rs(rng.randint(0, 15), uni) for _ in range(k)], eq),
        "Boolean": (sa.Boolean, [True, False], eq),
        "Date": (sa.Date, [dt.date.min, dt.date.max, dt.date(1970, 1, 1), dt.date(2000, 2, 29)] + [rand_datetime(rng).date() for _ in range(k)], eq),
        "DateTime": (sa.DateTime, [dt.datetime.min, dt.datetime.max, dt.datetime(1, 1, 1, 0, 0, 0, 1), dt.datetime(9999, 12, 31, 23, 59, 59, 999999)]
                     + [rand_datetime(rng) for _ in range(k)], eq),
        "Time": (sa.Time, [dt.time.min, dt.time.max, dt.time(12, 0, 0, 1)] + [rand_datetime(rng).time() for _ in range(k)], eq),
        "Interval": (sa.Interval, [dt.timedelta(0), dt.timedelta(microseconds=1), dt.timedelta(microseconds=-1), dt.timedelta(days=-1),
                                   dt.timedelta(days=365 * 1000), dt.timedelta(days=-365 * 1000, microseconds=7), dt.timedelta(seconds=-0.5),
                                   dt.timedelta(days=2932896, hours=23, minutes=59, seconds=59, microseconds=999999),
                                   dt.timedelta(days=-719162)]
                     + [dt.timedelta(days=rng.randint(-700000, 2900000), seconds=rng.randrange(86400), microseconds=rng.randrange(10**6)) for _ in range(k)], eq),
        "LargeBinary": (sa.LargeBinary, [b"", b"\x00", b"\x00\xff\x00", bytes(range(256))] + [bytes(rng.randrange(256) for _ in range(rng.randint(0, 40))) for _ in range(k)], eq),
        "Enum(py,non-native)": (lambda: sa.Enum(Color, native_enum=False), [Color.red, Color.green, Color.crimson, Color.blue], lambda a, b: a is b),
        "Enum(str)": (lambda: sa.Enum("a", "b", "with space", "\u00fc", native_enum=False), ["a", "b", "with space", "\u00fc"], eq),
        "JSON": (sa.JSON, [{}, [], {"a": None}, [None], {"k": [1, 2.5, "s", True, None, {"n": {"m": []}}]}, "str", 1, 1.5, True, {"\u00fc": "\U0001F600"}, [[[[]]]]]
                 + [_rand_json(rng, 3) for _ in range(k)], lambda a, b: a == b and json.dumps(a, sort_keys=True) == json.dumps(b, sort_keys=True)),
        "Uuid": (sa.Uuid, [uuid.UUID(int=0), uuid.UUID(int=2**128 - 1), uuid.UUID("12345678-1234-5678-1234-567812345678")]
                 + [uuid.UUID(int=rng.getrandbits(128)) for _ in range(k)], eq),
        "Uuid(as_uuid=False)": (lambda: sa.Uuid(as_uuid=False), [str(uuid.UUID(int=rng.getrandbits(128))) for _ in range(3)], eq),
        "PickleType": (sa.PickleType, [None, 0, {"a": (1, 2)}, [1, [2, [3]]], {1, 2}, b"\x00", dt.date(2020, 1, 1), D("1.10"), "\u00fc"], eq),
    }
    return pools


def _rand_json(rng, depth):
    r = rng.random()
    if depth == 0 or r < 0.35:
        return rng.choice([None, True, False, 0, -1, 2**40, 1.25, "", "s", "\u00e9"])
    if r < 0.7:
        return [_rand_json(rng, depth - 1) for _ in range(rng.randint(0, 3))]
    return {rng.choice(["a", "b", "", "\u00fc", "k k"]): _rand_json(rng, depth - 1) for _ in range(rng.randint(0, 3))}


def exec_roundtrips(ctx):
    import sqlalchemy as sa

    eng = sa.create_engine("sqlite://")
    pools = value_pool(ctx.rng, ctx.tier)
    md = sa.MetaData()
    cols = [sa.Column("id", sa.Integer, primary_key=True)]
    names = {}
    for i, (tname, (factory, _vals, _cmp)) in enumerate(pools.items()):
        names[tname] = "c%d" % i
        cols.append(sa.Column("c%d" % i, factory()))
    t = sa.Table("rt", md, *cols)
    with eng.connect() as conn:
        md.create_all(conn)
        rid = 0
        for tname, (factory, vals, cmp_) in pools.items():
            col = t.c[names[tname]]
            ids = []
            # executemany and single execute both
            for v in vals:
                rid += 1
                ids.append(rid)
            try:
                conn.execute(t.insert(), [{"id": i, names[tname]: v} for i, v in zip(ids, vals)])
                rows = conn.execute(sa.select(t.c.id, col).where(t.c.id.in_(ids)).order_by(t.c.id)).all()
            except Exception as e:  # noqa: BLE001
                ctx.violation("c09-oracle:roundtrip:" + tname.split("(")[0], {"what": "roundtrip", "type": tname, "value": "*"},
                              "%s: insert/select raised %s: %s" % (tname, type(e).__name__, str(e)[:200]))
                conn.rollback()
                continue
            for (i, back), v in zip(rows, vals):
                ctx.case("rt:%s:%r" % (tname, v))
                ctx.count("type=" + tname)
                ok = False
                try:
                    ok = bool(cmp_(v, back))
                except Exception:  # noqa: BLE001
                    ok = False
                if not ok:
                    ctx.violation("c09-oracle:roundtrip:" + tname.split("(")[0], {"what": "roundtrip", "type": tname, "value": repr(v)},
                                  "%s: inserted %r, selected %r" % (tname, v, back))
            # NULL stays NULL
            rid += 1
            conn.execute(t.insert(), {"id": rid})
            if tname != "JSON" and conn.execute(sa.select(col).where(t.c.id == rid)).scalar() is not None:
                ctx.violation("c09-oracle:null:" + tname, {"what": "null", "type": tname}, "NULL not returned as None")
    eng.dispose()


# ------------------------------------------------------------------ (C) TypeDecorator exactly once
def typedecorator_once(ctx):
    import sqlalchemy as sa
    from sqlalchemy.orm import Session, declarative_base

    calls = {"bind": 0, "result": 0}

    class Tag(sa.TypeDecorator):
        impl = sa.String
        cache_ok = True

        def process_bind_param(self, value, dialect):
            calls["bind"] += 1
            return None if value is None else "B(" + value + ")"

        def process_result_value(self, value, dialect):
            calls["result"] += 1
            return None if value is None else "R(" + value + ")"

    eng = sa.create_engine("sqlite://")
    md = sa.MetaData()
    tt = sa.Table("tt", md, sa.Column("id", sa.Integer, primary_key=True), sa.Column("v", Tag()), sa.Column("n", sa.Integer))
    Base = declarative_base(metadata=md)

    class Obj(Base):
        __table__ = tt

    rng = ctx.rng
    n = 120 if ctx.tier == "quick" else 1500
    with eng.connect() as conn:
        md.create_all(conn)
        conn.execute(tt.insert(), [{"id": 1, "v": "x", "n": 5}])
        raw = conn.exec_driver_sql("select v from tt where id=1").scalar()
        if raw != "B(x)":
            ctx.violation("c09-oracle:typedecorator-bind-once:insert", {"what": "tdec", "ctx": ["insert"]}, "stored %r, expected 'B(x)'" % raw)
        conn.execute(tt.insert(), [{"id": 2, "v": "y", "n": 6}, {"id": 3, "v": "z", "n": 7}])
        raw = conn.exec_driver_sql("select group_concat(v) from (select v from tt where id in (2,3) order by id)").scalar()
        if raw != "B(y),B(z)":
            ctx.violation("c09-oracle:typedecorator-bind-once:executemany", {"what": "tdec", "ctx": ["executemany"]}, "stored %r" % raw)

        def wrap(sel_col_stmt, depth, path):
            """sel_col_stmt: a select() with one column of type Tag; wrap it"""
            if depth == 0:
                return sel_col_stmt, path
            k = rng.choice(["label", "subq", "cte", "union", "scalar", "alias2", "func", "distinct", "orderlimit"])
            col = list(sel_col_stmt.selected_columns)[0]
            if k == "label":
                st = sel_col_stmt.with_only_columns(col.label("q%d" % depth))
            elif k == "subq":
                sq = sel_col_stmt.subquery("s%d" % depth)
                st = sa.select(list(sq.c)[0])
            elif k == "cte":
                ct = sel_col_stmt.cte("c%d" % depth)
                st = sa.select(list(ct.c)[0])
            elif k == "union":
                un = sa.union_all(sel_col_stmt, sel_col_stmt.where(sa.false())).subquery("u%d" % depth)
                st = sa.select(list(un.c)[0])
            elif k == "scalar":
                st = sa.select(sel_col_stmt.limit(1).scalar_subquery().label("sc%d" % depth))
            elif k == "alias2":
                sq = sel_col_stmt.subquery("a%d" % depth).alias("aa%d" % depth)
                st = sa.select(list(sq.c)[0].label("z%d" % depth))
            elif k == "func":
                sq = sel_col_stmt.subquery("f%d" % depth)
                st = sa.select(sa.func.max(list(sq.c)[0]))
            elif k == "distinct":
                st = sel_col_stmt.distinct()
            else:
                st = sel_col_stmt.order_by(col).limit(5)
            return wrap(st, depth - 1, path + [k])

        import datetime as _dt

        def bases():
            """(name, one-column select, expected value): the decorated column itself, and labels
            built with the public constructor label(name, element, type_=T) whose type differs
            from the element's type — the label's own type must travel through every nesting"""
            return [
                ("column", sa.select(tt.c.v).where(tt.c.id == 1), "R(B(x))"),
                ("label-type-over-coerced", sa.select(sa.label("lb", sa.type_coerce(tt.c.v, sa.String), type_=Tag())).where(tt.c.id == 1), "R(B(x))"),
                ("label-type-over-literal_column", sa.select(sa.label("lc", sa.literal_column("v"), type_=Tag())).select_from(tt).where(tt.c.id == 1), "R(B(x))"),
                ("label-type-over-expression", sa.select(sa.label("le", sa.type_coerce(tt.c.v, sa.String) + "", type_=Tag())).where(tt.c.id == 1), "R(B(x))"),
                ("literal_column-typed-label", sa.select(sa.literal_column("v", type_=Tag()).label("ll")).select_from(tt).where(tt.c.id == 1), "R(B(x))"),
                ("date-label-over-string", sa.select(sa.label("d", sa.literal_column("'2020-01-02'"), type_=sa.Date())), _dt.date(2020, 1, 2)),
                ("datetime-label-over-string", sa.select(sa.label("dtm", sa.literal_column("'2020-01-02 03:04:05.000006'"), type_=sa.DateTime())),
                 _dt.datetime(2020, 1, 2, 3, 4, 5, 6)),
                ("boolean-label-over-int", sa.select(sa.label("bl", sa.literal_column("1"), type_=sa.Boolean())), True),
            ]

        for it in range(n):
            bname, base, expected = rng.choice(bases()) if it % 2 else bases()[0]
            stmt, path = wrap(base, rng.randint(0, 4), [])
            if bname != "column":
                path = [bname] + path
            if bname.startswith(("date", "boolean")) and "func" in path:
                # max() of a non-decorated type keeps the type but this oracle counts Tag calls only
                pass
            calls["result"] = 0
            with warnings.catch_warnings():
                warnings.simplefilter("ignore")
                try:
                    allrows = conn.execute(stmt).scalars().all()
                except Exception as e:  # noqa: BLE001
                    ctx.count("tdec-rejected=" + type(e).__name__)
                    continue
            ctx.case("tdec:" + ">".join(path))
            ctx.count("tdec-depth=%d" % len(path))
            # (an aggregate over the empty UNION branch contributes a NULL row)
            got = [r for r in allrows if r is not None]
            want_calls = len(allrows) if expected == "R(B(x))" else 0
            if got != [expected] or type(got[0]) is not type(expected) or calls["result"] != want_calls:
                ctx.violation("c09-oracle:typedecorator-result-once" if expected == "R(B(x))" else "c09-oracle:label-type-lost-in-nesting",
                              {"what": "tdec", "ctx": path},
                              "nesting %s returned %r with %d process_result_value calls for %d rows (expected [%r], %d calls)"
                              % (path, allrows, calls["result"], len(allrows), expected, want_calls))
        # bind side: WHERE, IN, UPDATE, RETURNING, ORM
        checks = [
            ("where", lambda: conn.execute(sa.select(tt.c.id).where(tt.c.v == "x")).scalars().all(), [1]),
            ("where-reversed", lambda: conn.execute(sa.select(tt.c.id).where(sa.literal("x", Tag()) == tt.c.v)).scalars().all(), [1]),
            ("in", lambda: conn.execute(sa.select(tt.c.id).where(tt.c.v.in_(["y", "z", "nope"])).order_by(tt.c.id)).scalars().all(), [2, 3]),
            ("between", lambda: conn.execute(sa.select(tt.c.id).where(tt.c.v.between("y", "y"))).scalars().all(), [2]),
            ("type_coerce-raw", lambda: conn.execute(sa.select(sa.type_coerce(tt.c.v, sa.String)).where(tt.c.id == 1)).scalar(), "B(x)"),
            ("returning", lambda: conn.execute(tt.insert().values(id=10, v="w").returning(tt.c.v)).scalar(), "R(B(w))"),
            ("update-returning", lambda: conn.execute(tt.update().where(tt.c.id == 10).values(v="w2").returning(tt.c.v, tt.c.id)).first()[0], "R(B(w2))"),
            ("stored-after-update", lambda: conn.exec_driver_sql("select v from tt where id=10").scalar(), "B(w2)"),
            ("executemany-returning", lambda: sorted(conn.execute(tt.insert().returning(tt.c.v), [{"id": 11, "v": "p"}, {"id": 12, "v": "q"}]).scalars().all()), ["R(B(p))", "R(B(q))"]),
            ("case-expr", lambda: conn.execute(sa.select(sa.case((tt.c.id == 1, tt.c.v), else_=tt.c.v)).where(tt.c.id == 1)).scalar(), "R(B(x))"),
            ("coalesce", lambda: conn.execute(sa.select(sa.func.coalesce(tt.c.v, tt.c.v)).where(tt.c.id == 1)).scalar(), "R(B(x))"),
            ("mappings", lambda: conn.execute(sa.select(tt.c.v.label("k")).where(tt.c.id == 1)).mappings().first()["k"], "R(B(x))"),
        ]
        for name, fn, exp in checks:
            try:
                got = fn()
            except Exception as e:  # noqa: BLE001
                got = "exc:%s:%s" % (type(e).__name__, str(e)[:80])
            ctx.case("tdec-bind:" + name)
            ctx.count("tdec-context=" + name)
            if got != exp:
                ctx.violation("c09-oracle:typedecorator-once:" + name, {"what": "tdec", "ctx": [name]}, "%s: got %r, expected %r" % (name, got, exp))
        conn.commit()
    with Session(eng) as s:
        o = s.get(Obj, 1)
        ctx.case("tdec:orm-load")
        if o.v != "R(B(x))":
            ctx.violation("c09-oracle:typedecorator-once:orm-load", {"what": "tdec", "ctx": ["orm-load"]}, "ORM attribute %r" % o.v)
        o2 = Obj(id=20, v="orm")
        s.add(o2)
        s.flush()
        raw = s.connection().exec_driver_sql("select v from tt where id=20").scalar()
        s.expire(o2)
        if raw != "B(orm)" or o2.v != "R(B(orm))":
            ctx.violation("c09-oracle:typedecorator-once:orm-flush", {"what": "tdec", "ctx": ["orm-flush"]}, "stored %r, reloaded %r" % (raw, o2.v))
        got = s.execute(sa.select(Obj.v).where(Obj.v == "x")).scalar()
        if got != "R(B(x))":
            ctx.violation("c09-oracle:typedecorator-once:orm-select", {"what": "tdec", "ctx": ["orm-select"]}, "got %r" % got)
    eng.dispose()


# ------------------------------------------------------------------ (F) typed binds x column names
WEIRD_NAMES = ["plain", "attr.name", "attr[0]", "x:y", "with space", "(p)", "da-sh", "q?m", "a,b", "UPPER", "per%cent"]


def bind_contexts(ctx):
    """bind processing exactly once for every bound value: scalar comparisons, expanding IN /
    NOT IN (incl. explicit bindparam(expanding=True) and tuple IN), BETWEEN, UPDATE values —
    for every processor-carrying type x column names that need escaping in DBAPI parameter
    names.  Also compares the processors of the expanded elements with the Lean model."""
    import sqlalchemy as sa

    calls = []

    class Tag(sa.TypeDecorator):
        impl = sa.String
        cache_ok = True

        def process_bind_param(self, value, dialect):
            calls.append(value)
            return None if value is None else "B(" + value + ")"

        def process_result_value(self, value, dialect):
            return None if value is None else "R(" + value + ")"

    D = decimal.Decimal
    typed = {
        "Tag": (Tag, ["a", "b", "c", "d"], lambda v: "R(B(%s))" % v),
        "DateTime": (sa.DateTime, [dt.datetime(2024, 2, 29, 23, 59, 59), dt.datetime(1, 1, 1, 0, 0, 0, 1), dt.datetime(2000, 1, 1), dt.datetime(9999, 12, 31, 23, 59, 59, 999999)], None),
        "Date": (sa.Date, [dt.date(2020, 1, 2), dt.date(1, 1, 1), dt.date(1999, 12, 31), dt.date(2024, 2, 29)], None),
        "Time": (sa.Time, [dt.time(1, 2, 3), dt.time(0, 0, 0, 1), dt.time(23, 59, 59), dt.time(12, 0)], None),
        "Interval": (sa.Interval, [dt.timedelta(days=1), dt.timedelta(seconds=-5), dt.timedelta(microseconds=7), dt.timedelta(days=400, hours=3)], None),
        "Enum": (lambda: sa.Enum(Color, native_enum=False), [Color.red, Color.green, Color.blue, Color.green], None),
        "Boolean": (sa.Boolean, [True, False, True, False], None),
        "Numeric": (lambda: sa.Numeric(10, 2), [D("1.50"), D("2.25"), D("-3.00"), D("10.10")], None),
        "Integer": (sa.Integer, [1, 2, 3, 4], None),
        "LargeBinary": (sa.LargeBinary, [b"a", b"\x00b", b"", b"zz"], None),
    }
    rng = ctx.rng
    n = 40 if ctx.tier == "quick" else 400
    eng = sa.create_engine("sqlite://")
    corr_cases, impl, reqs = [], [], []
    with eng.connect() as conn:
        for it in range(n):
            md = sa.MetaData()
            ncol = rng.choice([1, 2, 2, 3])
            names = rng.sample(WEIRD_NAMES, ncol)
            tnames = [rng.choice(list(typed)) for _ in range(ncol)]
            cols = [sa.Column(nm, typed[tn][0]() if callable(typed[tn][0]) and not isinstance(typed[tn][0], type) else typed[tn][0]())
                    for nm, tn in zip(names, tnames)]
            t = sa.Table("bt%d" % it, md, sa.Column("id", sa.Integer, primary_key=True), *cols)
            case0 = {"what": "binds", "columns": list(zip(names, tnames))}
            try:
                md.create_all(conn)
                rows = [dict({"id": i + 1}, **{nm: typed[tn][1][i] for nm, tn in zip(names, tnames)}) for i in range(4)]
                conn.execute(t.insert(), rows)
            except Exception as e:  # noqa: BLE001
                ctx.count("binds-rejected=%s" % type(e).__name__)
                conn.rollback()
                continue
            for ci, (nm, tn) in enumerate(zip(names, tnames)):
                col = t.c[nm]
                vals = typed[tn][1]
                ids_of = lambda pred: [i + 1 for i in range(4) if pred(vals[i])]  # noqa: E731
                subset = [vals[i] for i in sorted(rng.sample(range(4), rng.randint(1, 3)))]
                preds = [
                    ("eq", col == vals[0], ids_of(lambda v: v == vals[0]), 1),
                    ("in", col.in_(subset), ids_of(lambda v: v in subset), len(subset)),
                    ("not-in", col.not_in(subset), ids_of(lambda v: v not in subset), len(subset)),
                    # (a value-less bindparam takes the column's type; one with a value types itself)
                    ("in-bindparam-expanding", col.in_(sa.bindparam("bp_%d" % ci, expanding=True)),
                     ids_of(lambda v: v in subset), len(subset)),
                    ("in-empty", col.in_([]), [], 0),
                ]
                # explicitly named expanding parameters whose NAME needs escaping
                bname = rng.choice(["x.y", "a[0]", "p:q", "plain_bp", "sp ace"]) + str(ci)
                preds.append(("in-named-bindparam", col.in_(sa.bindparam(bname, expanding=True)),
                              ids_of(lambda v: v in subset), len(subset)))
                if tn in ("Integer", "Tag", "Date", "DateTime", "Boolean"):
                    # rendered in the SQL at execution time (post-compile, literal_execute)
                    preds.append(("in-named-literal-execute", col.in_(sa.bindparam(bname + "L", expanding=True, literal_execute=True)),
                                  ids_of(lambda v: v in subset), len(subset)))
                if tn not in ("Enum", "Boolean", "LargeBinary", "Tag"):
                    lo, hi = sorted(vals)[1], sorted(vals)[2]
                    preds.append(("between", col.between(lo, hi), ids_of(lambda v: lo <= v <= hi), 2))
                if ncol >= 2:
                    o = (ci + 1) % ncol
                    ocol, ovals = t.c[names[o]], typed[tnames[o]][1]
                    pairs = [(vals[i], ovals[i]) for i in sorted(rng.sample(range(4), 2))]
                    preds.append(("tuple-in", sa.tuple_(col, ocol).in_(pairs),
                                  [i + 1 for i in range(4) if (vals[i], ovals[i]) in pairs], None))
                    tname = rng.choice(["t.u", "t[1]", "t:u", "plain_tp"]) + str(ci)
                    preds.append(("tuple-in-named-bindparam", sa.tuple_(col, ocol).in_(sa.bindparam(tname, expanding=True)),
                                  [i + 1 for i in range(4) if (vals[i], ovals[i]) in pairs], None))
                for pname, pred, expected, nbinds in preds:
                    stmt = sa.select(t.c.id).where(pred).order_by(t.c.id)
                    params = {}
                    if pname == "in-bindparam-expanding":
                        params = {"bp_%d" % ci: list(subset)}
                    elif pname == "in-named-bindparam":
                        params = {bname: list(subset)}
                    elif pname == "in-named-literal-execute":
                        params = {bname + "L": list(subset)}
                    elif pname == "tuple-in-named-bindparam":
                        params = {tname: list(pairs)}
                    del calls[:]
                    with warnings.catch_warnings():
                        warnings.simplefilter("ignore")
                        try:
                            got = conn.execute(stmt, params).scalars().all()
                        except Exception as e:  # noqa: BLE001
                            got = "exc:%s:%s" % (type(e).__name__, str(e)[:120])
                    case = dict(case0, column=nm, type=tn, predicate=pname)
                    ctx.case("binds:%s:%s:%s:%s" % (nm, tn, pname, subset if pname != "eq" else ""))
                    ctx.count("binds-type=" + tn)
                    ctx.count("binds-name=" + nm)
                    ctx.count("binds-pred=" + pname)
                    if got != expected:
                        ctx.violation("c09-oracle:bind-processing:" + pname, case,
                                      "column %r (%s) %s: selected ids %r, expected %r" % (nm, tn, pname, got, expected))
                    elif tn == "Tag" and nbinds is not None and len(calls) != nbinds:
                        ctx.violation("c09-oracle:typedecorator-bind-once:" + pname, case,
                                      "column %r %s: %d process_bind_param calls for %d bound values" % (nm, pname, len(calls), nbinds))
                    # processors of the expanded elements vs the model
                    if pname in ("in", "not-in", "in-bindparam-expanding", "in-named-bindparam", "tuple-in",
                                 "tuple-in-named-bindparam") and not isinstance(got, str):
                        try:
                            comp = stmt.compile(eng)
                            # as DefaultExecutionContext does it (unescaped parameter names)
                            st = comp._process_parameters_for_postcompile(
                                comp.construct_params(params or None, escape_names=False))
                            has_single = {nm_: (nm_ in comp._bind_processors) for nm_ in comp.bind_names.values()}
                            for bind, uname in comp.bind_names.items():
                                if not bind.expanding:
                                    continue
                                esc = comp.escaped_bind_names.get(uname, uname)
                                elems = params.get(bind.key, bind.value) or []
                                nel = len(elems)
                                if pname.startswith("tuple"):
                                    # per tuple position: does that column's type have a bind processor
                                    mask = ["1" if c_.type._cached_bind_processor(eng.dialect) is not None else "0" for c_ in (col, ocol)]
                                    got_p = ["1" if ("%s_%d_%d" % (esc, i_ + 1, j_ + 1)) in st.processors else "0"
                                             for i_ in range(nel) for j_ in range(2)]
                                    corr_cases.append(dict(case, bind=uname, escaped=esc))
                                    impl.append(",".join(got_p) if got_p else "-")
                                    reqs.append("types expandt %s %d %d" % ("".join(mask), 1 if esc != uname else 0, nel))
                                    continue
                                got_p = ["1" if ("%s_%d" % (esc, j + 1)) in st.processors else "0" for j in range(nel)]
                                corr_cases.append(dict(case, bind=uname, escaped=esc))
                                impl.append(",".join(got_p) if got_p else "-")
                                reqs.append("types expand %d %d %d" % (1 if has_single.get(uname) else 0, 1 if esc != uname else 0, nel))
                        except Exception as e:  # noqa: BLE001
                            ctx.count("expand-introspection-failed=%s:%s" % (type(e).__name__, str(e)[:60]))
            # UPDATE through the type, then read back
            nm, tn = names[0], tnames[0]
            v_new = typed[tn][1][1]
            try:
                conn.execute(t.update().where(t.c.id == 1).values({t.c[nm]: v_new}))
                back = conn.execute(sa.select(t.c[nm]).where(t.c.id == 1)).scalar()
                want = typed[tn][2](v_new) if typed[tn][2] else v_new
                if back != want:
                    ctx.violation("c09-oracle:bind-processing:update", dict(case0, column=nm, type=tn, predicate="update"),
                                  "UPDATE %r=%r then SELECT gave %r, expected %r" % (nm, v_new, back, want))
            except Exception as e:  # noqa: BLE001
                ctx.count("binds-update-rejected=%s" % type(e).__name__)
            conn.rollback()
    eng.dispose()
    if ctx.driver_ok() and reqs:
        ctx.correspond("corr/c09:expanded-bind-processors-vs-Model.Types", corr_cases, impl, ctx.driver(reqs))


# ------------------------------------------------------------------ (G) processor-carrying primary keys
def pk_contexts(ctx):
    """the primary key an INSERT reports (inserted_primary_key[_rows], ORM attribute after flush)
    equals what a SELECT of that row returns, for pk types with bind/result processing x
    explicit / None / omitted pk values x parameters / .values() / executemany / ORM"""
    import sqlalchemy as sa
    from sqlalchemy.orm import Session, declarative_base

    class Shifted(sa.TypeDecorator):
        impl = sa.Integer
        cache_ok = True

        def process_bind_param(self, value, dialect):
            return None if value is None else value - 1000

        def process_result_value(self, value, dialect):
            return None if value is None else value + 1000

    class OrderNo(sa.TypeDecorator):
        impl = sa.Integer
        cache_ok = True

        def process_bind_param(self, value, dialect):
            return None if value is None else int(value[4:])

        def process_result_value(self, value, dialect):
            return None if value is None else "ORD-%d" % value

    kinds = {
        "Shifted": (Shifted, lambda n: 1000 + n, "shift"),
        "OrderNo": (OrderNo, lambda n: "ORD-%d" % n, "ord"),
        "Integer": (sa.Integer, lambda n: n, "int"),
    }
    rng = ctx.rng
    n = 10 if ctx.tier == "quick" else 80
    cases, impl, reqs = [], [], []
    for it in range(n):
        kname = rng.choice(list(kinds))
        typ, mk, _ = kinds[kname]
        eng = sa.create_engine("sqlite://")
        md = sa.MetaData()
        t = sa.Table("pk%d" % it, md, sa.Column("id", typ, primary_key=True, autoincrement=True), sa.Column("tag", sa.String(10)))
        Base = declarative_base(metadata=md)
        Obj = type("PkObj%d" % it, (Base,), {"__table__": t})
        with eng.connect() as conn:
            md.create_all(conn)
            raw_next = 1
            for step in range(rng.randint(3, 7)):
                how = rng.choice(["param-explicit", "param-none", "omitted", "values-explicit", "executemany-explicit", "executemany-omitted",
                                  "orm-explicit", "orm-omitted"])
                tag = "t%d_%d" % (it, step)
                raw = raw_next + rng.choice([0, 0, 5])
                case = {"what": "pk", "type": kname, "how": how}
                ctx.case("pk:%s:%s:%d:%d" % (kname, how, it, step))
                ctx.count("pk-type=" + kname)
                ctx.count("pk-how=" + how)
                try:
                    if how == "param-explicit":
                        r = conn.execute(t.insert(), {"id": mk(raw), "tag": tag})
                        reported = [tuple(r.inserted_primary_key)]
                        explicit = 1
                    elif how == "param-none":
                        r = conn.execute(t.insert(), {"id": None, "tag": tag})
                        reported = [tuple(r.inserted_primary_key)]
                        explicit = 0
                    elif how == "omitted":
                        r = conn.execute(t.insert(), {"tag": tag})
                        reported = [tuple(r.inserted_primary_key)]
                        explicit = 0
                    elif how == "values-explicit":
                        r = conn.execute(t.insert().values(id=mk(raw), tag=tag))
                        reported = [tuple(r.inserted_primary_key)]
                        explicit = 1
                    elif how == "executemany-explicit":
                        r = conn.execute(t.insert(), [{"id": mk(raw), "tag": tag}, {"id": mk(raw + 1), "tag": tag + "b"}])
                        reported = None
                        explicit = 1
                    elif how == "executemany-omitted":
                        r = conn.execute(t.insert(), [{"tag": tag}, {"tag": tag + "b"}])
                        reported = None
                        explicit = 0
                    else:
                        with Session(conn) as s:
                            o = Obj(tag=tag) if how == "orm-omitted" else Obj(id=mk(raw), tag=tag)
                            s.add(o)
                            s.flush()
                            reported = [(o.id,)]
                            s.commit()
                        explicit = 1 if how == "orm-explicit" else 0
                    selected = [tuple(x) for x in conn.execute(sa.select(t.c.id).where(t.c.tag.in_([tag])).order_by(t.c.id)).all()]
                    rawsel = conn.exec_driver_sql("select max(id) from pk%d" % it).scalar()
                    raw_next = (rawsel or 0) + 1
                except Exception as e:  # noqa: BLE001
                    ctx.violation("c09-oracle:pk-insert-raised", case, "%s: %s" % (type(e).__name__, str(e)[:200]))
                    conn.rollback()
                    continue
                if reported is not None and reported != selected:
                    ctx.violation("c09-oracle:inserted-primary-key-vs-select:" + how, case,
                                  "%s pk, %s: INSERT reported %r, SELECT of the row returns %r" % (kname, how, reported, selected))
                if reported is not None and how.startswith(("param", "omitted", "values")) and kname != "OrderNo" and selected:
                    # the model of _inserted_primary_key_from_lastrowid_getter for an affine processor
                    shift = 1000 if kname == "Shifted" else 0
                    stored = selected[0][0] - shift
                    cases.append(dict(case, stored=stored))
                    impl.append(str(reported[0][0]))
                    reqs.append("types ipk %d %d %d %d" % (explicit if how != "values-explicit" else 0, selected[0][0], stored, shift))
        eng.dispose()
    if ctx.driver_ok() and reqs:
        ctx.correspond("corr/c09:inserted-primary-key-vs-Model.Types", cases, impl, ctx.driver(reqs))


def run(ctx):
    ctx.rule = (
        "boundary + random datetimes/dates/times (years 1..9999, microsecond edge values) through the real SQLite bind/"
        "result processors and the model; malformed strings inside the modelled layouts; random custom storage formats; "
        "random enum classes with aliases; executed round trips of 24 column types with boundary and random values "
        "(executemany insert + select); a non-idempotent TypeDecorator under random nesting depth 0..4 and 15 "
        "bind/RETURNING/ORM contexts; typed comparisons (=, IN, NOT IN, explicit expanding bindparam, tuple IN, BETWEEN, "
        "UPDATE) for 10 types x 11 column names incl. ones that must be escaped in DBAPI parameter names; primary keys with "
        "processors x explicit/None/omitted pk x params/values()/executemany/ORM; a case is a distinct (type, value) or (nesting path)")
    ctx.trusted.append("Python datetime.fromisoformat and %-formatting: modelled for the layouts SQLAlchemy writes, compared on every run")
    ctx.assumptions.append("naive datetimes only (SQLite drops tzinfo); Numeric values within scale and 15 significant digits")
    fm = source_formats()
    for name, fmt in fm.items():
        ctx.obligation("translator:%s parsed" % name, parse_format(fmt) is not None, repr(fmt))
    corr_formats(ctx)
    corr_custom(ctx)
    corr_enum(ctx)
    exec_roundtrips(ctx)
    typedecorator_once(ctx)
    bind_contexts(ctx)
    pk_contexts(ctx)
    ctx.sample({"formats": fm})


def search(ctx, broken):
    sub = type(ctx)(ctx.pid, "thorough", ctx.seed + 1, ctx.level)
    run(sub)
    ctx.violations.extend(sub.violations)


def replay(ctx, obj):
    """re-run the family the case belongs to and report whether the same key still fails"""
    sub = type(ctx)(ctx.pid, "thorough", obj.get("seed", 0), ctx.level)
    what = (obj.get("case") or {}).get("what")
    if what in ("processor",):
        corr_formats(sub)
    elif what == "custom":
        corr_custom(sub)
    elif what == "enum":
        corr_enum(sub)
    elif what in ("roundtrip", "null"):
        exec_roundtrips(sub)
    elif what == "binds":
        bind_contexts(sub)
    elif what == "pk":
        pk_contexts(sub)
    else:
        typedecorator_once(sub)
    hits = [v for v in sub.violations if v["key"] == obj.get("key")]
    print("replay C09 key=%s -> %d failing cases; first: %s" % (obj.get("key"), len(hits), hits[0]["detail"] if hits else None))
    return bool(hits)
