"""C19 — dependency sorting is a correct topological order; cycles exactly reported.

Model: lean/SaVerif/Model/Topo.lean (hand transcription of util/topological.py)
Theorems: lean/SaVerif/Props/C19.lean
Correspondence: exhaustive over all digraphs (self-loops included) on <= 4 nodes,
plus random larger graphs whose nodes have randomised hashes (to vary Python set
iteration order), comparing sort / sort_as_subsets / find_cycles / the exception's
cycle set with the Lean driver; the direct oracle checks the property itself on
the implementation's output with an independent reachability computation.
"""
import itertools
import os

PID = "C19"
LEVEL = "proof"
LEAN = ["SaVerif.Props.C19"]
META = {
    "text": "Lean theorems (any graph size, any item order, duplicates allowed): output of sort is a permutation of the items, every dependency pair with both ends among the items is ordered parent-first, subsets are internally independent, sort raises iff the dependencies among the items contain a cycle (sort_error_iff_cycle), find_cycles returns exactly the nodes on some cycle (find_cycles_exact), both loops terminate (fuel sufficiency proved). The model is a hand transcription of util/topological.py tied to it by an exhaustive differential run over all digraphs on <=4 nodes plus random larger graphs, and the property itself is re-checked on the implementation output by an independent oracle.",
    "note": "Trusted: Lean kernel; the correspondence harness (differential, exhaustive only up to 4 nodes); Python set/list semantics modelled as lists. Set-iteration order in find_cycles is modelled as list order; the exactness theorem makes the result order-independent as a set.",
    "technique": "Lean 4 proof by induction over the sort loop + exhaustive small-scope correspondence with the Python implementation",
    "design_ref": "DESIGN.md §3 C19",
}


class Item:
    """hashable node with an arbitrary hash (varies set iteration order)"""

    __slots__ = ("i", "h")

    def __init__(self, i, h):
        self.i, self.h = i, h

    def __hash__(self):
        return self.h

    def __repr__(self):
        return "n%d" % self.i


def fmt_list(l):
    return ",".join(str(x) for x in l) if l else "-"


def fmt_pairs(ts):
    return ",".join("%d>%d" % t for t in ts) if ts else "-"


# ---------------------------------------------------------------- independent oracle
def on_cycle_nodes(tuples):
    """nodes lying on some directed cycle (independent: transitive closure)"""
    nodes = sorted({x for t in tuples for x in t})
    reach = {n: set() for n in nodes}
    for p, c in tuples:
        reach[p].add(c)
    changed = True
    while changed:
        changed = False
        for n in nodes:
            new = set()
            for m in reach[n]:
                new |= reach[m]
            if not new <= reach[n]:
                reach[n] |= new
                changed = True
    return sorted(n for n in nodes if n in reach[n])


def oracle(items, tuples, impl):
    """Return None if the property holds for this input on the implementation,
    else a description.  `impl` = dict(sort=..., subsets=..., cycles=...)."""
    iset = set(items)
    induced = [(p, c) for p, c in tuples if p in iset and c in iset]
    cyc_induced = on_cycle_nodes(induced)
    s = impl["sort"]
    if cyc_induced:
        if s[0] != "circular":
            return "cycle among items %s but sort returned %s" % (cyc_induced, s)
    else:
        if s[0] != "ok":
            return "no cycle among items but sort raised %s" % (s,)
        out = s[1]
        if sorted(out) != sorted(items):
            return "output %s is not a permutation of items %s" % (out, items)
        pos = {x: i for i, x in enumerate(out)}
        for p, c in induced:
            if not pos[p] < pos[c]:
                return "dependency %s>%s violated in %s" % (p, c, out)
        sub = impl["subsets"]
        if sub[0] != "ok" or [x for ss in sub[1] for x in ss] != out:
            return "sort_as_subsets %s does not flatten to sort %s" % (sub, out)
        for ss in sub[1]:
            sset = set(ss)
            for p, c in induced:
                if p in sset and c in sset:
                    return "subset %s contains dependent pair %s>%s" % (ss, p, c)
    if s[0] == "circular" and s[1] != on_cycle_nodes(tuples):
        return "error.cycles %s != nodes on cycles %s" % (s[1], on_cycle_nodes(tuples))
    if impl["cycles"] != on_cycle_nodes(tuples):
        return "find_cycles %s != nodes on cycles %s" % (impl["cycles"], on_cycle_nodes(tuples))
    if impl.get("sort2") is not None and impl["sort2"] != s:
        return "sort not deterministic under hash change: %s vs %s" % (s, impl["sort2"])
    return None


def run_impl(items, tuples, rng=None):
    from sqlalchemy.util import topological
    from sqlalchemy.exc import CircularDependencyError

    def once(hashes):
        objs = {}

        def o(i):
            if i not in objs:
                objs[i] = Item(i, hashes(i))
            return objs[i]

        its = [o(i) for i in items]
        tps = [(o(p), o(c)) for p, c in tuples]
        res = {}
        try:
            res["sort"] = ("ok", [x.i for x in topological.sort(tps, its)])
        except CircularDependencyError as e:
            res["sort"] = ("circular", sorted(x.i for x in e.cycles))
        try:
            res["subsets"] = ("ok", [[x.i for x in ss] for ss in topological.sort_as_subsets(tps, its)])
        except CircularDependencyError:
            res["subsets"] = ("circular",)
        res["cycles"] = sorted(x.i for x in topological.find_cycles(tps, its))
        return res

    if rng is None:
        return once(lambda i: i)
    r = once(lambda i, _c={}: _c.setdefault(i, rng.randrange(1 << 30)))
    r2 = once(lambda i, _c={}: _c.setdefault(i, rng.randrange(1 << 30)))
    r["sort2"] = r2["sort"]
    if r2["cycles"] != r["cycles"]:
        r["cycles"] = ("order-dependent", r["cycles"], r2["cycles"])
    return r


def impl_lines(res):
    s = res["sort"]
    a = "ok " + fmt_list(s[1]) if s[0] == "ok" else "circular " + fmt_list(s[1])
    sub = res["subsets"]
    b = "ok " + "|".join(fmt_list(x) for x in sub[1]) if sub[0] == "ok" else "circular"
    c = "ok " + fmt_list(res["cycles"])
    return [a, b, c]


def model_lines(items, tuples):
    return [
        "topo sort %s %s" % (fmt_list(items), fmt_pairs(tuples)),
        "topo subsets %s %s" % (fmt_list(items), fmt_pairs(tuples)),
        "topo cycles %s" % fmt_pairs(tuples),
    ]


def classify(items, tuples):
    return None  # no known findings for C19


def all_graphs(n):
    pairs = [(a, b) for a in range(n) for b in range(n)]
    for mask in range(1 << len(pairs)):
        yield [pairs[k] for k in range(len(pairs)) if mask >> k & 1]


def gen_cases(ctx, deep=False):
    """yield (items, tuples, randomised_hash?)"""
    maxn = 4
    for n in range(0, maxn + 1):
        if n == 4 and ctx.tier == "quick" and not deep:
            # quick: all graphs on <=3 nodes + a seeded 1/8 sample of the 65 536 on 4
            for ts in all_graphs(4):
                if ctx.rng.random() < 0.125:
                    yield list(range(4)), ts, False
            continue
        for ts in all_graphs(n):
            yield list(range(n)), ts, False
    # item orders / sub-selections / duplicated pairs on 3-node graphs
    for ts in all_graphs(3):
        for perm in itertools.permutations(range(3)):
            if ctx.tier == "thorough" or deep or ctx.rng.random() < 0.2:
                yield list(perm), ts, False
        for sub in ([0], [1, 2], [2, 0], []):
            if ctx.tier == "thorough" or deep or ctx.rng.random() < 0.2:
                yield list(sub), ts, False
    nrand = 40000 if (ctx.tier == "thorough" or deep) else 4000
    maxnodes = 40 if (ctx.tier == "thorough" or deep) else 12
    for _ in range(nrand):
        n = ctx.rng.randint(2, maxnodes)
        universe = list(range(n + ctx.rng.randint(0, 2)))  # some tuples mention non-items
        dens = ctx.rng.choice([0.3, 0.8, 1.2, 2.0])
        m = int(n * dens)
        acyclic = ctx.rng.random() < 0.4
        ts = []
        for _ in range(m):
            a, b = ctx.rng.choice(universe), ctx.rng.choice(universe)
            if acyclic and a >= b:
                a, b = b, a + 1 if a == b else a
                if b not in universe:
                    continue
            ts.append((a, b))
        if ctx.rng.random() < 0.3 and ts:
            ts.append(ctx.rng.choice(ts))  # duplicate tuple
        items = list(range(n))
        ctx.rng.shuffle(items)
        yield items, ts, True


# ---------------------------------------------------------------- 5-node sweep
PAIRS5 = [(a, b) for a in range(5) for b in range(5) if a != b]  # 20 pairs, no self-loops


def _cyc5_worker(arg):
    """find_cycles on every loop-free digraph on 5 nodes with mask in [lo, hi)
    stepping by `step`; oracle = bitmask transitive closure."""
    lo, hi, step, salt, keep = arg
    from sqlalchemy.util import topological

    bad, n = [], 0
    for mask in range(lo, hi, step):
        if keep < 256 and ((mask * 2654435761 + salt) >> 7) & 255 >= keep:
            continue
        ts = [PAIRS5[k] for k in range(20) if mask >> k & 1]
        adj = [0] * 5
        for a, b in ts:
            adj[a] |= 1 << b
        reach = adj[:]
        for k in range(5):
            for i in range(5):
                if reach[i] >> k & 1:
                    reach[i] |= reach[k]
        want = [i for i in range(5) if reach[i] >> i & 1]
        got = sorted(topological.find_cycles(ts, range(5)))
        n += 1
        if got != want:
            bad.append((ts, got, want))
            if len(bad) > 20:
                break
    return n, bad


def sweep5(ctx, deep):
    """All 2^20 loop-free digraphs on 5 nodes (every labelling, so every small-int
    set-iteration order), find_cycles vs reachability oracle, in parallel."""
    import multiprocessing as mp

    full = ctx.tier == "thorough" or deep
    total = 1 << 20
    if full:
        chunks = [(w, total, 16, 0, 256) for w in range(16)]
    else:
        # quick: a seeded pseudo-random half of the space (multiplicative hash of the mask)
        salt = ctx.rng.randrange(1 << 30)
        chunks = [(w, total, 16, salt, 128) for w in range(16)]
    with mp.get_context("fork").Pool(min(16, os.cpu_count() or 4)) as pool:
        res = pool.map(_cyc5_worker, chunks)
    n = sum(r[0] for r in res)
    ctx.evaluations += n
    ctx.count("sweep5-graphs", n)
    for _, bad in res:
        for ts, got, want in bad[:3]:
            ctx.violation(
                "c19-oracle",
                {"items": list(range(5)), "tuples": ts},
                "find_cycles %s != nodes on cycles %s" % (got, want),
            )
    return full


def run(ctx, deep=False):
    ctx.rule = (
        "all digraphs with self-loops on <=3 nodes (and on 4 nodes: all in thorough, seeded 1/8 in quick) "
        "x item orders/sub-selections on 3 nodes, plus random graphs (<=12 nodes quick, <=40 thorough) with "
        "randomised node hashes; a case is non-trivial when it has >=1 dependency pair; distinct = distinct (items, tuples)"
    )
    ctx.trusted.append("Python set/dict/list semantics used by topological.py (modelled as lists; validated by this correspondence)")
    cases, impl_out, reqs = [], [], []
    for items, tuples, rnd in gen_cases(ctx, deep):
        res = run_impl(items, tuples, ctx.rng if rnd else None)
        case = {"items": items, "tuples": tuples}
        ctx.case((items, tuples), nontrivial=bool(tuples))
        ctx.count("nodes=%d" % min(len(items), 13) if len(items) < 13 else "nodes>=13")
        ctx.count("result=" + res["sort"][0])
        why = oracle(items, tuples, res)
        if why:
            ctx.violation(classify(items, tuples) or "c19-oracle", case, why)
        for k, (il, ml) in enumerate(zip(impl_lines(res), model_lines(items, tuples))):
            cases.append({"items": items, "tuples": tuples, "fn": ("sort", "subsets", "cycles")[k]})
            impl_out.append(il)
            reqs.append(ml)
        if len(items) >= 5 and res["sort"][0] == "ok":
            ctx.sample({"items": items, "tuples": tuples, "sort": res["sort"][1]})
        elif len(items) >= 5:
            ctx.sample({"items": items, "tuples": tuples, "cycles": res["sort"][1]}, cap=8)
    full5 = sweep5(ctx, deep)
    ctx.rule += "; plus find_cycles on %s loop-free digraphs on 5 nodes (all labellings) against a reachability oracle" % (
        "ALL 2^20" if full5 else "a seeded pseudo-random half of the 2^20"
    )
    if ctx.driver_ok():
        ctx.correspond("corr/c19:topological-vs-Model.Topo", cases, impl_out, ctx.driver(reqs))
    ctx.exhaustive = ctx.tier == "thorough"


def search(ctx, broken):
    """Obligation broken: exhaustive small scope + larger random budget on the real code."""
    ctx.violations_before = len(ctx.violations)
    sub = type(ctx)(ctx.pid, "thorough", ctx.seed + 1, ctx.level)
    run(sub, deep=True)
    ctx.violations.extend(sub.violations)


def replay(ctx, obj):
    c = obj["case"]
    tuples = [tuple(t) for t in c["tuples"]]
    res = run_impl(c["items"], tuples, None)
    why = oracle(c["items"], tuples, res)
    print("replay C19 items=%s tuples=%s -> %s ; oracle: %s" % (c["items"], tuples, res, why))
    return why is not None
