"""C50 — Ordering lists and association proxies behave as their collection types.

Models      lean/SaVerif/Model/OrderingList.lean (ext/orderinglist.py inside a mapped relationship,
            incl. the orm/collections.py list decorators' slice decomposition)
            lean/SaVerif/Model/AssocProxy.lean   (ext/associationproxy.py _AssociationList/Set/Dict)
Theorems    lean/SaVerif/Props/C50.lean
Check       real mapped classes (SQLite in memory): operation sequences on an ordering_list
            relationship and on list / set / dict association proxies; direct oracle: positions ==
            ordering_func(index) after every operation, contents / exceptions equal to a plain
            list / set / dict under the same operations, and after commit + reload the persisted
            order / association rows equal the in-memory collection; correspondence with the Lean
            models after every operation (contents, positions, identity of intermediary objects).
"""
import json

PID = "C50"
LEVEL = "proof"
LEAN = ["SaVerif.Props.C50"]
META = {
    "text": "Lean theorems for ALL operation sequences: the OrderingList invariant (duplicate-free, position == ordering_func(index) for every element) is preserved by every guarded operation of the transcribed class incl. the collection decorators' slice decomposition (append/insert/remove/pop/__setitem__/__delitem__/slices/extend/clear/reorder; induction over the reorder loop and the slice loops); reorder() restores it from any duplicate-free state; each excluded case (sort/reverse, append of an element that already has a position) has a counterexample theorem replayed on the real code. Association proxies: each operation of the transcribed _AssociationSet/_AssociationDict/_AssociationList refines the plain set/dict/list operation on the proxied values, never duplicates a value's intermediary, and keeps the identity of untouched intermediaries. Tied to the code by per-operation correspondence and by an oracle comparing with plain Python collections and with the reloaded database rows.",
    "note": "Hand-transcribed models tied by differential runs only. Python's own list/set/dict semantics enter as inputs (normalised slice indices, removed index sets, sort results) or as small trusted definitions (index normalisation, list.insert clamping) that the oracle re-validates against CPython. List-proxy slice operations, pickling of proxies and scalar proxies are covered by the oracle only. Guards that correspond to real (documented) behaviour are reported as known findings: sort()/reverse() do not renumber (reorder() required); append keeps an existing position unless reorder_on_append. Fixed in the tree and now covered by the full theorems / oracle: negative __setitem__ index on OrderingList, _AssociationList slice bounds and *= negative, _AssociationDict.pop(missing, default).",
    "technique": "Lean 4 invariant/refinement proofs over transcribed collection classes + per-operation differential correspondence with the real ORM on SQLite + plain-collection oracle",
    "design_ref": "DESIGN.md §3 C50",
}

_ENV = {}
NENT = 9


def ol_env(start, roa):
    key = ("ol", start, roa)
    if key in _ENV:
        return _ENV[key]
    import sqlalchemy as sa
    from sqlalchemy import orm
    from sqlalchemy.ext.orderinglist import ordering_list
    from sqlalchemy.pool import StaticPool

    Base = _ENV.setdefault("Base", orm.declarative_base())
    tag = "%d_%d" % (start, int(roa))
    Bullet = type(
        "Bullet" + tag,
        (Base,),
        {
            "__tablename__": "c50_bullet" + tag,
            "id": sa.Column(sa.Integer, primary_key=True),
            "slide_id": sa.Column(sa.ForeignKey("c50_slide%s.id" % tag)),
            "position": sa.Column(sa.Integer),
            "tag": sa.Column(sa.Integer),
        },
    )
    Slide = type(
        "Slide" + tag,
        (Base,),
        {
            "__tablename__": "c50_slide" + tag,
            "id": sa.Column(sa.Integer, primary_key=True),
            "bullets": orm.relationship(
                Bullet,
                order_by=Bullet.position,
                collection_class=ordering_list("position", count_from=start, reorder_on_append=roa),
            ),
        },
    )
    eng = sa.create_engine("sqlite://", poolclass=StaticPool)
    Base.metadata.create_all(eng, tables=[Slide.__table__, Bullet.__table__])
    _ENV[key] = (Slide, Bullet, eng)
    return _ENV[key]


def px_env():
    if "px" in _ENV:
        return _ENV["px"]
    import sqlalchemy as sa
    from sqlalchemy import orm
    from sqlalchemy.ext.associationproxy import association_proxy
    from sqlalchemy.orm.collections import attribute_keyed_dict
    from sqlalchemy.pool import StaticPool

    Base = _ENV.setdefault("Base", orm.declarative_base())

    class PChild(Base):
        __tablename__ = "c50_child"
        id = sa.Column(sa.Integer, primary_key=True)
        parent_id = sa.Column(sa.ForeignKey("c50_parent.id"))
        pos = sa.Column(sa.Integer)
        value = sa.Column(sa.Integer)

        def __init__(self, value):
            self.value = value

    class PTag(Base):
        __tablename__ = "c50_tag"
        id = sa.Column(sa.Integer, primary_key=True)
        parent_id = sa.Column(sa.ForeignKey("c50_parent.id"))
        value = sa.Column(sa.Integer)

        def __init__(self, value):
            self.value = value

    class PItem(Base):
        __tablename__ = "c50_item"
        id = sa.Column(sa.Integer, primary_key=True)
        parent_id = sa.Column(sa.ForeignKey("c50_parent.id"))
        key = sa.Column(sa.Integer)
        value = sa.Column(sa.Integer)

        def __init__(self, key, value):
            self.key = key
            self.value = value

    class PParent(Base):
        __tablename__ = "c50_parent"
        id = sa.Column(sa.Integer, primary_key=True)
        children = orm.relationship(PChild, cascade="all, delete-orphan", order_by=PChild.id)
        tags = orm.relationship(PTag, cascade="all, delete-orphan", collection_class=set)
        items = orm.relationship(PItem, cascade="all, delete-orphan", collection_class=attribute_keyed_dict("key"))
        values = association_proxy("children", "value")
        tagvalues = association_proxy("tags", "value")
        itemvalues = association_proxy("items", "value")

    eng = sa.create_engine("sqlite://", poolclass=StaticPool)
    Base.metadata.create_all(eng, tables=[PParent.__table__, PChild.__table__, PTag.__table__, PItem.__table__])
    _ENV["px"] = (PParent, PChild, PTag, PItem, eng)
    return _ENV["px"]


def dots(l):
    return ".".join(str(x) for x in l) if l else "-"


def exc_name(e):
    for cls, n in ((IndexError, "index"), (KeyError, "key"), (ValueError, "value")):
        if isinstance(e, cls):
            return n
    return "other:" + type(e).__name__


# ---------------------------------------------------------------------------------------
# Part A: ordering list
# ---------------------------------------------------------------------------------------
class OLRunner:
    def __init__(self, case):
        from sqlalchemy import orm

        self.case = case
        self.start, self.roa = case["start"], case["roa"]
        self.Slide, self.Bullet, self.eng = ol_env(self.start, self.roa)
        with self.eng.begin() as c:
            c.execute(self.Bullet.__table__.delete())
            c.execute(self.Slide.__table__.delete())
        self.sess = orm.Session(self.eng)
        self.slide = self.Slide(id=1)
        self.sess.add(self.slide)
        self.ents = [self.Bullet(tag=i) for i in range(NENT)]
        self.idx = {id(b): i for i, b in enumerate(self.ents)}
        self.shadow = []  # plain list of entity indices
        self.model_ops = []
        self.obs = []
        self.violations = []
        self.unsynced_reason = None  # guard of the theorem violated earlier (stale stream)

    def lst(self):
        return self.slide.bullets

    def ids(self):
        return [self.idx[id(b)] for b in self.lst()]

    def show(self):
        l = self.lst()
        return dots(["%d@%s" % (self.idx[id(b)], "N" if b.position is None else b.position) for b in l])

    def check(self, where):
        l = self.lst()
        if self.ids() != self.shadow:
            self.violations.append(("ordering-list-content", "%s: list holds %s, a plain list holds %s" % (where, self.ids(), self.shadow)))
            return
        want = [i + self.start for i in range(len(l))]
        have = [b.position for b in l]
        if have != want:
            self.violations.append(("ordering-positions", "%s: positions %s != ordering_func(index) %s for list %s" % (where, have, want, self.ids())))

    def guard(self, op):
        """None if the theorem's guard holds for this op in the current state, else its name"""
        cur = self.ids()
        k = op["op"]

        def fresh(e):
            return e not in cur

        def appendable(e):
            return fresh(e) and (self.ents[e].position is None or self.roa)

        if k == "app":
            if not fresh(op["e"]):
                return "duplicate-entity"
            if not appendable(op["e"]):
                return "append-keeps-existing-position"
        elif k == "ins":
            if not fresh(op["e"]):
                return "duplicate-entity"
        elif k == "set":
            if not fresh(op["e"]):
                return "duplicate-entity"
        elif k in ("ext", "iadd"):
            if len(set(op["es"])) != len(op["es"]) or not all(fresh(e) for e in op["es"]):
                return "duplicate-entity"
            if not all(appendable(e) for e in op["es"]):
                return "append-keeps-existing-position"
        elif k == "sls":
            if len(set(op["es"])) != len(op["es"]) or not all(fresh(e) for e in op["es"]):
                return "duplicate-entity"
        elif k == "rev":
            if len(cur) > 1:
                return "reverse-not-renumbered"
        elif k == "sort":
            if sorted(cur, reverse=op["desc"]) != cur:
                return "sort-not-renumbered"
        return None

    def step(self, op):
        k = op["op"]
        l = self.lst()
        E = self.ents
        outcome = "ok"
        g = self.guard(op)
        mop = None
        n = len(l)
        self.shadow_exc = None
        try:
            if k == "app":
                mop = "app:%d" % op["e"]
                self.shadow_do(lambda s: s.append(op["e"]))
                l.append(E[op["e"]])
            elif k == "ins":
                mop = "ins:%d:%d" % (op["i"], op["e"])
                self.shadow_do(lambda s: s.insert(op["i"], op["e"]))
                l.insert(op["i"], E[op["e"]])
            elif k == "rem":
                mop = "rem:%d" % op["e"]
                self.shadow_do(lambda s: s.remove(op["e"]))
                l.remove(E[op["e"]])
            elif k == "pop":
                mop = "pop:%d" % op["i"]
                self.shadow_do(lambda s: s.pop(op["i"]))
                l.pop(op["i"])
            elif k == "set":
                mop = "set:%d:%d" % (op["i"], op["e"])
                self.shadow_do(lambda s: s.__setitem__(op["i"], op["e"]))
                l[op["i"]] = E[op["e"]]
            elif k == "del":
                mop = "del:%d" % op["i"]
                self.shadow_do(lambda s: s.__delitem__(op["i"]))
                del l[op["i"]]
            elif k == "dls":
                sl = slice(*op["sl"])
                mop = "delx:%s" % dots(list(range(*sl.indices(n))))
                self.shadow_do(lambda s: s.__delitem__(sl))
                del l[sl]
            elif k == "sls":
                sl = slice(*op["sl"])
                a, b, c = sl.indices(n)
                mop = "sls:%d:%d:%d:%s" % (a, b, c, dots(op["es"]))
                self.shadow_do(lambda s: s.__setitem__(sl, list(op["es"])))
                l[sl] = [E[e] for e in op["es"]]
            elif k == "ext":
                mop = "ext:%s" % dots(op["es"])
                self.shadow_do(lambda s: s.extend(op["es"]))
                l.extend([E[e] for e in op["es"]])
            elif k == "iadd":
                mop = "ext:%s" % dots(op["es"])
                self.shadow_do(lambda s: s.__iadd__(op["es"]))
                l += [E[e] for e in op["es"]]
            elif k == "clr":
                mop = "clr"
                self.shadow_do(lambda s: s.clear())
                l.clear()
            elif k == "rev":
                mop = "rev"
                self.shadow_do(lambda s: s.reverse())
                l.reverse()
            elif k == "sort":
                self.shadow_do(lambda s: s.sort(reverse=op["desc"]))
                l.sort(key=lambda b: b.tag, reverse=op["desc"])
                mop = "ord:%s" % dots(self.ids())
            elif k == "reo":
                mop = "reo"
                l.reorder()
            elif k == "reload":
                # persist and reload the collection in list order given by ORDER BY position
                self.sess.commit()
                self.sess.expire(self.slide, ["bullets"])
                mop = "ord:%s" % dots(self.ids())
                if self.unsynced_reason is None and self.ids() != self.shadow:
                    self.violations.append(("ordering-persisted-order", "after commit + reload the list is %s, before it was %s" % (self.ids(), self.shadow)))
                self.shadow = self.ids()
            else:
                raise ValueError(op)
        except (IndexError, ValueError) as e:
            outcome = exc_name(e)
        if self.shadow_exc != (None if outcome == "ok" else outcome):
            self.violations.append(("ordering-list-exception", "%s: raised %s, a plain list %s" % (json.dumps(op), outcome, self.shadow_exc or "does not raise")))
        if g is not None and outcome == "ok" and self.unsynced_reason is None:
            self.unsynced_reason = g
        if k == "reo" and len(set(self.ids())) == len(self.ids()):
            self.unsynced_reason = None
        self.model_ops.append(mop)
        self.obs.append(outcome + "/" + self.show())
        n0 = len(self.violations)
        self.check("after %s" % json.dumps(op))
        return outcome

    def shadow_do(self, fn):
        self.shadow_exc = None
        try:
            fn(self.shadow)
        except (IndexError, ValueError) as e:
            self.shadow_exc = exc_name(e)

    shadow_exc = None

    def finish(self):
        if self.violations:
            return
        import sqlalchemy as sa

        self.sess.commit()
        mem = [(self.idx[id(b)], b.position) for b in self.lst()]
        t = self.Bullet.__table__
        rows = self.sess.execute(sa.select(t.c.tag, t.c.position).where(t.c.slide_id == 1).order_by(t.c.position, t.c.id)).all()
        rows = [(r[0], r[1]) for r in rows]
        if sorted(rows) != sorted(mem):
            self.violations.append(("ordering-persisted-rows", "in-memory (entity, position) %s, rows %s" % (mem, rows)))
        elif self.unsynced_reason is None and rows != mem:
            self.violations.append(("ordering-persisted-order", "ORDER BY position gives %s, list is %s" % (rows, mem)))

    def close(self):
        self.sess.rollback()
        self.sess.close()


def ol_gen_op(rng, R, stale):
    cur = R.ids()
    n = len(cur)
    fresh = [e for e in range(NENT) if e not in cur]
    appendable = [e for e in fresh if R.ents[e].position is None or R.roa]
    idx = lambda: rng.randint(-n - 1, n + 1) if rng.random() < 0.3 or n == 0 else rng.randint(-n, n - 1)  # noqa: E731
    for _ in range(20):
        c = rng.choice(["app", "app", "ins", "ins", "rem", "pop", "set", "del", "dls", "sls", "ext", "iadd", "clr", "reo", "reload", "rev", "sort", "stale-app", "neg-set"])
        if c == "app" and appendable:
            return {"op": "app", "e": rng.choice(appendable)}
        if c == "ins" and fresh:
            return {"op": "ins", "i": idx(), "e": rng.choice(fresh)}
        if c == "rem":
            return {"op": "rem", "e": rng.choice(cur) if cur and rng.random() < 0.85 else rng.randrange(NENT)}
        if c == "pop":
            return {"op": "pop", "i": idx() if rng.random() < 0.6 else -1}
        if c == "set" and fresh:
            return {"op": "set", "i": idx(), "e": rng.choice(fresh)}
        if c == "del":
            return {"op": "del", "i": idx()}
        if c == "dls":
            return {"op": "dls", "sl": rand_slice(rng, n)}
        if c == "sls" and fresh:
            sl = rand_slice(rng, n)
            rs = len(range(*slice(*sl).indices(n)))
            step = sl[2] or 1
            k = rs if (step != 1 and rng.random() < 0.8) else rng.randint(0, 3)
            es = rng.sample(fresh, min(k, len(fresh)))
            return {"op": "sls", "sl": sl, "es": es}
        if c in ("ext", "iadd") and appendable:
            return {"op": c, "es": rng.sample(appendable, rng.randint(0, min(3, len(appendable))))}
        if c == "clr" and rng.random() < 0.3:
            return {"op": "clr"}
        if c == "reo" and rng.random() < 0.5:
            return {"op": "reo"}
        if c == "reload" and rng.random() < 0.5:
            return {"op": "reload"}
        if stale:
            if c == "rev":
                return {"op": "rev"}
            if c == "sort":
                return {"op": "sort", "desc": rng.random() < 0.5}
            if c == "stale-app" and fresh:
                return {"op": "app", "e": rng.choice(fresh)}
            if c == "neg-set" and fresh and n:
                return {"op": "set", "i": rng.randint(-n, -1), "e": rng.choice(fresh)}
    return {"op": "reo"}


def rand_slice(rng, n):
    b = lambda: rng.choice([None, None, 0, 1, 2, 3, n, n + 2, -1, -2, -n - 1])  # noqa: E731
    return [b(), b(), rng.choice([None, None, 1, 1, 2, -1, -2, 3])]


def ol_case(rng, stream, maxops):
    return {"part": "ol", "start": rng.choice([0, 0, 1, 5]), "roa": rng.random() < 0.3, "ops": [], "stream": stream, "maxops": rng.randint(3, maxops)}


def ol_drive(rng, case):
    R = OLRunner(case)
    while len(case["ops"]) < case["maxops"] and not R.violations:
        op = ol_gen_op(rng, R, case["stream"] == "stale")
        case["ops"].append(op)
        R.step(op)
        if R.unsynced_reason is not None and R.violations:
            break
    R.finish()
    return R


def ol_replay(case):
    R = OLRunner(case)
    for op in case["ops"]:
        if R.violations:
            break
        R.step(op)
    R.finish()
    return R


def ol_line(case, R):
    return "orderinglist run %d %d %s" % (case["start"], int(case["roa"]), ";".join(R.model_ops) if R.model_ops else "-")


def ol_key(R):
    kind = R.violations[0][0]
    if R.unsynced_reason is not None and kind in ("ordering-positions", "ordering-persisted-order", "ordering-persisted-rows"):
        return "c50:ordering:" + R.unsynced_reason
    return "c50:" + kind


# ---------------------------------------------------------------------------------------
# Part B: association proxies
# ---------------------------------------------------------------------------------------
class PXRunner:
    def __init__(self, case):
        from sqlalchemy import orm

        self.case = case
        self.kind = case["kind"]
        self.PParent, self.PChild, self.PTag, self.PItem, self.eng = px_env()
        with self.eng.begin() as c:
            for cls in (self.PChild, self.PTag, self.PItem, self.PParent):
                c.execute(cls.__table__.delete())
        self.sess = orm.Session(self.eng)
        self.parent = self.PParent(id=1)
        self.sess.add(self.parent)
        self.shadow = {"list": [], "set": set(), "dict": {}}[self.kind]
        self.model_ops = []
        self.obs = []
        self.violations = []
        self.edge_reason = None
        self.model_frozen = False

    def proxy(self):
        return {"list": self.parent.values, "set": self.parent.tagvalues, "dict": self.parent.itemvalues}[self.kind]

    def members(self):
        p = self.parent
        if self.kind == "list":
            return list(p.children)
        if self.kind == "set":
            return list(p.tags)
        return list(p.items.values())

    def show(self, before):
        ms = self.members()
        new = lambda m: "+" if id(m) not in before else ""  # noqa: E731
        if self.kind == "list":
            return dots(["%d%s" % (m.value, new(m)) for m in ms])
        if self.kind == "set":
            return dots(["%d%s" % (m.value, new(m)) for m in sorted(ms, key=lambda m: m.value)])
        return dots(["%d=%d%s" % (m.key, m.value, new(m)) for m in sorted(ms, key=lambda m: m.key)])

    def content(self):
        px = self.proxy()
        if self.kind == "list":
            return list(px)
        if self.kind == "set":
            return set(px)
        return dict(px)

    def step(self, op):
        k = op["op"]
        px = self.proxy()
        sh = self.shadow
        before = {id(m) for m in self.members()}
        self._keep = self.members()  # keep removed objects alive so ids are not reused
        mop = None
        call = None
        n = len(sh)
        if self.kind == "list":
            if k == "app":
                mop, call = "app:%d" % op["v"], lambda c: c.append(op["v"])
            elif k == "ext":
                mop, call = "ext:%s" % dots(op["vs"]), lambda c: c.extend(list(op["vs"]))
            elif k == "iadd":
                mop, call = "ext:%s" % dots(op["vs"]), lambda c: c.__iadd__(list(op["vs"]))
            elif k == "ins":
                mop, call = "ins:%d:%d" % (op["i"], op["v"]), lambda c: c.insert(op["i"], op["v"])
            elif k == "del":
                mop, call = "del:%d" % op["i"], lambda c: c.__delitem__(op["i"])
            elif k == "pop":
                mop, call = "pop:%d" % op["i"], lambda c: c.pop(op["i"])
            elif k == "set":
                mop, call = "set:%d:%d" % (op["i"], op["v"]), lambda c: c.__setitem__(op["i"], op["v"])
            elif k == "rem":
                mop, call = "rem:%d" % op["v"], lambda c: c.remove(op["v"])
            elif k == "clr":
                mop, call = "clr", lambda c: c.clear()
            elif k == "mul":
                mop, call = "mul:%d" % op["n"], lambda c: c.__imul__(op["n"])
            elif k == "assign":  # whole-collection assignment (AssociationProxy.set -> _bulk_replace): oracle only
                new = list(op["vs"])
                self.parent.values = new
                self.shadow[:] = new
                call = lambda c: None  # noqa: E731  (already applied to both)
                self.model_frozen = True
            elif k == "sls":  # oracle only
                sl = slice(*op["sl"])
                call = lambda c: c.__setitem__(sl, list(op["vs"]))  # noqa: E731
            elif k == "dls":
                sl = slice(*op["sl"])
                call = lambda c: c.__delitem__(sl)  # noqa: E731
            elif k == "gsl":
                sl = slice(*op["sl"])
                call = lambda c: list(c[sl])  # noqa: E731
        elif self.kind == "set":
            vs = op.get("vs", [])
            if k == "add":
                mop, call = "add:%d" % op["v"], lambda c: c.add(op["v"])
            elif k == "dis":
                mop, call = "dis:%d" % op["v"], lambda c: c.discard(op["v"])
            elif k == "rem":
                mop, call = "rem:%d" % op["v"], lambda c: c.remove(op["v"])
            elif k == "upd":
                mop, call = "upd:%s" % dots(vs), lambda c: c.update(list(vs))
            elif k == "ior":
                mop, call = "upd:%s" % dots(vs), lambda c: c.__ior__(set(vs))
            elif k == "dif":
                mop, call = "dif:%s" % dots(vs), lambda c: c.difference_update(list(vs))
            elif k == "isub":
                mop, call = "dif:%s" % dots(sorted(set(vs))), lambda c: c.__isub__(set(vs))
            elif k == "int":
                mop, call = "int:%s" % dots(vs), lambda c: c.intersection_update(list(vs))
            elif k == "iand":
                mop, call = "int:%s" % dots(vs), lambda c: c.__iand__(set(vs))
            elif k == "sym":
                mop, call = "sym:%s" % dots(vs), lambda c: c.symmetric_difference_update(list(vs))
            elif k == "ixor":
                mop, call = "sym:%s" % dots(vs), lambda c: c.__ixor__(set(vs))
            elif k == "clr":
                mop, call = "clr", lambda c: c.clear()
            elif k == "pop":
                call = lambda c: c.pop()  # noqa: E731  (arbitrary element: handled below)
            elif k == "assign":
                new = set(vs)
                self.parent.tagvalues = new
                self.shadow.clear()
                self.shadow.update(new)
                call = lambda c: None  # noqa: E731
                self.model_frozen = True
        else:
            if k == "set":
                mop, call = "set:%d:%d" % (op["k"], op["v"]), lambda c: c.__setitem__(op["k"], op["v"])
            elif k == "del":
                mop, call = "del:%d" % op["k"], lambda c: c.__delitem__(op["k"])
            elif k == "pop":
                mop, call = "pop:%d:0" % op["k"], lambda c: c.pop(op["k"])
            elif k == "popd":
                mop, call = "pop:%d:%d" % (op["k"], 1 if op["d"] is None else 2), lambda c: c.pop(op["k"], op["d"])
            elif k == "sdf":
                mop, call = "sdf:%d:%d" % (op["k"], op["v"]), lambda c: c.setdefault(op["k"], op["v"])
            elif k == "upd":
                mop, call = "upd:%s" % dots(["%d=%d" % (a, b) for a, b in dict(op["kv"]).items()]), lambda c: c.update(dict(op["kv"]))
            elif k == "updp":
                mop, call = "upd:%s" % dots(["%d=%d" % (a, b) for a, b in dict(op["kv"]).items()]), lambda c: c.update([tuple(p) for p in op["kv"]])
            elif k == "clr":
                mop, call = "clr", lambda c: c.clear()
            elif k == "popitem":
                call = lambda c: c.popitem()  # noqa: E731
            elif k == "assign":
                new = dict(op["kv"])
                self.parent.itemvalues = new
                # key order after a whole-dict assignment is not specified (surviving keys keep their
                # place): align the plain dict's order with the proxy's, compare contents
                order = [k0 for k0 in self.parent.itemvalues.keys() if k0 in new] + [k0 for k0 in new if k0 not in self.parent.itemvalues]
                self.shadow.clear()
                self.shadow.update({k0: new[k0] for k0 in order})
                call = lambda c: None  # noqa: E731
                self.model_frozen = True
        if call is None:
            raise ValueError(op)
        res = {}
        for name, target in (("shadow", sh), ("proxy", px)):
            try:
                if self.kind == "set" and k == "pop":
                    if name == "proxy":
                        v = target.pop()
                        res[name] = ("ok", "member" if v in res["_before"] else "non-member %r" % (v,))
                        self.shadow.discard(v)
                        mop = "rem:%d" % v
                    else:
                        res["_before"] = set(sh)
                        if not sh:
                            raise KeyError("pop from an empty set")
                        res[name] = ("ok", "member")
                    continue
                r = call(target)
                if k in ("iadd", "mul", "ior", "isub", "iand", "ixor"):
                    r = None  # in-place operators return the collection itself
                if self.kind == "dict" and k == "popitem":
                    if name == "proxy":
                        mop = "del:%d" % r[0]
                    r = None if r is None else tuple(r)
                res[name] = ("ok", r)
            except (IndexError, KeyError, ValueError) as e:
                res[name] = (exc_name(e), None)
            except Exception as e:  # noqa: BLE001
                res[name] = ("other:" + type(e).__name__, str(e)[:80])
        if self.kind == "dict" and k == "popitem" and res["proxy"][0] == "ok" and res["shadow"][0] == "ok":
            # both pop the last inserted key; keep the shadow aligned to whatever the proxy popped
            pass
        outcome = res["proxy"][0]
        if k in ("sls", "dls", "assign"):
            # slice mutation / whole-collection assignment of the list proxy is outside the Lean model: the correspondence
            # covers the prefix of the sequence, the oracle the whole of it
            self.model_frozen = True
        if mop is not None and not self.model_frozen:
            self.model_ops.append(mop)
            self.obs.append(("getter" if outcome == "other:AttributeError" else outcome) + "/" + self.show(before))
        if res["proxy"] != res["shadow"]:
            self.violations.append(("proxy-%s-result" % self.kind, "%s: proxy -> %r, plain %s -> %r" % (json.dumps(op), res["proxy"], self.kind, res["shadow"])))
        elif self.content() != sh:
            self.violations.append(("proxy-%s-content" % self.kind, "%s: proxy holds %r, plain %s holds %r" % (json.dumps(op), self.content(), self.kind, sh)))
        else:
            vals = [m.value for m in self.members()]
            if self.kind == "set" and len(vals) != len(set(vals)):
                self.violations.append(("proxy-set-duplicate-intermediary", "%s: intermediaries %r" % (json.dumps(op), sorted(vals))))
        return outcome

    def finish(self):
        if self.violations:
            return
        import sqlalchemy as sa

        self.sess.commit()
        if self.kind == "list":
            t = self.PChild.__table__
            rows = [r[0] for r in self.sess.execute(sa.select(t.c.value).where(t.c.parent_id == 1).order_by(t.c.id))]
            ok = sorted(rows) == sorted(self.shadow)
            self.sess.expire_all()
            ok2 = sorted(self.parent.values) == sorted(self.shadow)
        elif self.kind == "set":
            t = self.PTag.__table__
            rows = sorted(r[0] for r in self.sess.execute(sa.select(t.c.value).where(t.c.parent_id == 1)))
            ok = rows == sorted(self.shadow)
            self.sess.expire_all()
            ok2 = set(self.parent.tagvalues) == self.shadow
        else:
            t = self.PItem.__table__
            rows = sorted((r[0], r[1]) for r in self.sess.execute(sa.select(t.c.key, t.c.value).where(t.c.parent_id == 1)))
            ok = rows == sorted(self.shadow.items())
            self.sess.expire_all()
            ok2 = dict(self.parent.itemvalues) == self.shadow
        if not ok:
            self.violations.append(("proxy-%s-persisted-rows" % self.kind, "association rows %r, collection %r" % (rows, self.shadow)))
        elif not ok2:
            self.violations.append(("proxy-%s-reloaded" % self.kind, "reloaded proxy %r, collection before commit %r" % (self.content(), self.shadow)))

    def close(self):
        self.sess.rollback()
        self.sess.close()


def slice_in_range(sl, n):
    a, b, c = sl
    return (a is None or 0 <= a <= n) and (b is None or 0 <= b <= n) and (c is None or c >= 1) and (a is None or b is None or a <= b)


def px_gen_op(rng, R, edge):
    kind = R.kind
    sh = R.shadow
    n = len(sh)
    val = lambda: rng.randint(0, 6)  # noqa: E731
    vals = lambda: [val() for _ in range(rng.randint(0, 3))]  # noqa: E731
    if kind == "list":
        idx = lambda: rng.randint(-n - 1, n + 1) if rng.random() < 0.3 or n == 0 else rng.randint(-n, n - 1)  # noqa: E731
        c = rng.choice(["app", "app", "ext", "iadd", "ins", "del", "pop", "set", "rem", "clr", "mul", "sls", "dls", "gsl", "assign"])
        if c == "assign":
            keep = [x for x in sh if rng.random() < 0.6]
            return {"op": "assign", "vs": keep + vals()}
        if c == "app":
            return {"op": "app", "v": val()}
        if c in ("ext", "iadd"):
            return {"op": c, "vs": vals()}
        if c == "ins":
            return {"op": "ins", "i": idx(), "v": val()}
        if c in ("del", "pop"):
            return {"op": c, "i": idx() if rng.random() < 0.7 else -1}
        if c == "set":
            return {"op": "set", "i": idx(), "v": val()}
        if c == "rem":
            return {"op": "rem", "v": rng.choice(sh) if sh and rng.random() < 0.8 else val()}
        if c == "clr":
            return {"op": "clr"} if rng.random() < 0.3 else {"op": "app", "v": val()}
        if c == "mul":
            return {"op": "mul", "n": rng.choice([0, 1, 2, 3, -1, -2])}
        sl = rand_slice(rng, n)
        if c == "sls":
            rs = len(range(*slice(*sl).indices(n)))
            k = rs if ((sl[2] or 1) != 1 and rng.random() < 0.8) else rng.randint(0, 3)
            return {"op": "sls", "sl": sl, "vs": [val() for _ in range(k)]}
        return {"op": c, "sl": sl}
    if kind == "set":
        c = rng.choice(["add", "add", "dis", "rem", "upd", "ior", "dif", "isub", "int", "iand", "sym", "ixor", "clr", "pop", "assign"])
        if c == "assign":
            return {"op": "assign", "vs": sorted({x for x in sh if rng.random() < 0.6} | set(vals()))}
        if c in ("add", "dis", "rem"):
            return {"op": c, "v": rng.choice(sorted(sh)) if sh and rng.random() < 0.5 else val()}
        if c == "clr":
            return {"op": "clr"} if rng.random() < 0.3 else {"op": "add", "v": val()}
        if c == "pop":
            return {"op": "pop"}
        return {"op": c, "vs": vals() + ([rng.choice(sorted(sh))] if sh and rng.random() < 0.5 else [])}
    key = lambda: rng.choice(sorted(sh)) if sh and rng.random() < 0.6 else rng.randint(0, 5)  # noqa: E731
    c = rng.choice(["set", "set", "del", "pop", "popd", "sdf", "upd", "updp", "clr", "popitem", "assign", "assign"])
    if c == "assign":
        # whole-dict assignment: surviving keys with changed AND unchanged values, new keys, dropped keys
        kv = []
        for k0 in sorted(sh):
            r = rng.random()
            if r < 0.4:
                kv.append([k0, (sh[k0] + 1) % 7])
            elif r < 0.7:
                kv.append([k0, sh[k0]])
        for _ in range(rng.randint(0, 2)):
            k1 = rng.randint(0, 5)
            if k1 not in sh and all(k1 != p[0] for p in kv):
                kv.append([k1, val()])
        return {"op": "assign", "kv": kv}
    if c == "set":
        return {"op": "set", "k": key(), "v": val()}
    if c in ("del", "pop"):
        return {"op": c, "k": key()}
    if c == "popd":
        k = key()
        d = rng.choice([None, 7])
        return {"op": "popd", "k": k, "d": d}
    if c == "sdf":
        return {"op": "sdf", "k": key(), "v": val()}
    if c in ("upd", "updp"):
        return {"op": c, "kv": [[rng.randint(0, 5), val()] for _ in range(rng.randint(0, 3))]}
    if c == "clr":
        return {"op": "clr"} if rng.random() < 0.3 else {"op": "set", "k": key(), "v": val()}
    return {"op": "popitem"}


def px_case(rng, stream, maxops):
    return {"part": "px", "kind": rng.choice(["list", "set", "dict"]), "ops": [], "stream": stream, "maxops": rng.randint(3, maxops)}


def px_drive(rng, case):
    R = PXRunner(case)
    while len(case["ops"]) < case["maxops"] and not R.violations:
        op = px_gen_op(rng, R, case["stream"] == "edge")
        case["ops"].append(op)
        R.step(op)
    R.finish()
    return R


def px_replay(case):
    R = PXRunner(case)
    for op in case["ops"]:
        if R.violations:
            break
        R.step(op)
    R.finish()
    return R


def px_line(case, R):
    return "assocproxy %s %s" % (case["kind"], ";".join(R.model_ops) if R.model_ops else "-")


def px_key(R):
    if R.edge_reason is not None:
        return "c50:" + R.edge_reason
    return "c50:" + R.violations[0][0]


# ---------------------------------------------------------------------------------------
WITNESSES = {
    "reverse_counterexample": {"part": "ol", "start": 0, "roa": False, "ops": [{"op": "ext", "es": [0, 1, 2]}, {"op": "rev"}]},
    "append_stale_counterexample": {"part": "ol", "start": 0, "roa": False, "ops": [{"op": "ext", "es": [0, 1, 2]}, {"op": "rem", "e": 0}, {"op": "app", "e": 0}]},
}


def run_case(ctx, case, drive, cases, impl_out, reqs):
    part = case["part"]
    if drive:
        R = (ol_drive if part == "ol" else px_drive)(ctx.rng, case)
    else:
        R = (ol_replay if part == "ol" else px_replay)(case)
    try:
        ctx.case(case, nontrivial=len(case["ops"]) >= 2)
        ctx.count("stream=%s/%s" % (part, case.get("stream")))
        if part == "px":
            ctx.count("proxy=" + case["kind"])
        for o in case["ops"]:
            ctx.count("op=%s:%s" % (part if part == "ol" else case["kind"], o["op"]))
        if R.violations:
            key = ol_key(R) if part == "ol" else px_key(R)
            ctx.violation(key, {k: v for k, v in case.items() if k not in ("stream", "maxops")}, R.violations[0][1])
        if case.get("stream") == "main" and len(case["ops"]) >= 8:
            ctx.sample({"case": case, "final": R.obs[-1] if R.obs else ""}, cap=4)
        cases.append(case)
        impl_out.append("|".join(R.obs) if R.obs else "-")
        reqs.append(ol_line(case, R) if part == "ol" else px_line(case, R))
        return R
    finally:
        R.close()


def run(ctx, deep=False):
    thorough = ctx.tier == "thorough" or deep
    ctx.rule = (
        "operation sequences (3..%d ops) on (a) an ordering_list relationship with count_from in {0,1,5}, reorder_on_append on/off, 9 candidate "
        "elements: append/insert/remove/pop/__setitem__/__delitem__ (ints, out-of-range, slices incl. extended and negative)/extend/+=/clear/"
        "reorder/commit+reload; stale stream adds sort/reverse/append of positioned elements; (b) list/set/dict association "
        "proxies: every mutator with members / non-members / failing arguments, slices on the list proxy (any bounds / steps), *= negative, pop(missing, default); non-trivial = at least 2 operations" % (24 if thorough else 14)
    )
    ctx.trusted.append("Python list/set/dict semantics: normalised slice indices, removed index sets and sort results are inputs of the model; the oracle compares every result with CPython's own collections")
    ctx.trusted.append("SQLite in-memory is the only backend executed (persistence of order / association rows)")
    cases, impl_out, reqs = [], [], []
    n_main = 1500 if thorough else 260
    maxops = 24 if thorough else 14
    for _ in range(n_main):
        run_case(ctx, ol_case(ctx.rng, "main", maxops), True, cases, impl_out, reqs)
    for _ in range(n_main // 3):
        run_case(ctx, ol_case(ctx.rng, "stale", maxops), True, cases, impl_out, reqs)
    for _ in range(n_main):
        run_case(ctx, px_case(ctx.rng, "main", maxops), True, cases, impl_out, reqs)
    for _ in range(n_main // 3):
        run_case(ctx, px_case(ctx.rng, "edge", maxops), True, cases, impl_out, reqs)
    for name, case in WITNESSES.items():
        R = run_case(ctx, dict(case, stream="witness"), False, cases, impl_out, reqs)
        ctx.obligation("witness %s reproduces on the real code" % name, bool(R.violations), "Props.C50.%s predicts a divergence; the real code did not show it" % name)
    if ctx.driver_ok():
        bad = ["orderinglist run 0 0 frob:1", "orderinglist run x 0 -", "assocproxy bag -", "assocproxy set add:x"]
        ctx.correspond("corr/c50:malformed-rejected", [{"line": l} for l in bad], ["bad-op"] * len(bad), ctx.driver(bad))
        ctx.correspond("corr/c50:collections-vs-Model.OrderingList+AssocProxy", cases, impl_out, ctx.driver(reqs))


def search(ctx, broken):
    sub = type(ctx)(ctx.pid, "thorough", ctx.seed + 1, ctx.level)
    run(sub, deep=True)
    ctx.violations.extend(sub.violations)


def replay(ctx, obj):
    case = obj["case"]
    R = (ol_replay if case["part"] == "ol" else px_replay)(case)
    try:
        print("replay C50 %s" % json.dumps(case))
        for mop, o in zip(R.model_ops, R.obs):
            print("   %-30s %s" % (mop, o))
        print("oracle:", R.violations[:1] or "holds")
        return bool(R.violations)
    finally:
        R.close()
