"""C32 — a failed flush leaves the database untouched and the session recoverable.

Part A (object graphs, harness/lib_graph.fault_case): generated transactions over six
  relationship families are executed once without failure and then again with a fault at
  EVERY statement position of their flushes (thorough; a seeded sample in quick), with
  exceptions raised from flush events, and with a genuine IntegrityError (unique violation).
  Direct oracle: the failing commit raises; rollback() succeeds; the database shows exactly
  the rows of the last commit; instances created in the transaction are transient, the
  others persistent with their committed attribute values; the Session holds nothing
  pending; repeating the same work in a new transaction succeeds and produces exactly the
  rows of the failure-free run.
Part B (single-class histories, Model/Sess.lean): the transcribed session machine models
  failing flushes (IntegrityError, StaleDataError, FlushError, ObjectDeletedError), the
  subtransaction rollback, _restore_snapshot, the inactive state and PendingRollbackError;
  histories rich in conflicts are run on the real Session and on the model and compared
  after every operation (outcome, states, session.new/deleted, identity map, transaction
  depth/activity, rows visible to the connection).
Theorems : lean/SaVerif/Props/C32.lean
"""
import json
import os

PID = "C32"
LEVEL = "proof"
LEAN = ["SaVerif.Props.C32"]
META = {
    "text": "Lean (Model/Sess.lean, every session state): the failure path of a flush (_flush except-branch: subtransaction rollback → _restore_snapshot) never changes the committed rows, resets the rows visible to the connection to the transaction boundary (committed rows, or the SAVEPOINT snapshot), empties session.new and session.deleted and leaves the boundary transaction inactive; rollback() of an inactive root transaction ends it. The model is tied to the code by a per-operation differential run over conflict-rich histories; on generated object graphs every statement position of every flush is failed (plus flush-event exceptions and a genuine unique violation) and the database, the object states, the recoverability of the Session and the equality of a rerun with the failure-free run are checked directly.",
    "note": "The theorems cover the model's failure path for every state; that a failing statement aborts the flush at that point is modelled (first failing UPDATE/INSERT/DELETE of the one-table flush) and validated by the correspondence. Part A has no transcribed model (direct oracle only). Where _restore_snapshot itself raises (known finding under C35) the model abstains. Driver errors are simulated by raising from before_cursor_execute.",
    "technique": "Lean 4 theorems about the transcribed flush-failure path + per-operation differential correspondence + fault injection at every statement index of generated flushes on SQLite",
    "design_ref": "DESIGN.md §3 C30–C33 (C32)",
}


EVENTS = ("before_flush", "after_flush", "after_flush_postexec")
MAPPER_EVENTS = ("after_insert", "after_update", "after_delete")
MODES = ("no_rollback", "nested")


def split_fault(fault):
    """(fault tuple for lib_graph.fault_case, no_rollback, nested) of a recorded fault list"""
    f = [x for x in fault if x not in MODES]
    return tuple(f), "no_rollback" in fault, "nested" in fault


# ------------------------------------------------------------------------------ part A
def verdict(o):
    """failures of one fault_case observation (direct oracle)"""
    bad = []
    if o.get("error") is None:
        return bad  # the fault position was never reached
    if o["rollback_error"]:
        bad.append(("rollback-raised", o["rollback_error"]))
    if o["rows_after_rollback"] != o["committed_rows"]:
        diff = {t: (o["rows_after_rollback"][t], o["committed_rows"][t]) for t in o["committed_rows"] if o["rows_after_rollback"][t] != o["committed_rows"][t]}
        bad.append(("rows-differ-from-last-commit", "after the failed transaction + rollback: %s" % diff))
    nt = {l: v for l, v in o["created_states"].items() if v != ["transient"]}
    if nt:
        bad.append(("created-instance-not-transient", "instances added in the failed transaction: %s" % nt))
    sv = {l: v for l, v in o["survivors"].items() if v["state"] != ["persistent"] or v["name"] != l}
    if sv:
        bad.append(("committed-instance-not-restored", "instances of the last commit after rollback: %s" % sv))
    if o["session_new"] or o["session_deleted"] or o["session_dirty"] or o["in_transaction_after_rollback"]:
        bad.append(("session-not-clean-after-rollback", "new=%d deleted=%d dirty=%d in_transaction=%s" % (o["session_new"], o["session_deleted"], o["session_dirty"], o["in_transaction_after_rollback"])))
    if o["rerun_error"]:
        bad.append(("rerun-raised", o["rerun_error"]))
    elif o["rerun_rows"] != o["ref_rows"]:
        diff = {t: (o["rerun_rows"][t], o["ref_rows"][t]) for t in o["ref_rows"] if o["rerun_rows"][t] != o["ref_rows"][t]}
        bad.append(("rerun-differs-from-failure-free-run", "%s" % diff))
    return bad


def inserted_and_deleted(setup, work):
    """does the transaction under test delete (directly, by cascade or as an orphan) an
    instance it created itself?  (root cause of finding C35 instance-ends-transient-but-
    logged-events-end-in-detached: _detach_states(to_transient) leaves _deleted set; the
    snapshot restoration of a failed flush then trips over it)"""
    from harness import lib_graph as G

    W = G.World()
    for rd in setup:
        W.begin_round()
        for m in rd["muts"]:
            if m[0] not in ("poison", "flush"):
                G._world_only(W, tuple(m))
    before = set(W.objs)
    renamed = {}
    W.begin_round()
    for m in work:
        if m[0] in ("poison", "flush"):
            continue
        had = set(W.objs)
        if m[0] == "rename" and m[1] not in before and m[1] in W.objs:
            renamed[m[2]] = True
        G._world_only(W, tuple(m))
        gone = had - set(W.objs)
        if m[0] == "rename":
            if m[1] in before:
                before.discard(m[1])
                before.add(m[2])
            continue
        if any(l not in before for l in gone):
            return True
    return False


def rekeyed_created(setup, work):
    """labels of the instances the transaction under test creates AND whose primary key
    it changes (root cause of finding C35 instance-ends-detached...: _restore_snapshot puts the
    old key back on an instance it has just expunged to transient)"""
    created, out = set(), set()
    for m in work:
        if m[0] == "new":
            created.add(m[2])
        elif m[0] == "rename":
            for st in (created, out):
                if m[1] in st:
                    st.add(m[2])  # every name the instance carries (the failure may come before the rename)
        elif m[0] == "setkey" and m[1] in created:
            out.add(m[1])
    return out


def cause_suffix(setup, work, o):
    """the part of a part-A key that names the triggering situation in the input"""
    bad = verdict(o)
    if bad and bad[0][0] == "created-instance-not-transient":
        nt = {l for l, v in o["created_states"].items() if v != ["transient"]}
        if nt and nt <= rekeyed_created(setup, work):
            return "-after-primary-key-change-of-an-instance-inserted-in-the-failed-transaction"
    return "-after-instance-inserted-and-deleted-in-the-failed-transaction" if inserted_and_deleted(setup, work) else ""


def _worker(job):
    import random

    from harness import lib_graph as G

    seedstr, n, all_positions = job
    rng = random.Random(seedstr)
    out = []
    for _ in range(n):
        prof = rng.choice(["mixed", "o2m", "tree", "m2m", "cycle", "inherit", "oneway", "graph", "unit", "peer", "owner", "composite", "chain"])
        setup, work = G.gen_fault_case(rng, prof)
        try:
            ref = G.fault_case(setup, work, ("dml", 10 ** 9))
        except Exception:  # noqa: BLE001 - the failure-free run itself fails: a case for C30, not for this part
            continue
        nd = ref["ref_ndml"]
        faults = []
        if nd:
            ks = list(range(nd)) if all_positions else sorted(rng.sample(range(nd), min(nd, 2)))
            faults += [("dml", k) for k in ks]
        faults.append(("event", rng.choice(EVENTS), rng.randint(0, 1)))
        # between two statements of a flush; and faults that are no Exception (KeyboardInterrupt class)
        faults.append(("mapper", rng.choice(MAPPER_EVENTS), rng.randint(0, 2)))
        faults.append(("mapper", rng.choice(MAPPER_EVENTS), rng.randint(0, 2), "base"))
        faults.append(("event", rng.choice(EVENTS[1:]), rng.randint(0, 1), "base"))
        if rng.random() < 0.5:
            kinds = sorted({m[1] for m in work if m[0] == "new"})
            taken = [m[2] for rd in setup for m in rd["muts"] if m[0] == "new"]
            if taken:
                nm = rng.choice(taken)
                kind = next(m[1] for rd in setup for m in rd["muts"] if m[0] == "new" and m[2] == nm)
                pos = rng.randint(0, len(work))
                faults.append(("poison", pos, kind, nm))
        for f in faults:
            w = work
            ff = f
            if f[0] == "poison":
                w = work[: f[1]] + [["poison", f[2], f[3]]] + work[f[1]:]
                ff = ("poison",)
            # how the application reacts: rollback() (default), going on with commit() without a
            # rollback, or - the work running in a SAVEPOINT, flushed after every step - rolling
            # back the SAVEPOINT only
            mode = rng.choice(["", "", "no_rollback", "nested"]) if ff[0] != "poison" else ""
            if "base" in ff and mode == "":
                mode = "no_rollback"
            if ff[0] == "event" and ff[1] == "before_flush" and mode == "no_rollback":
                mode = ""  # raised before the flush did anything: the session is not failed, commit() may go on
            try:
                o = G.fault_case(setup, w, ff, no_rollback=mode == "no_rollback", nested=mode == "nested")
            except RuntimeError:
                continue
            out.append((prof, setup, w, list(ff) + ([mode] if mode else []), nd, o.get("error"), verdict(o), cause_suffix(setup, w, o)))
    return out


def run_part_a(ctx, deep=False):
    import multiprocessing as mp

    thorough = ctx.tier == "thorough" or deep
    jobs = [("C32:%d:%d:%s" % (ctx.seed, c, "deep" if deep else ctx.tier), 60 if thorough else 32, thorough) for c in range(24 if thorough else 8)]
    procs = int(os.environ.get("VERIF_PROCS", "6"))
    with mp.get_context("fork").Pool(min(procs, len(jobs))) as pool:
        res = pool.map(_worker, jobs, chunksize=1)
    for chunk in res:
        for prof, setup, work, fault, nd, err, bad, insdel in chunk:
            ctx.case((setup, work, fault), nontrivial=err is not None)
            ctx.count("A:profile=" + prof)
            ctx.count("A:fault=" + fault[0] + ("" if fault[0] not in ("event", "mapper") else ":" + fault[1]) + (":BaseException" if "base" in fault else ""))
            ctx.count("A:reaction=" + ("commit-without-rollback" if "no_rollback" in fault else "savepoint-rollback" if "nested" in fault else "rollback"))
            ctx.count("A:outcome=" + (err or "fault-position-not-reached"))
            ctx.count("A:flush-statements=%s" % ("1-3" if nd < 4 else "4-9" if nd < 10 else "10+"))
            if bad:
                key = "c32-A:" + bad[0][0] + insdel
                ctx.count("oracle:" + key)
                ctx.violation(key, {"part": "A", "setup": setup, "work": work, "fault": fault}, "; ".join("%s: %s" % b for b in bad)[:900])
            elif err and len(ctx.samples) < 4:
                ctx.sample({"part": "A", "work": work, "fault": fault, "raised": err})


# ------------------------------------------------------------------------------ part B
def jobs_b(ctx, deep=False):
    thorough = ctx.tier == "thorough" or deep
    jobs = []
    for c in range(20 if thorough else 6):
        prof = ["conflict", "savepoint", "nested", "conflict", "savepoint", "uniform"][c % 6]
        jobs.append(("random", "C32:%d:%d:%s" % (ctx.seed, c, "deep" if deep else ctx.tier), 700 if thorough else 260, prof, 6, 24 if thorough else 16, 0.75))
    for c in range(8 if thorough else 2):
        jobs.append(("savepoint", "C32sp:%d:%d:%s" % (ctx.seed, c, "deep" if deep else ctx.tier), 500 if thorough else 220, 0.75))
    return jobs


def evaluate_b(ctx, cases, label):
    from harness import lib_uow_check as K

    K.evaluate(ctx, cases, label, "c32")


def corpus(ctx):
    """the known findings are replayed first"""
    from harness import lib_graph as G

    fn = os.path.join(os.path.dirname(os.path.dirname(os.path.dirname(os.path.abspath(__file__)))), "known_findings.d", "C32.json")
    if not os.path.exists(fn):
        return
    for e in json.load(open(fn))["findings"]:
        c = e.get("replay") or {}
        if c.get("part") != "A":
            continue
        ff, nr, ne = split_fault(c["fault"])
        o = G.fault_case(c["setup"], c["work"], ff, raw=bool(c.get("raw")), no_rollback=nr, nested=ne)
        bad = verdict(o)
        ctx.case(("corpus", c["work"], c["fault"]))
        if bad:
            key = "c32-A:" + bad[0][0] + cause_suffix(c["setup"], c["work"], o)
            if c.get("raw"):
                key = e["key"]  # a replay without the application discipline stands for its own finding
            ctx.count("oracle:" + key)
            ctx.violation(key, c, "; ".join("%s: %s" % b for b in bad)[:900])


def run(ctx, deep=False):
    from harness import lib_uow_gen as G

    ctx.rule = (
        "part A: generated transactions over sixteen relationship families (harness/lib_graph.py) (0-2 committed setup rounds, then 3-8 mutations), failed at 2 seeded "
        "(quick) / all (thorough) statement positions of their flushes, by flush-event and mapper-event exceptions (between statements), by the "
        "same raised as a BaseException that is no Exception, and (half of them) by a unique violation; the application reacts with rollback(), "
        "with commit() without a rollback (must be refused or commit nothing of the failed work), or - the work running inside a SAVEPOINT "
        "with a flush after every step - by rolling back the SAVEPOINT only; "
        "part B: seeded random single-class histories (conflicting primary keys, phantom rows, pk changes, savepoints) and structured "
        "SAVEPOINT histories (2-5 flushes per SAVEPOINT touching the same instances: update, delete, re-add, then rollback / release / "
        "failing flush) compared with the model after every operation (now incl. the expired flag); non-trivial = the fault fired (A) / a lifecycle event fired (B)"
    )
    ctx.trusted.append("driver errors are simulated by raising from the before_cursor_execute event instead of executing the statement")
    ctx.trusted.append("harness/lib_graph.py World (intended graph) for the rerun comparison; SQLite foreign_keys=ON")
    ctx.assumptions.append("part A histories follow the discipline of harness/lib_graph.py; part B: one Session, one mapper, one integer primary key")
    corpus(ctx)
    run_part_a(ctx, deep)
    cases = G.run_jobs(jobs_b(ctx, deep), int(os.environ.get("VERIF_PROCS", "6")))
    evaluate_b(ctx, cases, "generated")


def search(ctx, broken):
    from harness import lib_uow_check as K
    from harness import lib_uow_gen as G

    sub = type(ctx)(ctx.pid, "thorough", ctx.seed + 1, ctx.level)
    sub.broken = list(ctx.broken)
    fixed = K.probe_cases(ctx)
    if fixed:
        evaluate_b(sub, [G.compact(G.run_fixed(e, o)) for e, o in fixed], "search-probes")
    if not sub.violations:
        run(sub, deep=True)
    K.disagreement_violations(ctx, sub, "c32")
    ctx.violations.extend(sub.violations)


def replay(ctx, obj):
    c = obj["case"]
    if c.get("part") == "A":
        from harness import lib_graph as G

        ff, nr, ne = split_fault(c["fault"])
        o = G.fault_case(c["setup"], c["work"], ff, raw=bool(c.get("raw")), no_rollback=nr, nested=ne)
        bad = verdict(o)
        print("replay C32/A work=%s fault=%s raised=%s" % (c["work"], c["fault"], o.get("error")))
        for b in bad:
            print("   ", b)
        return bool(bad)
    from harness import lib_uow_check as K
    from harness import lib_uow_oracle as O

    return K.replay(ctx, obj, "c32", O.check_case_c32)
