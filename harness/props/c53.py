"""C53 — horizontal sharding routes reads and writes per the shard choosers.

Model: lean/SaVerif/Model/Shard.lean (ShardedSession: shard chooser applied at flush,
identity key with the shard token, execute chooser → per-shard SELECTs merged in order,
identity chooser order for token-less get).  Theorems: lean/SaVerif/Props/C53.lean.

Real side: a real ShardedSession over 2-3 SQLite *files*; the chooser functions are
generated per case: shard_chooser = table region → shard, identity_chooser = a
permutation of the shards, execute_chooser = the shard list the query carries (default
all shards).

Direct oracle (independent of the model): the harness keeps one dict per shard.  After
every flush each database file (read with sqlite3 directly) must equal its dict — every
pending object landed in exactly the shard its chooser names, every update / delete hit
the shard of the object's token and no other; every query must return exactly the
matching rows of the chosen shards, in chooser order; two objects with one primary key
from different shards must be different Python objects whose values change
independently.
"""
import os
import shutil
import sqlite3
import tempfile
import warnings

PID = "C53"
LEVEL = "proof"
LEAN = ["SaVerif.Props.C53"]
META = {
    "text": "Lean theorems over the sharded-session model for ALL chooser functions, shard counts, data and pending lists: flush inserts every pending object into the shard its chooser names and into no other (flush_routes_to_chosen_shard, by induction over session.new), updates and deletes touch only the shard of the object's identity token (update_routes_by_token); a query returns (pk, shard) exactly when the shard is among the chosen ones and the row matches there (query_union_of_chosen_shards, induction over the shard list); objects with one primary key and different shard tokens are separate identity-map entries that change independently (same_pk_distinct_across_shards). Tied to ext/horizontal_shard.py by a differential run on a real ShardedSession over several SQLite files with generated chooser functions; every shard file is compared with an independent per-shard dict after each flush.",
    "note": "Trusted: Lean kernel; correspondence; SQLite files as shards. Chooser functions are drawn from a family (table lookups / permutations / explicit shard lists); set_shard_id option, bulk UPDATE/DELETE and lazy loaders across shards are not exercised. autoflush off.",
    "technique": "Lean 4 proofs (induction over pending list and shard list) + differential correspondence over multiple SQLite databases + per-shard reference dicts",
    "design_ref": "DESIGN.md §3 C53",
}

NSH_MAX = 3
_W = None
_TMP = None


def _tmpdir():
    global _TMP
    if _TMP is None:
        base = "/dev/shm" if os.path.isdir("/dev/shm") else None
        _TMP = tempfile.mkdtemp(prefix="verif-c53-", dir=base)
        import atexit

        atexit.register(shutil.rmtree, _TMP, True)
    return _TMP


class World:
    def __init__(self):
        import sqlalchemy as sa
        from sqlalchemy.orm import declarative_base

        self.sa = sa
        self.files = [os.path.join(_tmpdir(), "shard%d.db" % i) for i in range(NSH_MAX)]
        self.engines = [sa.create_engine("sqlite:///" + f) for f in self.files]
        Base = declarative_base()
        from harness.lib_orm2 import odd_mixin

        class T(odd_mixin("id", "region", "val"), Base):
            __tablename__ = "t"
            id = sa.Column(sa.Integer, primary_key=True, autoincrement=False)
            region = sa.Column(sa.Integer)
            val = sa.Column(sa.Integer)

        self.T = T
        for e in self.engines:
            Base.metadata.drop_all(e)
            Base.metadata.create_all(e)

    def reset(self):
        for e in self.engines:
            with e.begin() as c:
                c.exec_driver_sql("delete from t")

    def raw(self, i):
        con = sqlite3.connect(self.files[i])
        try:
            return {r[0]: (r[1], r[2]) for r in con.execute("select id, region, val from t")}
        finally:
            con.close()


def world():
    global _W
    if _W is None:
        _W = World()
    return _W


def apply_intents(truth, intents, table):
    """updates, then deletes, then inserts: a delete + add of one identity is a row switch"""
    for kind in ("set", "setr", "del", "add"):
        for it in intents:
            if it[0] != kind:
                continue
            if kind == "setr":
                # the object stays in the shard of its identity token
                if it[1] in truth[it[2]]:
                    truth[it[2]][it[1]][0] = it[3]
            elif kind == "add":
                truth[table[it[2]]][it[1]] = [it[2], it[3]]
            elif kind == "set":
                if it[1] in truth[it[2]]:
                    truth[it[2]][it[1]][1] = it[3]
            else:
                truth[it[2]].pop(it[1], None)


def run_history(case):
    import traceback

    try:
        return _run_history(case)
    except Exception as e:
        tb = traceback.extract_tb(e.__traceback__)
        where = ["%s:%d" % (os.path.basename(f.filename), f.lineno) for f in tb if "sqlalchemy" in f.filename][-3:]
        return "crash:" + type(e).__name__, [("unexpected-exception", "%s: %s at %s" % (type(e).__name__, str(e)[:200], where))]


def _run_history(case):
    import sqlalchemy as sa
    from sqlalchemy import inspect
    from sqlalchemy.exc import IntegrityError
    from sqlalchemy.ext.horizontal_shard import ShardedSession
    from sqlalchemy.orm.exc import MultipleResultsFound

    w = world()
    w.reset()
    T = w.T
    n, ns, table, order, ops = case["n"], case["ns"], case["table"], case["order"], case["ops"]
    names = ["s%d" % i for i in range(ns)]

    def shard_chooser(mapper, instance, clause=None):
        return names[table[instance.region]]

    def identity_chooser(mapper, primary_key, *, lazy_loaded_from, execution_options, bind_arguments, **kw):
        return [names[i] for i in order]

    def execute_chooser(ctx):
        q = ctx.execution_options.get("qshards")
        return [names[i] for i in (q if q is not None else range(ns))]

    sess = ShardedSession(
        shard_chooser=shard_chooser,
        identity_chooser=identity_chooser,
        execute_chooser=execute_chooser,
        shards={names[i]: w.engines[i] for i in range(ns)},
        autoflush=False,
        expire_on_commit=False,
    )
    keep = []
    pend = {}
    outs, problems = [], []
    truth = [dict() for _ in range(ns)]  # per shard: pk -> [region, val], as flushed
    intents = []  # pending writes: ("add", pk, region, val) | ("set", pk, s, v) | ("del", pk, s)
    integrity = False

    def ident(pk, s):
        return sess.identity_map.get(inspect(T).identity_key_from_primary_key((pk,), identity_token=names[s]))

    def tok(o):
        return names.index(inspect(o).identity_token)

    try:
        with warnings.catch_warnings():
            warnings.simplefilter("ignore")
            for op in ops:
                kind = op[0]
                if kind == "add":
                    pk = op[1]
                    if pk in pend:
                        outs.append("-")
                        continue
                    o = T(id=pk, region=op[2], val=op[3])
                    sess.add(o)
                    keep.append(o)
                    pend[pk] = o
                    intents.append(("add", pk, op[2], op[3]))
                    outs.append("d")
                elif kind in ("set", "del", "setr"):
                    pk, s = op[1], op[2]
                    o = ident(pk, s)
                    if o is None or o in sess.deleted:
                        outs.append("-")
                        continue
                    if kind == "set":
                        o.val = op[3]
                        intents.append(("set", pk, s, op[3]))
                    elif kind == "setr":
                        o.region = op[3]
                        intents.append(("setr", pk, s, op[3]))
                    else:
                        sess.delete(o)
                        intents.append(("del", pk, s))
                    outs.append("d")
                elif kind == "mrg":
                    pk, s, v = op[1], op[2], op[3]
                    o = ident(pk, s)
                    if o is None or o in sess.deleted or pk not in truth[s]:
                        outs.append("-")
                        continue
                    sess.expunge(o)          # detached, still carrying the key (cls, pk, token s)
                    o.val = v
                    src_key = inspect(o).key
                    m = sess.merge(o)
                    keep.append(m)
                    intents.append(("set", pk, s, v))
                    if "region" in o.__dict__ and o.__dict__["region"] != truth[s][pk][0]:
                        intents.append(("setr", pk, s, o.__dict__["region"]))
                    outs.append("d")
                    if inspect(m).key != src_key:
                        problems.append(("merge-crossed-shards", "detached object of shard %d merged onto the instance with key %s" % (s, inspect(m).key[1:])))
                    if m is o:
                        problems.append(("merge-returned-source", "pk %d" % pk))
                elif kind == "flush":
                    try:
                        sess.flush()
                        sess.commit()
                    except IntegrityError:
                        sess.rollback()
                        outs.append("integrity")
                        integrity = True
                        # justified only if some pending add collides inside its own shard
                        coll = False
                        seen = [set(t) for t in truth]
                        for it in intents:
                            if it[0] == "add":
                                s = table[it[2]]
                                if it[1] in seen[s] and not any(d[0] == "del" and d[1] == it[1] and d[2] == s for d in intents):
                                    coll = True
                                seen[s].add(it[1])
                        if not coll:
                            problems.append(("unjustified-integrity-error", "pending %s, shards %s" % (intents, truth)))
                        for i in range(ns):
                            if w.raw(i) != {k: tuple(v) for k, v in truth[i].items()}:
                                problems.append(("failed-flush-changed-shard", "shard %d: %s, expected %s" % (i, w.raw(i), truth[i])))
                        break
                    apply_intents(truth, intents, table)
                    intents = []
                    pend.clear()
                    outs.append("d")
                    for i in range(ns):
                        got = w.raw(i)
                        if got != {k: tuple(v) for k, v in truth[i].items()}:
                            problems.append(("shard-content-differs", "after flush shard %d holds %s, the choosers say %s" % (i, got, truth[i])))
                elif kind == "q":
                    filt, sh = op[1], op[2]
                    stmt = sa.select(T).order_by(T.id)
                    if filt[0] == "r":
                        stmt = stmt.where(T.region == filt[1])
                    elif filt[0] == "v":
                        stmt = stmt.where(T.val == filt[1])
                    if sh is not None:
                        stmt = stmt.execution_options(qshards=list(sh))
                    objs = sess.execute(stmt).scalars().all()
                    keep.extend(objs)
                    got = [(o.id, tok(o), o.val) for o in objs]
                    outs.append("[" + " ".join("%d@%d=%s" % x for x in got) + "]")
                    # ---- oracle: union of the chosen shards, in chooser order, rows as flushed
                    exp = []
                    for s in (sh if sh is not None else range(ns)):
                        for pk in sorted(truth[s]):
                            r = truth[s][pk]
                            if filt[0] == "all" or (filt[0] == "r" and r[0] == filt[1]) or (filt[0] == "v" and r[1] == filt[1]):
                                exp.append((pk, s))
                    if [(a, b) for a, b, _ in got] != exp:
                        problems.append(("query-not-union-of-chosen-shards", "%s returned %s, shards hold %s -> %s" % (op, got, truth, exp)))
                    byid = {}
                    for o in objs:
                        k = (o.id, tok(o))
                        if byid.setdefault(k, o) is not o:
                            problems.append(("two-objects-one-identity", str(k)))
                    ids = {}
                    for o in objs:
                        ids.setdefault(o.id, []).append(o)
                    for pk, lst in ids.items():
                        if len({id(x) for x in lst}) != len({tok(x) for x in lst}):
                            problems.append(("same-pk-different-shards-not-distinct", "pk %d" % pk))
                elif kind == "get":
                    pk, t = op[1], op[2]
                    try:
                        o = sess.get(T, pk, identity_token=names[t]) if t is not None else sess.get(T, pk)
                    except MultipleResultsFound:
                        outs.append("multiple")
                        if sum(1 for s in range(ns) if pk in truth[s]) < 2:
                            problems.append(("unjustified-multiple-results", "pk %d shards %s" % (pk, truth)))
                        continue
                    if o is None:
                        outs.append("None")
                        if t is not None and pk in truth[t] and not any(i[0] == "del" and i[1] == pk and i[2] == t for i in intents):
                            problems.append(("get-missed-row", "pk %d shard %d" % (pk, t)))
                    else:
                        keep.append(o)
                        outs.append("o%d@%d=%s" % (o.id, tok(o), o.val))
                        if t is not None and tok(o) != t:
                            problems.append(("get-wrong-shard", "asked shard %d, got %d" % (t, tok(o))))
                else:
                    raise ValueError(op)
            final = ""
            if not integrity:
                try:
                    sess.flush()
                    sess.commit()
                    apply_intents(truth, intents, table)
                    shards_now = [w.raw(i) for i in range(ns)]
                    for i in range(ns):
                        if shards_now[i] != {k: tuple(v) for k, v in truth[i].items()}:
                            problems.append(("shard-content-differs", "final flush: shard %d holds %s, the choosers say %s" % (i, shards_now[i], truth[i])))
                    final = " ".join("s%d{%s}" % (i, " ".join("%d=%d/%s" % (k, d[k][0], d[k][1]) for k in sorted(d))) for i, d in enumerate(shards_now))
                except IntegrityError:
                    sess.rollback()
                    outs.append("integrity")
                    integrity = True
    finally:
        try:
            sess.close()
        except Exception:
            pass
    return ";".join(outs) + " | " + final, problems


# ---------------------------------------------------------------------- encoding
def enc_op(op):
    k = op[0]
    if k == "q":
        f = op[1]
        fs = "all" if f[0] == "all" else "%s%d" % (f[0], f[1])
        return "q:%s:%s" % (fs, "*" if op[2] is None else "+".join(str(x) for x in op[2]))
    if k == "get":
        return "get:%d:%s" % (op[1], "N" if op[2] is None else op[2])
    return ":".join(str(x) for x in op)


def request(case):
    ops = list(case["ops"])
    return "shard run %d %d %s %s %s" % (case["n"], case["ns"], ",".join(str(x) for x in case["table"]), ",".join(str(x) for x in case["order"]),
                                        ",".join(enc_op(o) for o in ops) or "-")


def canon(line):
    """the model appends the final flush silently; the harness may report a final integrity error"""
    return line


# ---------------------------------------------------------------------- generators
def gen_random(rng, tier):
    ns = rng.choice([2, 2, 3])
    n = rng.choice([2, 3, 4])
    nreg = rng.choice([2, 3, 4])
    table = [rng.randrange(ns) for _ in range(nreg)]
    order = list(range(ns))
    rng.shuffle(order)
    ops = []
    for _ in range(rng.randint(5, 14 if tier == "quick" else 26)):
        r = rng.random()
        pk = rng.randrange(n)
        s = rng.randrange(ns)
        if r < 0.25:
            ops.append(("add", pk, rng.randrange(nreg), rng.randint(0, 5)))
        elif r < 0.40:
            ops.append(("flush",))
        elif r < 0.48:
            ops.append(("set", pk, s, rng.randint(6, 9)))
        elif r < 0.52:
            ops.append(("setr", pk, s, rng.randrange(nreg)))
        elif r < 0.55:
            ops.append(("del", pk, s))
        elif r < 0.62:
            ops.append(("mrg", pk, s, rng.randint(10, 15)))
        elif r < 0.84:
            f = rng.choice([("all",), ("r", rng.randrange(nreg)), ("v", rng.randint(0, 9))])
            sh = None
            if rng.random() < 0.5:
                sh = rng.sample(range(ns), rng.randint(1, ns))
            ops.append(("q", f, sh))
        else:
            ops.append(("get", pk, rng.choice([None, s])))
    ops.append(("q", ("all",), None))
    return {"n": n, "ns": ns, "table": table, "order": order, "ops": ops, "src": "random"}


def small_scope():
    import itertools

    alpha = [("add", 0, 0, 1), ("add", 0, 1, 2), ("add", 1, 1, 3), ("flush",), ("set", 0, 0, 7), ("set", 0, 1, 8), ("setr", 0, 0, 1), ("mrg", 0, 1, 11), ("mrg", 0, 0, 12), ("del", 0, 1),
             ("q", ("all",), None), ("q", ("all",), [1]), ("q", ("all",), [1, 0]), ("get", 0, None), ("get", 0, 1)]
    for order in ([0, 1], [1, 0]):
        for seq in itertools.product(alpha, repeat=3):
            yield {"n": 2, "ns": 2, "table": [0, 1], "order": order,
                   "ops": [("add", 0, 0, 1), ("add", 1, 0, 1), ("flush",), ("add", 0, 1, 2), ("flush",), ("q", ("all",), None)] + list(seq) + [("q", ("all",), None)],
                   "src": "small"}


def gen_cases(ctx, deep=False):
    thorough = ctx.tier == "thorough" or deep
    for _ in range(6000 if thorough else 1000):
        yield gen_random(ctx.rng, ctx.tier)
    for case in small_scope():
        if thorough or ctx.rng.random() < 0.1:
            yield case


def jsonable(case):
    import json

    return json.loads(json.dumps(case))


def unjson(c):
    ops = []
    for o in c["ops"]:
        o = list(o)
        if o[0] == "q":
            o[1] = tuple(o[1])
        ops.append(tuple(o))
    return dict(c, ops=ops)


def _budget_exhausted(ctx, t0, n):
    """a broken tree can make every history slow (leaks, lock waits): stop generating in time
    and judge what was run"""
    import time

    limit = 70 if ctx.tier == "quick" else 650
    if time.time() - t0 > limit:
        ctx.assumptions.append("time budget reached after %d cases; remaining generated cases not run" % n)
        return True
    return False


def run(ctx, deep=False):
    ctx.rule = (
        "histories of add (pending object with a region) / set / delete / flush / query [filter] [explicit shard list] / get [token] on a real "
        "ShardedSession over 2-3 SQLite files with generated chooser functions (region->shard table, identity search order, per-query shard list); "
        "random (seeded) + all 3-op sequences over a 14-letter alphabet x 2 identity orders after a prefix that puts one pk into both shards (10% quick, "
        "all thorough); non-trivial = at least one flush wrote a row"
    )
    import time

    t0 = time.time()
    cases, impl_out, reqs = [], [], []
    for case in gen_cases(ctx, deep):
        if _budget_exhausted(ctx, t0, len(cases)):
            break
        line, problems = run_history(case)
        jc = jsonable(case)
        ctx.case(jc, nontrivial=("=" in line.split("|")[-1]))
        ctx.count("src=" + case["src"])
        ctx.count("nshards=%d" % case["ns"])
        for tag in ("integrity", "multiple"):
            if tag in line:
                ctx.count("outcome-seen=" + tag)
        for key, detail in problems:
            ctx.violation(key, jc, detail)
        cases.append(jc)
        impl_out.append(line)
        reqs.append(request(case))
        if len(ctx.violations) >= 25:
            break
        if len(ctx.samples) < 3:
            ctx.sample({"case": jc, "impl": line})
    if ctx.driver_ok():
        ctx.correspond("corr/c53:ShardedSession-vs-Model.Shard", cases, impl_out, ctx.driver(reqs))
        bad = ["shard run 2 2 0,5 0,1 -", "shard run 2 2 0,1 0,1 get:0:4", "shard run 2 0 - - -", "shard run 2 2 0,1 0,1 q:zz:*"]
        ctx.correspond("corr/c53:malformed-rejected", [{"req": b} for b in bad], ["bad-op"] * len(bad), ctx.driver(bad))


def search(ctx, broken):
    for d in ctx.disagreements:
        c = d.get("case")
        if isinstance(c, dict) and "ops" in c:
            _, problems = run_history(unjson(c))
            for key, detail in problems:
                ctx.violation(key, c, detail)
    if ctx.violations:
        return
    sub = type(ctx)(ctx.pid, "thorough", ctx.seed + 1, ctx.level)
    run(sub, deep=True)
    ctx.violations.extend(sub.violations)


def replay(ctx, obj):
    case = unjson(obj["case"])
    line, problems = run_history(case)
    print("replay C53 %s\n  impl: %s\n  oracle: %s" % (request(case), line, problems))
    return bool(problems)
