"""C40 — loader strategies change how data is loaded, never what is loaded.

Model:    lean/SaVerif/Model/Loader.lean (relational meaning of the lazy / immediate /
          joined / subquery / selectin plans, row-to-graph assembly, the nest decision)
Theorems: lean/SaVerif/Props/C40.lean

Each case builds a mapping A -< B -< C, B -> A, A >-< Tag on SQLite with random data, a
primary ORM query (filter / total ORDER BY / LIMIT / OFFSET / DISTINCT / join+distinct,
select() or legacy Query, optional yield_per) and assigns a loader strategy to every
relationship path plus column options (defer / undefer / load_only).  The object graph
of every assignment is compared with the all-lazy baseline (collection order included
where the relationship has an ORDER BY), the A.bs level is compared with the Lean model's
graph for that strategy, and the emitted SQL shape (statement count, subquery wrap, IN
chunk sizes) with the model's plan.
"""
import random
import re

PID = "C40"
LEVEL = "translation_validation"
LEAN = ["SaVerif.Props.C40"]
META = {
    "text": "Lean theorems about the relational meaning of the loader plans (not about strategies.py itself): for every primary result with distinct keys, every child table, every relationship ordering that commutes with filtering (instance: stable insertion sort, sortByK_filter_comm) and every positive IN chunk size, joined (LEFT OUTER JOIN rows + identity de-duplication + append in row order), subquery (primary query as subquery JOIN child) and selectin (IN chunks) build exactly the lazily loaded graph - same parents, collection contents and order (strategies_agree, selectin_eq_lazy, subquery_eq_lazy, joined_eq_lazy, joined_wrapped_limit); without the subquery wrap LIMIT truncates collections (joined_limit_wrap_needed, proved counterexample); many-to-one IN loading equals per-row lookup (m2o_selectin_eq_lazy); selectin statement count = ceil(n/chunk). The nest decision is transcribed (shouldNest) and compared with what the property needs (nestNeeded): equal for every flag combination incl. fetch() (should_nest_complete; the rule before fix 63056e6 missed fetch() alone: should_nest_misses_fetch, F23, now fixed). The ORM is tied to this by translation validation on SQLite: generated mappings (single-table polymorphic B/BSub targets, a query_expression attribute), data, queries (LIMIT / OFFSET / FETCH each alone and combined, DISTINCT, join+distinct, select() and legacy Query slicing) and every assignment of loader strategies along A.bs / B.cs / C.ds (three levels) / B.a / A.tags plus column options, with_expression and an untriggered raiseload; a second mapping with a composite primary key (x, y) whose ForeignKeyConstraint / table columns / primary-key columns are declared in shuffled orders, with mirrored key pairs, under every strategy for one-to-many, many-to-many and many-to-one (fk_cols_independent_of_declaration_order proved on the model); object-graph snapshots are compared with the all-lazy baseline and with the model's graph, and statement counts / wrap presence / IN chunk sizes with the model's plan.",
    "note": "translation_validation: the theorems are about the relational model of each plan; that strategies.py / context.py / loading.py emit and assemble those plans is only checked by execution on SQLite. Relationships without ORDER BY are compared as multisets. yield_per is exercised only with strategies that permit it; noload is excluded by the property; joined-table inheritance targets are C42's. FETCH is executed on SQLite by rewriting `[OFFSET ? ROWS] FETCH FIRST ? ROWS ONLY` to `LIMIT` in a cursor event. Known finding F24 (AssertionError reading an unset query_expression after load_only + subqueryload + eager backref). F23 (joined eager collection + fetch() alone not wrapped) and F25 (subqueryload + fetch() alone: embedded query loses its ORDER BY) were found here and are fixed in /repo (63056e6, a88c250); their keys are still computed so that a regression reports as a violation.",
    "technique": "Lean 4 proofs about list-relational query plans + differential execution of all loader-strategy assignments on SQLite",
    "design_ref": "DESIGN.md §3 C40, C41, C42",
}

COLL = ("lazy", "joined", "subquery", "selectin", "immediate")
REF = ("lazy", "joined", "selectin", "immediate")


# ---------------------------------------------------------------------------- mapping + data
def build(case):
    import sqlalchemy as sa
    from sqlalchemy import Column, ForeignKey, Integer, Table
    from sqlalchemy.orm import declarative_base, query_expression, relationship

    rng = random.Random(case["seed"])
    Base = declarative_base()
    ordered = case["ordered"]

    atag = Table("atag", Base.metadata, Column("a_id", ForeignKey("a.id"), primary_key=True), Column("t_id", ForeignKey("tag.id"), primary_key=True))

    class Tag(Base):
        __tablename__ = "tag"
        id = Column(Integer, primary_key=True)
        w = Column(Integer)

    class A(Base):
        __tablename__ = "a"
        id = Column(Integer, primary_key=True)
        x = Column(Integer)
        y = Column(Integer)
        bs = relationship("B", back_populates="a", order_by=("B.k, B.id" if ordered else None))
        tags = relationship("Tag", secondary=atag, order_by=("Tag.w.desc(), Tag.id" if ordered else None))
        expr = query_expression()

    class B(Base):
        __tablename__ = "b"
        id = Column(Integer, primary_key=True)
        a_id = Column(ForeignKey("a.id"))
        k = Column(Integer)
        kind = Column(sa.String(4))  # single-table inheritance discriminator
        extra = Column(Integer)      # attribute of the subclass only
        a = relationship("A", back_populates="bs")
        cs = relationship("C", order_by=("C.id.desc()" if ordered else None))
        __mapper_args__ = {"polymorphic_on": kind, "polymorphic_identity": "b"}

    class BSub(B):
        __mapper_args__ = {"polymorphic_identity": "bs"}

    class C(Base):
        __tablename__ = "c"
        id = Column(Integer, primary_key=True)
        b_id = Column(ForeignKey("b.id"))
        v = Column(Integer)
        ds = relationship("D", order_by=("D.id" if ordered else None))

    class D(Base):
        __tablename__ = "d"
        id = Column(Integer, primary_key=True)
        c_id = Column(ForeignKey("c.id"))
        z = Column(Integer)

    A._verif_extras = {"BSub": BSub, "D": D}

    eng = sa.create_engine("sqlite://")
    Base.metadata.create_all(eng)
    na = case["na"]
    data = {"a": [], "b": [], "c": [], "d": [], "tag": [], "atag": []}
    for i in range(1, na + 1):
        data["a"].append({"id": i, "x": rng.randrange(4), "y": rng.choice([None, 1, 2])})
    bid = 0
    for i in range(1, na + 1):
        for _ in range(rng.choice([0, 0, 1, 2, 3] if na < 100 else [0, 1])):
            bid += 1
            sub = rng.random() < 0.4
            data["b"].append({"id": bid, "a_id": i, "k": rng.randrange(3), "kind": "bs" if sub else "b", "extra": rng.randrange(9) if sub else None})
    for _ in range(rng.choice([0, 1, 2])):
        bid += 1
        data["b"].append({"id": bid, "a_id": None, "k": rng.randrange(3), "kind": "b", "extra": None})  # orphans
    cid = 0
    for b in data["b"]:
        for _ in range(rng.choice([0, 1, 2])):
            cid += 1
            data["c"].append({"id": cid, "b_id": b["id"], "v": rng.randrange(5)})
    did = 0
    for cr in data["c"]:
        for _ in range(rng.choice([0, 0, 1, 2]) if na < 100 else 0):
            did += 1
            data["d"].append({"id": did, "c_id": cr["id"], "z": rng.randrange(5)})
    for t in range(1, 5):
        data["tag"].append({"id": t, "w": rng.randrange(3)})
    for i in range(1, na + 1):
        for t in rng.sample(range(1, 5), rng.choice([0, 1, 2] if na < 100 else [0, 1])):
            data["atag"].append({"a_id": i, "t_id": t})
    # shuffle physical insertion order so that "no ORDER BY" is not accidentally ordered
    with eng.begin() as c:
        for name, tbl in (("a", A.__table__), ("tag", Tag.__table__), ("b", B.__table__), ("c", C.__table__), ("d", D.__table__), ("atag", atag)):
            rows = list(data[name])
            rng.shuffle(rows)
            if rows:
                c.execute(tbl.insert(), rows)
    return eng, (A, B, C, Tag), data


def primary_query(case, A, B):
    from sqlalchemy import select

    q = case["query"]
    stmt = select(A)
    if q["join_filter"]:
        stmt = stmt.join(A.bs).where(B.k >= q["join_filter"] - 1).distinct()
    if q["where"] is not None:
        stmt = stmt.where(A.x < q["where"])
    if q["distinct"] and not q["join_filter"]:
        stmt = stmt.distinct()
    if q["order"] == "x_desc":
        stmt = stmt.order_by(A.x.desc(), A.id)
    elif q["order"] == "id_desc":
        stmt = stmt.order_by(A.id.desc())
    else:
        stmt = stmt.order_by(A.id)
    if q["limit"] is not None:
        # FETCH FIRST is rendered generically; the engine rewrites it for SQLite (see FETCH_RE)
        stmt = stmt.fetch(q["limit"]) if q.get("fetch") else stmt.limit(q["limit"])
    if q["offset"] is not None:
        stmt = stmt.offset(q["offset"])
    return stmt


FETCH_BOTH = re.compile(r"OFFSET (\?) ROWS\s+FETCH FIRST (\?) ROWS ONLY")
FETCH_ONLY = re.compile(r"FETCH FIRST (\?) ROWS ONLY")


def fetch_to_sqlite(stmt):
    """SQLite has no OFFSET..FETCH: `OFFSET ? ROWS FETCH FIRST ? ROWS ONLY` = `LIMIT ?, ?` (offset,
    count - same parameter order), `FETCH FIRST ? ROWS ONLY` = `LIMIT ?`"""
    stmt = FETCH_BOTH.sub("LIMIT ?, ?", stmt)
    return FETCH_ONLY.sub("LIMIT ?", stmt)


def loader_options(assign, classes, chunk=None):
    from sqlalchemy.orm import defer, immediateload, joinedload, lazyload, load_only, raiseload, selectinload, subqueryload, undefer, with_expression

    A, B, C, Tag = classes
    D = A._verif_extras["D"]
    fn = {"lazy": lazyload, "joined": joinedload, "subquery": subqueryload, "selectin": selectinload, "immediate": immediateload}
    opts = []

    def mk(kind, attr):
        if kind == "selectin" and chunk:
            return selectinload(attr, chunksize=chunk)
        return fn[kind](attr)

    if assign["bs"] != "default" or assign["cs"] != "default" or assign["a"] != "default":
        base = mk(assign["bs"] if assign["bs"] != "default" else "lazy", A.bs)
        subs = []
        if assign["cs"] != "default":
            subs.append(("cs", assign["cs"]))
        if assign["a"] != "default":
            subs.append(("a", assign["a"]))
        if not subs:
            opts.append(base)
        meths = {"lazy": "lazyload", "joined": "joinedload", "subquery": "subqueryload", "selectin": "selectinload", "immediate": "immediateload"}
        for name, kind in subs:
            b2 = mk(assign["bs"] if assign["bs"] != "default" else "lazy", A.bs)
            attr = B.cs if name == "cs" else B.a
            o = getattr(b2, meths[kind])(attr)
            if name == "cs" and assign.get("ds", "default") != "default":
                o = getattr(o, meths[assign["ds"]])(C.ds)  # third level of the chain
            opts.append(o)
    if assign["tags"] != "default":
        opts.append(mk(assign["tags"], A.tags))
    if assign.get("with_expr"):
        opts.append(with_expression(A.expr, A.x * 10 + assign["with_expr"]))
    if assign.get("raise_tags"):
        opts.append(raiseload(A.tags))  # never triggered: the snapshot skips tags then
    col = assign.get("cols", "none")
    if col == "defer_x":
        opts.append(defer(A.x))
    elif col == "load_only_x":
        opts.append(load_only(A.x))
    elif col == "defer_undefer":
        opts.append(defer(A.y))
        opts.append(undefer(A.x))
    return opts


def snapshot(objs, ordered, skip_tags=False):
    out = []
    for a in objs:
        bs = [
            (type(b).__name__, b.id, b.k, b.extra, (b.a.id if b.a is not None else None), _ord([(c.id, c.v, _ord([(d.id, d.z) for d in c.ds], ordered)) for c in b.cs], ordered))
            for b in a.bs
        ]
        tags = None if skip_tags else _ord([(t.id, t.w) for t in a.tags], ordered)
        out.append((a.id, a.x, a.y, a.expr, _ord(bs, ordered), tags))
    return out


def _ord(lst, ordered):
    return list(lst) if ordered else sorted(lst, key=repr)


def legacy_objs(s, case, assign, classes):
    """the same query through the legacy Query API, OFFSET / LIMIT via __getitem__"""
    A, B, C, Tag = classes
    q = case["query"]
    lq = s.query(A)
    if q["join_filter"]:
        lq = lq.join(A.bs).filter(B.k >= q["join_filter"] - 1).distinct()
    if q["where"] is not None:
        lq = lq.filter(A.x < q["where"])
    if q["distinct"] and not q["join_filter"]:
        lq = lq.distinct()
    if q["order"] == "x_desc":
        lq = lq.order_by(A.x.desc(), A.id)
    elif q["order"] == "id_desc":
        lq = lq.order_by(A.id.desc())
    else:
        lq = lq.order_by(A.id)
    lq = lq.options(*loader_options(assign, classes, case.get("chunk")))
    if q["limit"] is None and q["offset"] is None:
        return lq.all()
    lo = q["offset"] or 0
    if q["limit"] is None:
        return lq[lo:]
    return lq[lo : lo + q["limit"]]


def run_assignment(case, eng, classes, assign):
    """-> dict(snapshot, statements during load, exc)"""
    from sqlalchemy import event
    from sqlalchemy.orm import Session

    A, B, C, Tag = classes
    log = []

    def bce(conn, cur, stmt, params, ctx, many):
        log.append((" ".join(stmt.split()), params))
        return fetch_to_sqlite(stmt), params

    event.listen(eng, "before_cursor_execute", bce, retval=True)
    out = {"exc": None}
    try:
        with Session(eng) as s:
            stmt = primary_query(case, A, B).options(*loader_options(assign, classes, case.get("chunk")))
            eo = {}
            if assign.get("yield_per"):
                eo["yield_per"] = assign["yield_per"]
            if case.get("api") == "query" and not assign.get("yield_per"):
                objs = legacy_objs(s, case, assign, classes)
            else:
                res = s.execute(stmt, execution_options=eo)
                objs = res.unique().scalars().all() if not assign.get("yield_per") else [o for part in res.scalars().partitions() for o in part]
            out["nload"] = len(log)
            out["load_sql"] = [l[0] for l in log]
            out["load_log"] = list(log)
            out["ids"] = [a.id for a in objs]
            out["bs"] = [(a.id, [b.id for b in a.bs]) for a in objs]
            out["n_after_bs"] = len(log)  # lazy loading of A.bs has happened by now
            out["snap"] = snapshot(objs, case["ordered"], skip_tags=bool(assign.get("raise_tags") or assign.get("_skip_tags")))
    except Exception as e:  # noqa: BLE001
        out["exc"] = "%s: %s" % (type(e).__name__, str(e)[:200])
    finally:
        event.remove(eng, "before_cursor_execute", bce)
    return out


# ---------------------------------------------------------------------------- generation
def gen_case(rng, tier, big=False):
    na = rng.choice([0, 1, 3, 5, 8, 12]) if not big else rng.choice([520, 1030])
    lim = rng.choice([None, None, 0, 1, 2, 4, 20])
    return {
        "na": na,
        "ordered": rng.random() < 0.8,
        "api": rng.choice(["select", "select", "select", "query"]) if not big else "select",
        "chunk": rng.choice([None, None, 1, 2, 3]) if not big else None,
        "query": {
            "where": rng.choice([None, None, 1, 2, 3]),
            "order": rng.choice(["x_desc", "id_desc", "id"]),
            "limit": lim,
            "fetch": lim is not None and rng.random() < 0.3,
            "offset": rng.choice([None, None, 0, 1, 3]),
            "distinct": rng.random() < 0.2,
            "join_filter": rng.choice([0, 0, 0, 1, 2]),
        },
        "seed": rng.randrange(1 << 30),
    }


def gen_assignments(rng, tier, big=False):
    """assignments tried for one case: every strategy for A.bs alone (model tie) plus
    random combinations along all paths"""
    out = []
    for s in COLL:
        out.append({"bs": s, "cs": "default", "a": "default", "tags": "default", "cols": "none"})
    if big:
        return out
    k = 6 if tier == "quick" else 14
    for _ in range(k):
        a = {
            "bs": rng.choice(COLL + ("default",)),
            "cs": rng.choice(COLL + ("default",)),
            "a": rng.choice(REF + ("default",)),
            "tags": rng.choice(COLL + ("default",)),
            "cols": rng.choice(["none", "none", "defer_x", "load_only_x", "defer_undefer"]),
            "ds": rng.choice(COLL + ("default",)),
            "with_expr": rng.choice([0, 0, 1, 7]),
            "raise_tags": rng.random() < 0.15,
        }
        if a["raise_tags"]:
            a["tags"] = "default"
        if a["cols"] in ("defer_x", "load_only_x"):
            a["with_expr"] = 0  # keep the expression independent of deferral options
        eager_coll = any(a[p] in ("joined", "subquery") for p in ("bs", "cs", "tags", "ds"))
        if not eager_coll and rng.random() < 0.3:
            a["yield_per"] = rng.choice([1, 2, 5])
        out.append(a)
    return out


# ---------------------------------------------------------------------------- one case
def run_case(case, assignments):
    eng, classes, data = build(case)
    bases = {}

    def baseline(a):
        k = (a.get("with_expr", 0), bool(a.get("raise_tags")))
        if k not in bases:
            bases[k] = run_assignment(case, eng, classes, {"bs": "lazy", "cs": "lazy", "a": "lazy", "tags": "lazy", "ds": "lazy", "cols": "none", "with_expr": k[0], "raise_tags": False, "_skip_tags": k[1]})
        return bases[k]

    base = baseline({})
    results = [(a, run_assignment(case, eng, classes, a), baseline(a)) for a in assignments]
    eng.dispose()
    return base, results, data


def oracle(case, base, results):
    """-> list of (key, assignment, detail)"""
    out = []
    if base["exc"]:
        return [("c40-baseline-exception", None, base["exc"])]
    for a, r, b0 in results:
        if r["exc"]:
            out.append(("c40-exception", a, r["exc"]))
            continue
        if b0["exc"]:
            out.append(("c40-baseline-exception", a, b0["exc"]))
            continue
        if r["ids"] != b0["ids"]:
            out.append(("c40-primary-result-differs", a, "primary ids %s, lazy baseline %s" % (r["ids"][:20], b0["ids"][:20])))
            continue
        if r["snap"] != b0["snap"]:
            for x, y in zip(r["snap"], b0["snap"]):
                if x != y:
                    out.append(("c40-graph-differs", a, "object %s, lazy baseline %s" % (x, y)))
                    break
    return out


F23 = "joined-eager-collection-fetch-only-not-wrapped"
F24 = "unset-query-expression-after-load-only-subquery-backref-assertion"


F25 = "subqueryload-fetch-only-embedded-query-loses-order-by"


def classify(case, assign, key, detail=""):
    """F23: fetch() without offset() + a joined eager collection: _should_nest_selectable does
    not look at fetch_clause, FETCH FIRST is applied to the joined rows"""
    q = case["query"]
    if assign and key == "c40-exception" and assign.get("cols") == "load_only_x" and assign.get("bs") == "subquery" and "_only_load_props" in detail:
        return F24
    fetch_only = bool(q.get("fetch")) and q["limit"] is not None and q["offset"] is None and case.get("api") != "query"
    if assign and fetch_only and key in ("c40-primary-result-differs", "c40-graph-differs"):
        f23 = (assign.get("bs") == "joined" or assign.get("tags") == "joined") and not (q["distinct"] or q["join_filter"])
        if not f23 and any(assign.get(p_) == "subquery" for p_ in ("bs", "cs", "tags", "ds")):
            return F25
    if assign and key in ("c40-primary-result-differs", "c40-graph-differs") and q.get("fetch") and q["limit"] is not None and q["offset"] is None:
        if not (q["distinct"] or q["join_filter"]) and case.get("api") != "query":
            joined_coll = assign.get("bs") == "joined" or assign.get("tags") == "joined"
            if joined_coll:
                return F23
    return None


def expected_nest(case, assign):
    q = case["query"]
    joined_coll = assign["bs"] == "joined" or assign["tags"] == "joined"
    joined_any = joined_coll  # B.cs / B.a joined only matter below a joined A.bs
    return joined_any, joined_coll


def fmt_parents(ids, data):
    x = {r["id"]: r["x"] for r in data["a"]}
    return ";".join("%d:%d" % (i, x[i]) for i in ids) or "-"


def fmt_children(data):
    return ";".join("%d:%s:%d" % (b["id"], "N" if b["a_id"] is None else b["a_id"], b["k"]) for b in sorted(data["b"], key=lambda r: r["id"])) or "-"


def one(ctx, case, assignments, names, cases, impl_out, reqs):
    try:
        base, results, data = run_case(case, assignments)
    except Exception as e:  # noqa: BLE001
        import traceback

        ctx.case(("crash", case["seed"]))
        ctx.violation("c40-crash:" + type(e).__name__, case, "".join(traceback.format_exception_only(type(e), e))[:400])
        return
    q = case["query"]
    ctx.count("parents=%s" % ("0" if not base.get("ids") else "1-5" if len(base["ids"]) < 6 else "6+" if len(base["ids"]) < 100 else "500+"))
    ctx.count("limit=%s offset=%s distinct=%s" % (q["limit"] is not None, q["offset"] is not None, bool(q["distinct"] or q["join_filter"])))
    for key, a, detail in oracle(case, base, results):
        ctx.violation(classify(case, a, key, detail) or key, {"case": case, "assign": a}, detail)
    for a, r, _b0 in results:
        ctx.case((case["seed"], sorted(a.items())), nontrivial=bool(base.get("ids")))
        ctx.count("bs=" + a["bs"])
        if r["exc"] or base["exc"]:
            continue
        single = a["cs"] == "default" and a["a"] == "default" and a["tags"] == "default" and a["cols"] == "none" and not a.get("yield_per")
        if single and a["bs"] != "default" and r["load_sql"]:
            # the A.bs level against the model's plan for that strategy
            chunk = case.get("chunk") or 500
            g = ";".join("%d=%s" % (pid, ",".join(str(i) for i in (bids if case["ordered"] else sorted(bids))) or "-") for pid, bids in r["bs"]) or "-"
            if case["ordered"] and classify(case, a, "c40-graph-differs") is None:
                names.append("graph")
                cases.append({"case": case, "assign": a})
                impl_out.append("ok " + g)
                reqs.append("loader graph %s %d %s %s" % (a["bs"], chunk, fmt_parents(r["ids"], data), fmt_children(data)))
            # statement count
            n = len(r["ids"])
            names.append("statements")
            cases.append({"case": case, "assign": a})
            impl_out.append("ok %d" % (r["n_after_bs"] if a["bs"] == "lazy" else r["nload"]))
            if a["bs"] == "selectin":
                reqs.append("loader countn selectin %d %d" % (n, chunk))
            else:
                reqs.append("loader count %s %d" % (a["bs"], n))
            if a["bs"] == "selectin" and n:
                # the IN lists really have at most `chunk` keys and cover every parent once
                insizes = [len(p) for sql, p in r["load_log"][1:] if " IN (" in sql]
                names.append("in-chunks")
                cases.append({"case": case, "assign": a})
                impl_out.append("ok " + ",".join(str(x) for x in insizes))
                reqs.append("loader chunks %d %d" % (n, chunk))
        if (a["bs"] == "joined" or a["tags"] == "joined") and r["load_sql"]:
            wrapped = "FROM (SELECT" in r["load_sql"][0]
            names.append("nest")
            cases.append({"case": case, "assign": a})
            impl_out.append("1" if wrapped else "0")
            is_fetch = bool(q.get("fetch")) and q["limit"] is not None and case.get("api") != "query"
            # (legacy Query slicing: q[0:] / q[0:n] leave the OFFSET unset)
            has_off = bool(q["offset"]) if case.get("api") == "query" else q["offset"] is not None
            reqs.append("loader nest 1 1 %d %d %d %d 0" % (q["limit"] is not None and not is_fetch, has_off, is_fetch, bool(q["distinct"] or q["join_filter"])))
    if base.get("ids") and len(base["ids"]) > 1:
        ctx.sample({"query": q, "ordered": case["ordered"], "ids": base["ids"][:10], "assignments": len(results), "first_graph": base["snap"][0] if base["snap"] else None}, cap=4)



# ---------------------------------------------------------------------------- composite primary keys
def gen_composite_case(rng):
    return {
        "composite": True,
        # order in which the child's ForeignKeyConstraint pairs the columns, relative to the
        # parent's primary key (x, y)
        "fk_order": rng.choice(["xy", "yx", "yx"]),
        "col_order": rng.choice(["xy", "yx"]),  # order of the FK columns in the child table
        "pk_order": rng.choice(["xy", "yx"]),   # order of the primary key columns in the parent table
        "m2m": rng.random() < 0.5,
        "ordered": rng.random() < 0.8,
        "chunk": rng.choice([None, 1, 2]),
        "limit": rng.choice([None, None, 2, 3]),
        "seed": rng.randrange(1 << 30),
    }


def build_composite(case):
    import sqlalchemy as sa
    from sqlalchemy import Column, ForeignKeyConstraint, Integer, Table
    from sqlalchemy.orm import declarative_base, relationship

    rng = random.Random(case["seed"])
    Base = declarative_base()
    pkcols = [Column("x", Integer, primary_key=True), Column("y", Integer, primary_key=True)]
    if case["pk_order"] == "yx":
        pkcols.reverse()
    fkcols = [Column("p_x", Integer), Column("p_y", Integer)]
    if case["col_order"] == "yx":
        fkcols.reverse()
    if case["fk_order"] == "xy":
        fkc = ForeignKeyConstraint(["p_x", "p_y"], ["p.x", "p.y"])
        lk = (["l_x", "l_y"], ["p.x", "p.y"])
    else:
        fkc = ForeignKeyConstraint(["p_y", "p_x"], ["p.y", "p.x"])
        lk = (["l_y", "l_x"], ["p.y", "p.x"])
    link = Table("link", Base.metadata, Column("l_x", Integer), Column("l_y", Integer), Column("g_id", sa.ForeignKey("g.id")), ForeignKeyConstraint(*lk))

    class P(Base):
        __tablename__ = "p"
        __table_args__ = ()
        locals().update({c_.name: c_ for c_ in pkcols})
        v = Column(Integer)
        qs = relationship("Q", back_populates="p", order_by=("Q.id" if case["ordered"] else None))
        gs = relationship("G", secondary=link, order_by=("G.id" if case["ordered"] else None))

    class Q(Base):
        __tablename__ = "q"
        id = Column(Integer, primary_key=True)
        locals().update({c_.name: c_ for c_ in fkcols})
        __table_args__ = (fkc,)
        p = relationship("P", back_populates="qs")

    class G(Base):
        __tablename__ = "g"
        id = Column(Integer, primary_key=True)

    eng = sa.create_engine("sqlite://")
    Base.metadata.create_all(eng)
    # asymmetric keys with mirrored pairs: (1,2) and (2,1), (1,3) without mirror, (2,2)
    keys = [(1, 2), (2, 1), (1, 3), (2, 2), (3, 1), (4, 5)]
    rng.shuffle(keys)
    keys = keys[: rng.choice([3, 4, 6])]
    data = {"p": [], "q": [], "g": [{"id": i} for i in range(1, 5)], "link": []}
    for (x, y) in keys:
        data["p"].append({"x": x, "y": y, "v": rng.randrange(5)})
    qid = 0
    for (x, y) in keys:
        for _ in range(rng.choice([0, 1, 2, 3])):
            qid += 1
            data["q"].append({"id": qid, "p_x": x, "p_y": y})
        for g in rng.sample(range(1, 5), rng.choice([0, 1, 2])):
            data["link"].append({"l_x": x, "l_y": y, "g_id": g})
    # children of a key that has no parent row in the mirrored position
    qid += 1
    data["q"].append({"id": qid, "p_x": 9, "p_y": 9})
    with eng.begin() as c:
        for name, tbl in (("p", P.__table__), ("g", G.__table__), ("q", Q.__table__), ("link", link)):
            rows = list(data[name])
            rng.shuffle(rows)
            if rows:
                c.execute(tbl.insert(), rows)
    return eng, (P, Q, G), data


def run_composite(case):
    """every strategy for P.qs / P.gs / Q.p against the rows of the generated data"""
    from sqlalchemy import select
    from sqlalchemy.orm import Session, immediateload, joinedload, lazyload, selectinload, subqueryload

    eng, (P, Q, G), data = build_composite(case)
    # what the real selectin loader derived: FK columns (as x=0 / y=1), the parent's primary
    # key order and the join condition's pairs in declaration order
    from sqlalchemy import inspect as sa_inspect

    prop = sa_inspect(P).relationships["qs"]
    strat_obj = prop._get_strategy((("lazy", "selectin"),))
    idx = {"x": 0, "y": 1, "p_x": 0, "p_y": 1}
    qi = strat_obj._query_info
    case["_observed"] = {
        "fk_cols": [idx[c_.name] for c_ in qi.pk_cols],
        "pk": [idx[c_.name] for c_ in sa_inspect(P).mapper.primary_key],
        "pairs": [(idx[l.name], idx[r.name]) for l, r in prop._join_condition.local_remote_pairs],
        "omit_join": bool(strat_obj.omit_join),
    }
    fn = {"lazy": lazyload, "joined": joinedload, "subquery": subqueryload, "selectin": selectinload, "immediate": immediateload}
    bad = []
    want_qs = {(r["x"], r["y"]): sorted(q["id"] for q in data["q"] if (q["p_x"], q["p_y"]) == (r["x"], r["y"])) for r in data["p"]}
    want_gs = {(r["x"], r["y"]): sorted(l["g_id"] for l in data["link"] if (l["l_x"], l["l_y"]) == (r["x"], r["y"])) for r in data["p"]}
    pkeys = {(r["x"], r["y"]) for r in data["p"]}
    want_p = {q["id"]: ((q["p_x"], q["p_y"]) if (q["p_x"], q["p_y"]) in pkeys else None) for q in data["q"]}
    try:
        for strat in COLL:
            with Session(eng) as s:
                stmt = select(P).order_by(P.x, P.y)
                if case["limit"]:
                    stmt = stmt.limit(case["limit"])
                opt = selectinload(P.qs, chunksize=case["chunk"]) if strat == "selectin" and case["chunk"] else fn[strat](P.qs)
                opt2 = selectinload(P.gs, chunksize=case["chunk"]) if strat == "selectin" and case["chunk"] else fn[strat](P.gs)
                try:
                    objs = s.execute(stmt.options(opt, opt2)).unique().scalars().all()
                    for o in objs:
                        got = sorted(q.id for q in o.qs)
                        if got != want_qs[(o.x, o.y)]:
                            bad.append(("c40-composite-collection", "%s: parent (%s, %s) has children %s, its rows are %s" % (strat, o.x, o.y, got, want_qs[(o.x, o.y)])))
                            break
                        if case["ordered"] and [q.id for q in o.qs] != got:
                            bad.append(("c40-composite-collection-order", "%s: parent (%s, %s) children %s" % (strat, o.x, o.y, [q.id for q in o.qs])))
                            break
                        gg = sorted(g.id for g in o.gs)
                        if case["m2m"] and gg != want_gs[(o.x, o.y)]:
                            bad.append(("c40-composite-m2m-collection", "%s: parent (%s, %s) has gs %s, link rows say %s" % (strat, o.x, o.y, gg, want_gs[(o.x, o.y)])))
                            break
                except Exception as e:  # noqa: BLE001
                    bad.append(("c40-composite-exception", "%s: %s: %s" % (strat, type(e).__name__, str(e)[:200])))
        for strat in REF:
            with Session(eng) as s:
                try:
                    qs = s.execute(select(Q).order_by(Q.id).options(fn[strat](Q.p))).scalars().all()
                    for q in qs:
                        got = None if q.p is None else (q.p.x, q.p.y)
                        if got != want_p[q.id]:
                            bad.append(("c40-composite-reference", "%s: child %s refers to parent %s, its row says %s" % (strat, q.id, got, want_p[q.id])))
                            break
                except Exception as e:  # noqa: BLE001
                    bad.append(("c40-composite-exception", "%s (many-to-one): %s: %s" % (strat, type(e).__name__, str(e)[:200])))
    finally:
        eng.dispose()
    return bad


def composite_cases(ctx, n, names, cases, impl_out, reqs):
    for _ in range(n):
        case = gen_composite_case(ctx.rng)
        try:
            bad = run_composite(case)
        except Exception as e:  # noqa: BLE001
            bad = [("c40-composite-crash:" + type(e).__name__, str(e)[:300])]
        ctx.case(("composite", tuple(sorted((k, str(v)) for k, v in case.items()))), nontrivial=True)
        ctx.count("composite:fk_order=%s pk_order=%s" % (case["fk_order"], case["pk_order"]))
        for key, detail in bad[:2]:
            ctx.violation(key, case, detail)
        # the FK column list of the real loader vs the model's (parent primary-key order)
        ob = case.pop("_observed", None)
        if ob and ob["omit_join"]:
            ctx.count("composite:join-pairs=%s" % ob["pairs"])
            names.append("fk-column-order")
            cases.append(case)
            impl_out.append("ok " + ",".join(str(c_) for c_ in ob["fk_cols"]))
            reqs.append("loader fkcols %s %s" % (",".join(str(c_) for c_ in ob["pk"]), ",".join("%d>%d" % pr for pr in ob["pairs"])))


def run(ctx):
    ctx.rule = (
        "random mapping data (A -< B -< C, B -> A, A >-< Tag; 0-12 parents, plus two cases with 520 / 1030 parents for IN chunking), primary query = "
        "filter x total ORDER BY x LIMIT x OFFSET x DISTINCT x join+distinct; per case the 5 strategies for A.bs alone (compared with the model) and "
        "6 (quick) / 14 (thorough) random assignments over all four relationship paths + column options + yield_per; non-trivial = non-empty primary result"
    )
    ctx.trusted.append("SQLite 3 executes every statement; relationships without ORDER BY are compared as multisets")
    names, cases, impl_out, reqs = [], [], [], []
    n = 110 if ctx.tier == "quick" else 1200
    for _ in range(n):
        case = gen_case(ctx.rng, ctx.tier)
        one(ctx, case, gen_assignments(ctx.rng, ctx.tier), names, cases, impl_out, reqs)
    for _ in range(2 if ctx.tier == "quick" else 6):
        case = gen_case(ctx.rng, ctx.tier, big=True)
        case["query"].update({"limit": None, "where": None, "join_filter": 0})
        one(ctx, case, gen_assignments(ctx.rng, ctx.tier, big=True)[:4], names, cases, impl_out, reqs)
    composite_cases(ctx, 60 if ctx.tier == "quick" else 700, names, cases, impl_out, reqs)
    if ctx.driver_ok():
        model = ctx.driver(reqs)
        for nm in sorted(set(names)):
            idx = [i for i, x in enumerate(names) if x == nm]
            ctx.correspond("corr/c40:%s" % nm, [cases[i] for i in idx], [impl_out[i] for i in idx], [model[i] for i in idx])


def search(ctx, broken):
    sub = type(ctx)(ctx.pid, "thorough", ctx.seed + 1, ctx.level)
    for _ in range(400):
        case = gen_case(sub.rng, "thorough")
        one(sub, case, gen_assignments(sub.rng, "thorough"), [], [], [], [])
    ctx.violations.extend(sub.violations)


def replay(ctx, obj):
    c = obj["case"]
    if isinstance(c, dict) and c.get("composite"):
        bad = run_composite(c)
        c.pop("_observed", None)
        print("replay C40 composite-key case %s -> %s" % (c, bad))
        return bool(bad)
    case, assign = c["case"], c["assign"]
    try:
        base, results, _ = run_case(case, [assign] if assign else [])
        results = [x for x in results]
    except Exception as e:  # noqa: BLE001
        print("replay C40 crashes: %r" % e)
        return True
    bad = oracle(case, base, results)
    print("replay C40 case=%s assign=%s\n  baseline=%s\n  oracle: %s" % (case, assign, base.get("snap"), bad))
    return bool(bad)
