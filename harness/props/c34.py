"""C34 — the identity map holds at most one object per row.

Model      : lean/SaVerif/Model/Sess.lean (identity.py, loading identity lookups, Session.get /
             merge / refresh, queries with and without populate_existing, flush with
             primary-key switches)
Theorems   : lean/SaVerif/Props/C34.lean (identity_unique by induction over all histories)
Correspondence: operation histories on the real Session (SQLite) vs the model; compared after
             every operation: outcome incl. the returned instance(s), identity keys and
             attachment flags of every instance, identity map, expired flag, whether SQL was
             emitted.
Direct oracle: lib_uow_oracle.check_case_c34 (uniqueness, results are the identity-map
             instances, get without SQL when present and unexpired).
Identity tokens (not modelled): a second stream of histories with Session.get(identity_token=)
             and queries executed with the identity_token execution option, the same primary key
             under up to three tokens; direct oracle lib_uow_oracle.check_case_tokens.
"""
import json
import os

PID = "C34"
LEVEL = "proof"
LEAN = ["SaVerif.Props.C34"]
META = {
    "text": "Lean: for ALL histories of the transcribed session machine (add, delete, flush incl. failures, commit, rollback, savepoints, expunge, close, merge, get, queries with/without populate_existing, refresh, primary-key changes, make_transient*) no identity key occurs twice in the identity map (identity_unique, induction over the history; 70 preservation lemmas, one per transcribed function); Session.get for a present unexpired instance returns it with no SQL and no state change (all states); a load returns the identity map's instance for the row. The model is tied to the code by a per-operation differential run; the property itself (one persistent instance per key, queries/get/merge return that instance, no SQL when present) is re-checked on the real Session by an independent oracle.",
    "note": "Not provable because false for the code as it is (counterexample theorems + known findings): identity-map entries can be detached/deleted instances; two attached instances can share a key after identity_map.replace evicts one. Modelled-not-verified: SQLite as a set of primary keys; yield_per only on the real side (the model has no buffering); identity tokens are not modelled in Lean (single token None); they are covered by the direct oracle only (get / query with identity_token, same primary key under several tokens, instances with a token leaving the Session, travelling through pickle, re-attached with add, changed and flushed: the instance returned carries exactly the requested (pk, token) and is the identity map's, no SQL when it is present and unexpired, the token of an instance never changes; merge of a token-carrying source returns the identity map's instance for exactly that (pk, token)). One mapper, one integer primary key.",
    "technique": "Lean 4 invariant proof by induction over operation histories of a transcribed session/identity-map machine + per-operation differential correspondence on SQLite",
    "design_ref": "DESIGN.md §3 C34",
}

KNOWN_CORPUS = os.path.join(os.path.dirname(os.path.dirname(os.path.dirname(os.path.abspath(__file__)))), "known_findings.d", "C34.json")


def corpus_cases():
    out = []
    if os.path.exists(KNOWN_CORPUS):
        for e in json.load(open(KNOWN_CORPUS))["findings"]:
            c = e.get("replay") or {}
            if "ops" in c:
                out.append((bool(c.get("eoc", True)), [tuple(o) for o in c["ops"]]))
    return out


def jobs_for(ctx, deep=False):
    from harness import lib_uow_gen as G

    thorough = ctx.tier == "thorough" or deep
    jobs = []
    maxlen = 3 if thorough else 2
    fixed = []
    for pkb in (1, 2):
        for ops in G.small_scope(maxlen + 1, pkb, G.IDENTITY_ALPHABET):
            if len(ops) - 2 == maxlen + 1 and not deep and ctx.rng.random() > (0.05 if thorough else 0.12):
                continue  # the longest length is a seeded sample
            fixed.append((True, ops))
    step = 500
    for i in range(0, len(fixed), step):
        jobs.append(("fixed", fixed[i : i + step]))
    nchunks = 40 if thorough else 10
    per = 800 if thorough else 380
    profiles = ["identity", "identity", "uniform", "detach", "nested"]
    for c in range(nchunks):
        lo, hi = (6, 26) if thorough else (5, 16)
        jobs.append(("random", "C34:%d:%d:%s" % (ctx.seed, c, "deep" if deep else ctx.tier), per, profiles[c % len(profiles)], lo, hi, 0.75))
    return jobs


def evaluate(ctx, cases, label):
    from harness import lib_uow_check as K

    K.evaluate(ctx, cases, label, "c34")


def run(ctx, deep=False):
    from harness import lib_uow_gen as G

    ctx.rule = (
        "operation histories over one Session / one mapped class (pk domain {1,2,3}): all histories of length <=2 plus a seeded "
        "fifth of length 3 (quick) or all of length <=3 plus a seeded 1/20 of length 4 (thorough) over a 24-operation alphabet "
        "(incl. query with/without populate_existing, refresh, get, merge, pk change) on two instances; plus seeded random histories "
        "(identity-heavy and general profiles; queries with populate_existing and yield_per at random) chosen while executing the "
        "real code; non-trivial = at least one lifecycle event fired. Identity tokens: 1500 (quick) / 6000 (thorough) further random "
        "histories with get(identity_token=t) and queries under execution option identity_token=t, t in {None, t1, t2}, checked by "
        "the direct oracle only; non-trivial there = one primary key present under two tokens at once"
    )
    ctx.trusted.append("SQLite via sqlite3 (autocommit=False, one connection); the model's database is a set of primary keys with snapshot/rollback")
    ctx.trusted.append("Python dict/set iteration order: outcomes that depend on set order make the model abstain from the rest of the case")
    ctx.assumptions.append("one Session, one mapper with one integer primary-key column, identity token None; GC never collects an instance (the harness holds all)")
    cases = [G.compact(G.run_fixed(eoc, ops)) for eoc, ops in corpus_cases()]
    if cases:
        evaluate(ctx, cases, "corpus")
    cases = G.run_jobs(jobs_for(ctx, deep), int(os.environ.get("VERIF_PROCS", "6")))
    evaluate(ctx, cases, "generated")
    ctx.exhaustive = False
    run_tokens(ctx, deep)


def token_failure_key(f):
    return "c34-%s:%s" % (f["check"], f["sig"])


def run_tokens(ctx, deep=False):
    """identity tokens: histories with get(identity_token=) / queries under an identity_token
    execution option; direct oracle only (lib_uow_oracle.check_case_tokens)"""
    from harness import lib_uow_gen as G

    thorough = ctx.tier == "thorough" or deep
    jobs = [("tokens", "C34tok:%d:%d:%s" % (ctx.seed, c, "deep" if deep else ctx.tier), 500 if thorough else 250, 5, 20 if thorough else 14, 0.7)
            for c in range(12 if thorough else 6)]
    for eoc, ops, two, f in G.run_jobs(jobs, int(os.environ.get("VERIF_PROCS", "6"))):
        ctx.case({"eoc": eoc, "ops": ops}, nontrivial=two)
        ctx.count("tokens:same-pk-under-two-tokens" if two else "tokens:other")
        if f is not None:
            ctx.count("oracle:" + token_failure_key(f))
            ctx.violation(token_failure_key(f), {"eoc": eoc, "ops": [list(o) for o in ops[: f["i"] + 1]], "tokens": True}, f["detail"])


def search(ctx, broken):
    from harness import lib_uow_check as K
    from harness import lib_uow_gen as G

    fixed = K.probe_cases(ctx)
    sub = type(ctx)(ctx.pid, "thorough", ctx.seed + 1, ctx.level)
    sub.broken = list(ctx.broken)
    if fixed:
        evaluate(sub, [G.compact(G.run_fixed(e, o)) for e, o in fixed], "search-probes")
    if not [v for v in sub.violations if "@" in v["key"]]:
        cases = G.run_jobs(jobs_for(sub, deep=True), int(os.environ.get("VERIF_PROCS", "6")))
        evaluate(sub, cases, "search-deep")
        run_tokens(sub, deep=True)
    K.disagreement_violations(ctx, sub, "c34")
    ctx.violations.extend(sub.violations)


def replay(ctx, obj):
    from harness import lib_uow_check as K
    from harness import lib_uow_oracle as O

    if obj["case"].get("tokens"):
        from harness import lib_uow as L
        from harness import lib_uow_gen as G

        eoc, ops, recs = G.run_fixed(obj["case"]["eoc"], obj["case"]["ops"])
        f = O.check_case_tokens(eoc, ops, recs)
        for op, r in zip(ops, recs):
            print("   %-14s %s identity_map=%s sql=%s" % (L.fmt_op(op), r["res"] if r else "bad-oid", r["imap_t"] if r else "", r["q"] if r else ""))
        print("oracle:", f["detail"] if f else None)
        return f is not None and token_failure_key(f) == obj["key"]
    return K.replay(ctx, obj, "c34", O.check_case_c34)
