"""C48 — pending changes survive the application dropping its references.

Model: lean/SaVerif/Model/Weakref.lean (weak identity map; `_strong_obj` for
modified states, `Session._new` / `_deleted` strong; collection after every step vs.
no collection at all).  Theorems: lean/SaVerif/Props/C48.lean (every history is
observationally the same with and without garbage collection).

Real side: a real Session over SQLite with autoflush off (Session(autoflush=False), or an
autoflush Session used inside a no_autoflush block), with SAVEPOINTs: begin_nested(), rollback
/ release of the savepoint, a failing flush inside it (rolled back to the savepoint only).  The harness plays the
application: it holds objects in a dict, `drop` removes its reference, and
`gc.collect()` runs after every operation (CPython frees most objects at once
anyway; the explicit collection makes cycles deterministic).

Direct oracle, independent of the Lean model:
 1. twin run, the property verbatim: the same history in which dropped objects are
    secretly kept alive (nothing can be collected) must produce the same database
    after every flush / commit / rollback and the same values from every get;
 2. reference dict: every set / add / delete the application performed (through a
    reference it held at that moment) must be in the table after the next successful
    flush, whatever was dropped and collected in between; begin_nested() counts as a flush
    (it flushes whatever the autoflush setting), a rolled back savepoint discards exactly the
    changes made inside it: the table then is what the application had changed before
    begin_nested(), and the later commit writes that.
Autoflush ON is not part of the histories: a get that misses the identity map then flushes,
so a collection legitimately moves the point where a flush (and its error) happens.
"""
import gc
import os
import shutil
import tempfile
import warnings

PID = "C48"
LEVEL = "proof"
LEAN = ["SaVerif.Props.C48"]
META = {
    "text": "Lean theorems for ALL histories without a rollback (simulation proved by induction over the operation list): the session with garbage collection after every step and the session in which nothing is ever collected produce the same outputs (values read, flush results) and the same database (gc_unobservable_partial, gc_same_db_partial); the full statement is false - SessionTransaction._new is weak, so an instance re-loaded after the inserted one was collected survives a rollback as a phantom (gc_unobservable_counterexample, replayed on the real code as a known finding); a state that sits in `_modified` stays strongly referenced even when its history is taken away by a partial expire of exactly the modified attribute or never materialised because the change was refused outside a transaction with autobegin=False (partial_expire_keeps_strong, refused_change_keeps_strong); collection never removes an object with pending work (collect_keeps_strong) and flush after collection writes what flush without it writes (collect_flush_db); an unmodified persistent object without application reference is released (collect_releases). Tied to orm/state.py (_strong_obj), identity.py (WeakInstanceDict), session.py by a differential run on a real Session with real reference drops and gc.collect(); the property is re-checked verbatim by a twin run in which nothing can be collected and by a dict reference.",
    "note": "Savepoints (depth 1): begin_nested_flushes, flush_leaves_no_work, flush_writes_pending_change, savepoint_rollback_restores_flushed_state and outer_change_survives_savepoint_rollback (both semantics, any operations inside the savepoint) say a change pending at begin_nested() is in the database after the savepoint's rollback; third known finding: the nested transaction's _dirty is weak, an instance re-loaded after the one flushed inside the savepoint was collected keeps the discarded value after the savepoint's rollback (savepoint_stale_counterexample). Nested savepoints, autoflush=True and the re-attachment of objects whose deletion is rolled back are not modelled. Trusted: Lean kernel; correspondence (sampling + exhaustive short sequences); CPython reference counting + gc.collect() as the garbage collector; SQLite. Sessions with autobegin=False (explicit begin, changes refused outside a transaction) and partial expire are part of the histories; a second known finding: a refused change of an EXPIRED attribute writes NULL at the next flush (the history stops there). Objects are flat (no relationship reachability between mapped objects), mutable-extension and pending-mutation references are not modelled. len(identity_map) is compared with the model only (release is a 'may' in the property, not checked by the oracle). gc_unobservable is a _partial theorem (hypothesis: no rollback() and no failing flush in the history) with a proved counterexample.",
    "technique": "Lean 4 simulation proof (GC vs no-GC semantics) + differential correspondence with real reference drops + metamorphic twin run",
    "design_ref": "DESIGN.md §3 C30–C48 (C48)",
}

_W = None
_TMP = None


def _tmpdir():
    global _TMP
    if _TMP is None:
        base = "/dev/shm" if os.path.isdir("/dev/shm") else None
        _TMP = tempfile.mkdtemp(prefix="verif-c48-", dir=base)
        import atexit

        atexit.register(shutil.rmtree, _TMP, True)
    return _TMP


class World:
    def __init__(self):
        import sqlalchemy as sa
        from sqlalchemy.orm import Session, declarative_base

        self.sa = sa
        self.engine = sa.create_engine("sqlite:///" + os.path.join(_tmpdir(), "c48.db"))

        # SAVEPOINT on pysqlite (the documented recipe): the driver must not manage transactions
        @sa.event.listens_for(self.engine, "connect")
        def _connect(dbapi_connection, connection_record):
            dbapi_connection.isolation_level = None

        @sa.event.listens_for(self.engine, "begin")
        def _begin(conn):
            conn.exec_driver_sql("BEGIN")

        Base = declarative_base()
        from harness.lib_orm2 import odd_mixin

        class T(odd_mixin("id", "val"), Base):
            __tablename__ = "t"
            id = sa.Column(sa.Integer, primary_key=True, autoincrement=False)
            val = sa.Column(sa.Integer)

        self.T = T
        Base.metadata.drop_all(self.engine)
        Base.metadata.create_all(self.engine)
        with Session(self.engine) as s0:  # configure mappers, warm caches
            s0.execute(sa.select(T)).all()
        # everything allocated so far (the whole library) is moved out of the collector's
        # sight: the per-operation gc.collect() then only looks at the history's objects
        gc.collect()
        gc.freeze()

    def reset(self):
        with self.engine.begin() as c:
            c.exec_driver_sql("delete from t")


def world():
    global _W
    if _W is None:
        _W = World()
    return _W


KEY_PHANTOM = "instance-reloaded-after-gc-of-inserted-one-survives-rollback-as-phantom"
KEY_NULLW = "refused-change-of-expired-attribute-autobegin-off-writes-null-at-next-flush"
KEY_STALE = "instance-reloaded-after-gc-of-one-flushed-in-savepoint-keeps-stale-value-after-savepoint-rollback"
KNOWN_KEYS = (KEY_PHANTOM, KEY_NULLW, KEY_STALE)


def run_history(case, keepalive=False):
    import traceback

    try:
        return _run_history(case, keepalive)
    except Exception as e:
        tb = traceback.extract_tb(e.__traceback__)
        where = ["%s:%d" % (os.path.basename(f.filename), f.lineno) for f in tb if "sqlalchemy" in f.filename][-3:]
        return ["crash:" + type(e).__name__], [("unexpected-exception", "%s: %s at %s" % (type(e).__name__, str(e)[:200], where))]


def _run_history(case, keepalive):
    """keepalive=True: the twin in which dropped objects stay alive (no collection)."""
    from sqlalchemy import inspect
    from sqlalchemy.exc import IntegrityError, InvalidRequestError
    from sqlalchemy.orm import Session
    from sqlalchemy.orm.exc import ObjectDeletedError, StaleDataError

    w = world()
    w.reset()
    T = w.T
    n, eoc, ops = case["n"], case["eoc"], case["ops"]
    ab = case.get("ab", 1)
    # autoflush is off in both modes: Session(autoflush=False), or an autoflush Session used
    # inside a no_autoflush block
    af = case.get("af", 0)
    sess = Session(w.engine, autoflush=bool(af), expire_on_commit=bool(eoc), autobegin=bool(ab))
    noaf = sess.no_autoflush if af else None
    if noaf is not None:
        noaf.__enter__()
    sp_expect = [None]  # the application's view of the table when the open savepoint was taken
    handles = {}  # the application's references
    graveyard = []  # twin only
    pending_pks, deleted_pks = set(), set()
    outs, problems = [], []
    expect, committed = {}, {}  # reference: table content the application is entitled to

    def ident(k):
        return sess.identity_map.get(inspect(T).identity_key_from_primary_key((k,)))

    def table():
        if sess.in_transaction():
            rows = sess.connection().exec_driver_sql("select id, val from t order by id").all()
        else:
            with w.engine.connect() as c:
                rows = c.exec_driver_sql("select id, val from t order by id").all()
        return {r[0]: r[1] for r in rows}

    def showdb(d):
        return "[" + " ".join("%d=%s" % (k, d[k]) for k in sorted(d)) + "]"

    def release(o):
        if keepalive:
            graveyard.append(o)

    def after_rollback(nested=False):
        pending_pks.clear()
        deleted_pks.clear()
        expect.clear()
        expect.update(sp_expect[0] if nested else committed)
        sp_expect[0] = None
        # handles to expunged pending objects are useless to the application
        for k, o in list(handles.items()):
            st = inspect(o)
            if not st.persistent:
                release(handles.pop(k))

    try:
        with warnings.catch_warnings():
            warnings.simplefilter("ignore")
            for op in ops:
                kind = op[0]
                o = None
                stop = False
                live = bool(ab) or sess.in_transaction()
                try:
                    if not live and kind not in ("set", "drop", "len", "begin"):
                        outs.append("-")  # autobegin=False and no transaction: nothing but the objects themselves
                    elif kind == "begin":
                        if live:
                            outs.append("-")
                        else:
                            sess.begin()
                            outs.append("d")
                    elif kind == "get":
                        k = op[1]
                        if k in pending_pks or k in deleted_pks:
                            outs.append("-")
                        else:
                            o = sess.get(T, k)
                            if o is None:
                                handles.pop(k, None)
                                outs.append("None")
                            else:
                                handles[k] = o
                                outs.append("v%s" % o.val)
                    elif kind == "set":
                        k, v = op[1], op[2]
                        if k in handles:
                            try:
                                handles[k].val = v
                                expect[k] = v
                                outs.append("d")
                            except InvalidRequestError:
                                # autobegin=False, no transaction: the change is refused (and not made)
                                if live:
                                    raise
                                outs.append("x")
                                if "val" not in handles[k].__dict__:
                                    # known defect: the refused change of an EXPIRED attribute leaves
                                    # committed_state[attr] = NO_VALUE behind; the next flush writes NULL
                                    problems.append((KEY_NULLW, "refused change of expired attribute val of row %d: state is modified with committed_state %r and no value" % (k, dict(inspect(handles[k]).committed_state))))
                                    stop = True
                        else:
                            outs.append("-")
                    elif kind == "del":
                        k = op[1]
                        if k in handles and k not in pending_pks:
                            o = handles.pop(k)
                            sess.delete(o)
                            release(o)
                            deleted_pks.add(k)
                            expect.pop(k, None)
                            outs.append("d")
                        else:
                            outs.append("-")
                    elif kind == "add":
                        k, v = op[1], op[2]
                        cur = ident(k)
                        free = cur is None or (k not in handles and not inspect(cur).modified and cur not in sess.deleted)
                        if k not in pending_pks and k not in handles and free:
                            o = T(id=k, val=v)
                            sess.add(o)
                            handles[k] = o
                            pending_pks.add(k)
                            if k in expect:
                                expect["dup"] = True
                            else:
                                expect[k] = v
                            outs.append("d")
                        else:
                            outs.append("-")
                    elif kind == "drop":
                        k = op[1]
                        if k in handles:
                            release(handles.pop(k))
                        outs.append("d")
                    elif kind == "exp":
                        k = op[1]
                        if k in handles and k not in pending_pks:
                            sess.expire(handles[k])
                            # expire discards the pending modification
                            if k in committed or True:
                                pass
                            expect_k = table().get(k)
                            if expect_k is None:
                                expect.pop(k, None)
                            else:
                                expect[k] = expect_k
                            outs.append("d")
                        else:
                            outs.append("-")
                    elif kind in ("expa", "expi"):
                        k = op[1]
                        if k in handles and k not in pending_pks:
                            sess.expire(handles[k], ["val" if kind == "expa" else "id"])
                            if kind == "expa":  # the pending change of that attribute is discarded
                                expect_k = table().get(k)
                                if expect_k is None:
                                    expect.pop(k, None)
                                else:
                                    expect[k] = expect_k
                            outs.append("d")
                        else:
                            outs.append("-")
                    elif kind == "bn":
                        if sp_expect[0] is not None:
                            outs.append("-")
                        else:
                            sess.begin_nested()  # flushes, whatever the autoflush setting
                            pending_pks.clear()
                            deleted_pks.clear()
                            now = table()
                            outs.append("d" + showdb(now))
                            exp = {k: v for k, v in expect.items() if k != "dup"}
                            if now != exp or "dup" in expect:
                                problems.append(("pending-change-lost", "begin_nested succeeded; table %s, the application's changes say %s" % (now, expect)))
                            sp_expect[0] = dict(exp)
                    elif kind == "rbn":
                        if sp_expect[0] is None:
                            outs.append("-")
                        else:
                            sess.get_nested_transaction().rollback()
                            want = dict(sp_expect[0])
                            after_rollback(nested=True)
                            now = table()
                            outs.append("d" + showdb(now))
                            if now != want:
                                problems.append(("pending-change-lost", "savepoint rolled back; table %s, the application's changes before the savepoint say %s" % (now, want)))
                    elif kind == "rel" and sp_expect[0] is None:
                        outs.append("-")
                    elif kind in ("flush", "commit", "rel"):
                        if kind == "flush":
                            sess.flush()
                        elif kind == "rel":
                            sess.get_nested_transaction().commit()
                            sp_expect[0] = None
                        else:
                            sess.commit()
                            sp_expect[0] = None
                        pending_pks.clear()
                        deleted_pks.clear()
                        now = table()
                        outs.append("d" + showdb(now))
                        exp = {k: v for k, v in expect.items() if k != "dup"}
                        if now != exp or "dup" in expect:
                            problems.append(("pending-change-lost", "%s succeeded; table %s, the application's changes say %s" % (kind, now, expect)))
                        if kind == "commit":
                            committed.clear()
                            committed.update(now)
                    elif kind == "rollback":
                        sess.connection()  # make sure a transaction is open: rollback() is a pass-through otherwise
                        sess.rollback()
                        sp_expect[0] = None
                        after_rollback()
                        now = table()
                        outs.append("d" + showdb(now))
                        if now != committed:
                            problems.append(("rollback-left-changes", "table %s, committed %s" % (now, committed)))
                    elif kind == "len":
                        o = None
                        gc.collect()
                        outs.append("#%d" % len(sess.identity_map))
                    else:
                        raise ValueError(op)
                except (IntegrityError, StaleDataError, ObjectDeletedError) as e:
                    # a failing flush rolls back to the nearest boundary: only the savepoint when
                    # one is open (the application then closes the nested transaction)
                    nt = sess.get_nested_transaction()
                    in_sp = sp_expect[0] is not None
                    if in_sp != (nt is not None):
                        problems.append(("savepoint-bookkeeping", "op %s raised %s; savepoint open by the history: %s, nested transaction: %r" % (op, type(e).__name__, in_sp, nt)))
                    if nt is not None:
                        nt.rollback()
                    else:
                        sess.rollback()
                    if "dup" not in expect:
                        problems.append(("unjustified-flush-error", "op %s raised %s" % (op, type(e).__name__)))
                    want = dict(sp_expect[0]) if in_sp else dict(committed)
                    after_rollback(nested=in_sp)
                    now = table()
                    if now != want:
                        problems.append(("pending-change-lost" if in_sp else "rollback-left-changes", "op %s failed and was rolled back%s; table %s, expected %s" % (op, " to the savepoint" if in_sp else "", now, want)))
                    outs.append("integrity" + showdb(now))
                o = None
                cur = None
                e = None
                if not keepalive:
                    gc.collect()
                if stop:
                    break  # what the next flush does to that row is the defect, not this property
                if kind in ("rollback", "rbn") or outs[-1].startswith("integrity"):
                    # known defect: an instance re-loaded after the one the transaction inserted was
                    # garbage collected is unknown to the transaction and survives its rollback
                    rows_now = table()
                    ph = sorted(key[1][0] for key in sess.identity_map.keys() if key[1][0] not in rows_now)
                    if ph:
                        problems.append((KEY_PHANTOM, "after %s the identity map still holds instances %s whose rows were rolled back" % (kind, ph)))
                        break  # the rest of the history runs on a session the reference semantics cannot have
                    # known defect: the same for `_dirty` of a savepoint: an instance re-loaded after the one
                    # a flush inside the savepoint wrote was collected is not expired by the savepoint's rollback
                    stale = []
                    for key in sess.identity_map.keys():
                        ob = sess.identity_map.get(key)
                        if ob is not None and not inspect(ob).modified and "val" in ob.__dict__ and rows_now.get(key[1][0], "gone") != ob.__dict__["val"]:
                            stale.append((key[1][0], ob.__dict__["val"], rows_now.get(key[1][0])))
                    ob = None
                    if stale:
                        problems.append((KEY_STALE, "after %s unmodified instances hold values the rollback discarded (key, value, row): %s" % (kind, sorted(stale))))
                        break
    finally:
        try:
            if noaf is not None:
                noaf.__exit__(None, None, None)
            sess.close()
        except Exception:
            pass
        handles.clear()
        graveyard.clear()
    return outs, problems


# ---------------------------------------------------------------------- encoding
def request(case, gcflag=1):
    return "weakref run %d %d %d %d %s" % (case["n"], case["eoc"], case.get("ab", 1), gcflag, ",".join(":".join(str(x) for x in o) for o in case["ops"]) or "-")


# ---------------------------------------------------------------------- generators
def gen_random(rng, tier, ab=1, sp=True):
    n = rng.choice([1, 2, 3])
    ops = []
    if not ab:
        ops.append(("begin",))
    for k in range(n):
        if rng.random() < 0.7:
            ops.append(("add", k, rng.randint(0, 9)))
    ops.append(("commit",))
    if not ab and rng.random() < 0.6:
        # load inside a transaction, leave it, then touch the objects outside
        ops.append(("begin",))
        for k in range(n):
            ops.append(("get", k))
        ops.append(("commit",))
    m = rng.randint(6, 16 if tier == "quick" else 28)
    for _ in range(m):
        k = rng.randrange(n)
        r = rng.random()
        if r < 0.16:
            ops.append(("get", k))
        elif r < 0.34:
            ops.append(("set", k, rng.randint(10, 99)))
        elif r < 0.50:
            ops.append(("drop", k))
        elif r < 0.55:
            ops.append(("del", k))
        elif r < 0.62:
            ops.append(("add", k, rng.randint(10, 99)))
        elif r < 0.65:
            ops.append(("exp", k))
        elif r < 0.71:
            ops.append(("expa", k))
        elif r < 0.73:
            ops.append(("expi", k))
        elif r < 0.80:
            ops.append(("flush",))
        elif r < 0.86:
            ops.append(("commit",))
        elif r < 0.89:
            ops.append(("rollback",))
        elif r < 0.93 or not sp:
            ops.append(("len",))
        else:
            ops.append((rng.choice(["bn", "bn", "bn", "rbn", "rbn", "rel"]),))
        if not ab and rng.random() < (0.5 if ops[-1][0] in ("commit", "rollback") else 0.08):
            ops.append(("begin",))
    ops.append(("len",))
    if not ab:
        ops.append(("begin",))
    ops.append(("commit",))
    return n, ops


def small_scope(length):
    import itertools

    prefix = [("add", 0, 1), ("commit",), ("get", 0)]
    alpha = [("get", 0), ("set", 0, 2), ("drop", 0), ("del", 0), ("add", 0, 3), ("exp", 0), ("expa", 0), ("flush",), ("commit",), ("rollback",), ("len",),
             ("add", 1, 4), ("drop", 1), ("set", 1, 5)]
    for seq in itertools.product(alpha, repeat=length):
        yield prefix + list(seq) + [("len",), ("commit",)]


NULLW_OPS = [("begin",), ("add", 0, 2), ("commit",), ("begin",), ("get", 0), ("commit",), ("set", 0, 35), ("begin",), ("flush",), ("commit",)]
PHANTOM_OPS = [("add", 0, 1), ("flush",), ("drop", 0), ("get", 0), ("rollback",), ("len",), ("set", 0, 5), ("flush",)]


SAVEPOINT_DEMO_OPS = [("add", 0, 1), ("add", 1, 2), ("commit",), ("drop", 1), ("get", 0), ("set", 0, 7), ("drop", 0), ("bn",), ("add", 1, 9), ("flush",), ("len",), ("commit",)]
STALE_OPS = [("add", 0, 1), ("commit",), ("get", 0), ("bn",), ("set", 0, 5), ("flush",), ("drop", 0), ("get", 0), ("rbn",), ("get", 0)]


def small_scope_savepoint(length):
    """two committed rows, both loaded; every sequence over changes, drops, begin_nested, the two
    ways out of the savepoint, flush (failing when a duplicate key is pending) and reads"""
    import itertools

    prefix = [("add", 0, 1), ("add", 1, 2), ("add", 2, 3), ("commit",), ("drop", 2), ("get", 0), ("get", 1)]
    alpha = [("set", 0, 5), ("set", 1, 6), ("drop", 0), ("drop", 1), ("bn",), ("rbn",), ("rel",), ("flush",), ("add", 2, 9), ("add", 3, 8), ("del", 1), ("get", 0), ("rollback",)]
    for seq in itertools.product(alpha, repeat=length):
        if ("bn",) in seq:
            yield prefix + list(seq)


# ways a savepoint history ends: commit; release, then roll the whole transaction back; roll the savepoint back
SAVEPOINT_ENDS = [[("len",), ("commit",)], [("rel",), ("rollback",), ("len",), ("get", 3), ("commit",)], [("rbn",), ("len",), ("get", 0), ("commit",)]]


def small_scope_noautobegin():
    """autobegin=False: two loaded objects, no transaction; every 4-op sequence over changes
    (refused or not), drops, begin and flush, then begin + flush + commit"""
    import itertools

    prefix = [("begin",), ("add", 0, 1), ("add", 1, 2), ("commit",)]
    alpha = [("set", 0, 5), ("set", 1, 6), ("drop", 0), ("drop", 1), ("begin",), ("flush",), ("len",), ("expa", 1)]
    for seq in itertools.product(alpha, repeat=4):
        yield prefix + list(seq) + [("begin",), ("flush",), ("len",), ("commit",)]


def gen_cases(ctx, deep=False):
    thorough = ctx.tier == "thorough" or deep
    # witness of Props/C48.gc_unobservable_counterexample: replayed every run (known finding)
    yield {"n": 1, "eoc": 0, "ops": PHANTOM_OPS, "src": "phantom"}
    yield {"n": 1, "eoc": 1, "ab": 0, "ops": NULLW_OPS, "src": "nullw"}
    yield {"n": 1, "eoc": 0, "ops": STALE_OPS, "src": "stale"}
    for af in (0, 1):
        yield {"n": 2, "eoc": 1, "af": af, "ops": SAVEPOINT_DEMO_OPS, "src": "savepoint-demo"}
    for _ in range(2000 if thorough else 450):
        ab = ctx.rng.choice([1, 1, 0])
        n, ops = gen_random(ctx.rng, ctx.tier, ab)
        yield {"n": n, "eoc": ctx.rng.choice([0, 1] if ab else [0, 0, 0, 1]), "ab": ab, "af": ctx.rng.choice([0, 0, 1]), "ops": ops, "src": "random"}
    for seq in small_scope_savepoint(3):
        if thorough or ctx.rng.random() < 0.25:
            yield {"n": 4, "eoc": ctx.rng.choice([0, 1]), "af": ctx.rng.choice([0, 1]), "ops": seq + ctx.rng.choice(SAVEPOINT_ENDS), "src": "small-savepoint3"}
    if thorough:
        for seq in small_scope_savepoint(4):
            if ctx.rng.random() < 0.08:
                yield {"n": 4, "eoc": ctx.rng.choice([0, 1]), "af": ctx.rng.choice([0, 1]), "ops": seq + ctx.rng.choice(SAVEPOINT_ENDS), "src": "small-savepoint4"}
    for seq in small_scope_noautobegin():
        if ctx.rng.random() < (0.5 if thorough else 0.15):
            yield {"n": 2, "eoc": 0, "ab": 0, "ops": seq, "src": "small-noautobegin"}
    for seq in small_scope(2):
        yield {"n": 2, "eoc": ctx.rng.choice([0, 1]), "ops": seq, "src": "small2"}
    for seq in small_scope(3):
        if thorough or ctx.rng.random() < 0.12:
            yield {"n": 2, "eoc": ctx.rng.choice([0, 1]), "ops": seq, "src": "small3"}
    if thorough:
        for seq in small_scope(4):
            if ctx.rng.random() < 0.06:
                yield {"n": 2, "eoc": ctx.rng.choice([0, 1]), "ops": seq, "src": "small4"}


def jsonable(case):
    return dict(case, ops=[list(o) for o in case["ops"]])


def unjson(c):
    return dict(c, ops=[tuple(o) for o in c["ops"]])


def check_case(case):
    """returns (impl line, problems, number of operations executed)"""
    outs, problems = run_history(case, keepalive=False)
    nexec = len(outs)
    if any(k in KNOWN_KEYS for k, _ in problems):
        # the history stopped where the known defect appeared; compare that prefix only
        case = dict(case, ops=case["ops"][:nexec])
        # the two weak-dictionary defects need a collection: in the twin, where nothing is collected,
        # the same prefix must show neither a phantom nor a stale value
        if any(k in (KEY_PHANTOM, KEY_STALE) for k, _ in problems):
            _, tprobs = run_history(case, keepalive=True)
            problems += [("without-collection:" + k, d) for k, d in tprobs if k in (KEY_PHANTOM, KEY_STALE)]
    others = [p for p in problems if p[0] not in KNOWN_KEYS]
    if not others and nexec == len(case["ops"]):
        touts, tprobs = run_history(case, keepalive=True)
        problems += [("twin-" + k, d) for k, d in tprobs if k not in KNOWN_KEYS]
        if len(outs) != len(touts):
            if not tprobs:
                problems.append(("collection-observable", "histories diverge: %s vs %s" % (outs, touts)))
        else:
            for j, (op, a, b) in enumerate(zip(case["ops"], outs, touts)):
                if op[0] not in ("len", "drop") and a != b:
                    problems.append(("collection-observable",
                                     "op #%d %s: with reference drops + gc -> %s, with every object kept alive -> %s" % (j, op, a, b)))
                    break
    return ";".join(outs), problems, nexec


def _budget_exhausted(ctx, t0, n):
    """a broken tree can make every history slow (leaks, lock waits): stop generating in time
    and judge what was run"""
    import time

    limit = 70 if ctx.tier == "quick" else 650
    if time.time() - t0 > limit:
        ctx.assumptions.append("time budget reached after %d cases; remaining generated cases not run" % n)
        return True
    return False


def run(ctx, deep=False):
    ctx.rule = (
        "histories of get/set/delete/add/expire/flush/commit/rollback/begin_nested/savepoint rollback/savepoint release/len(identity_map) (autoflush off by Session(autoflush=False) or a no_autoflush block; "
        "all 3-op (25% quick) and 8% of the 4-op (thorough) sequences containing begin_nested over a 13-letter savepoint alphabet, each ended by commit, release + rollback, or savepoint rollback) interleaved with the application dropping its references "
        "(gc.collect() after every operation) on a real Session over SQLite, 1-3 rows, expire_on_commit on/off; random (seeded) + all 2-op (12% quick / "
        "all thorough 3-op, 15% thorough 4-op) sequences over a 13-letter alphabet; each history also runs as a twin in which nothing can be collected; "
        "non-trivial = a flush happened after a reference drop"
    )
    ctx.trusted.append("CPython reference counting and gc.collect() as the garbage collector")
    import time

    t0 = time.time()
    cases, impl_out, reqs = [], [], []
    for case in gen_cases(ctx, deep):
        if _budget_exhausted(ctx, t0, len(cases)):
            break
        line, problems, nexec = check_case(case)
        if nexec < len(case["ops"]):
            case = dict(case, ops=case["ops"][:nexec])
        jc = jsonable(case)
        kinds = [o[0] for o in case["ops"]]
        nontriv = "drop" in kinds and any(k in ("flush", "commit") for k in kinds[kinds.index("drop"):])
        ctx.case((case["eoc"], jc["ops"]), nontrivial=nontriv)
        ctx.count("src=" + case["src"])
        if "integrity" in line:
            ctx.count("outcome-seen=integrity")
        for key, detail in problems:
            ctx.violation(key, jc, detail)
        cases.append(jc)
        if sum(1 for v_ in ctx.violations if v_["key"] not in KNOWN_KEYS) >= 25:  # enough evidence; a broken tree can make every history slow
            impl_out.append(line)
            reqs.append(request(case))
            break
        impl_out.append(line)
        reqs.append(request(case))
        if case["src"] == "random" and len(ctx.samples) < 4:
            ctx.sample({"case": jc, "impl": line})
    if ctx.driver_ok():
        ctx.correspond("corr/c48:session-with-gc-vs-Model.Weakref.stepGc", cases, impl_out, ctx.driver(reqs))
        bad = ["weakref run 1 1 1 1 get:3", "weakref run 1 2 1 1 -", "weakref run 1 1 1 1 fly", "weakref run 1 1 1 7 -", "weakref run 1 1 1 -"]
        ctx.correspond("corr/c48:malformed-rejected", [{"req": b} for b in bad], ["bad-op"] * len(bad), ctx.driver(bad))


def search(ctx, broken):
    for d in ctx.disagreements:
        c = d.get("case")
        if isinstance(c, dict) and "ops" in c:
            _, problems, _ = check_case(unjson(c))
            for key, detail in problems:
                ctx.violation(key, c, detail)
    if ctx.violations:
        return
    sub = type(ctx)(ctx.pid, "thorough", ctx.seed + 1, ctx.level)
    run(sub, deep=True)
    ctx.violations.extend(sub.violations)


def replay(ctx, obj):
    case = unjson(obj["case"])
    line, problems, _ = check_case(case)
    print("replay C48 %s\n  impl: %s\n  oracle: %s" % (request(case), line, problems))
    return bool(problems)
