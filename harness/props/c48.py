"""C48 — pending changes survive the application dropping its references.

Model: lean/SaVerif/Model/Weakref.lean (weak identity map; `_strong_obj` for
modified states, `Session._new` / `_deleted` strong; collection after every step vs.
no collection at all).  Theorems: lean/SaVerif/Props/C48.lean (every history is
observationally the same with and without garbage collection).

Real side: a real Session (autoflush off) over SQLite.  The harness plays the
application: it holds objects in a dict, `drop` removes its reference, and
`gc.collect()` runs after every operation (CPython frees most objects at once
anyway; the explicit collection makes cycles deterministic).

Direct oracle, independent of the Lean model:
 1. twin run, the property verbatim: the same history in which dropped objects are
    secretly kept alive (nothing can be collected) must produce the same database
    after every flush / commit / rollback and the same values from every get;
 2. reference dict: every set / add / delete the application performed (through a
    reference it held at that moment) must be in the table after the next successful
    flush, whatever was dropped and collected in between.
"""
import gc
import os
import shutil
import tempfile
import warnings

PID = "C48"
LEVEL = "proof"
LEAN = ["SaVerif.Props.C48"]
META = {
    "text": "Lean theorems for ALL histories without a rollback (simulation proved by induction over the operation list): the session with garbage collection after every step and the session in which nothing is ever collected produce the same outputs (values read, flush results) and the same database (gc_unobservable_partial, gc_same_db_partial); the full statement is false - SessionTransaction._new is weak, so an instance re-loaded after the inserted one was collected survives a rollback as a phantom (gc_unobservable_counterexample, replayed on the real code as a known finding); collection never removes an object with pending work (collect_keeps_strong) and flush after collection writes what flush without it writes (collect_flush_db); an unmodified persistent object without application reference is released (collect_releases). Tied to orm/state.py (_strong_obj), identity.py (WeakInstanceDict), session.py by a differential run on a real Session with real reference drops and gc.collect(); the property is re-checked verbatim by a twin run in which nothing can be collected and by a dict reference.",
    "note": "Trusted: Lean kernel; correspondence (sampling + exhaustive short sequences); CPython reference counting + gc.collect() as the garbage collector; SQLite. Objects are flat (no relationship reachability between mapped objects), mutable-extension and pending-mutation references are not modelled. len(identity_map) is compared with the model only (release is a 'may' in the property, not checked by the oracle). gc_unobservable is a _partial theorem (hypothesis: no rollback() and no failing flush in the history) with a proved counterexample.",
    "technique": "Lean 4 simulation proof (GC vs no-GC semantics) + differential correspondence with real reference drops + metamorphic twin run",
    "design_ref": "DESIGN.md §3 C30–C48 (C48)",
}

_W = None
_TMP = None


def _tmpdir():
    global _TMP
    if _TMP is None:
        base = "/dev/shm" if os.path.isdir("/dev/shm") else None
        _TMP = tempfile.mkdtemp(prefix="verif-c48-", dir=base)
        import atexit

        atexit.register(shutil.rmtree, _TMP, True)
    return _TMP


class World:
    def __init__(self):
        import sqlalchemy as sa
        from sqlalchemy.orm import Session, declarative_base

        self.sa = sa
        self.engine = sa.create_engine("sqlite:///" + os.path.join(_tmpdir(), "c48.db"))
        Base = declarative_base()
        from harness.lib_orm2 import odd_mixin

        class T(odd_mixin("id", "val"), Base):
            __tablename__ = "t"
            id = sa.Column(sa.Integer, primary_key=True, autoincrement=False)
            val = sa.Column(sa.Integer)

        self.T = T
        Base.metadata.drop_all(self.engine)
        Base.metadata.create_all(self.engine)
        with Session(self.engine) as s0:  # configure mappers, warm caches
            s0.execute(sa.select(T)).all()
        # everything allocated so far (the whole library) is moved out of the collector's
        # sight: the per-operation gc.collect() then only looks at the history's objects
        gc.collect()
        gc.freeze()

    def reset(self):
        with self.engine.begin() as c:
            c.exec_driver_sql("delete from t")


def world():
    global _W
    if _W is None:
        _W = World()
    return _W


KEY_PHANTOM = "instance-reloaded-after-gc-of-inserted-one-survives-rollback-as-phantom"


def run_history(case, keepalive=False):
    import traceback

    try:
        return _run_history(case, keepalive)
    except Exception as e:
        tb = traceback.extract_tb(e.__traceback__)
        where = ["%s:%d" % (os.path.basename(f.filename), f.lineno) for f in tb if "sqlalchemy" in f.filename][-3:]
        return ["crash:" + type(e).__name__], [("unexpected-exception", "%s: %s at %s" % (type(e).__name__, str(e)[:200], where))]


def _run_history(case, keepalive):
    """keepalive=True: the twin in which dropped objects stay alive (no collection)."""
    from sqlalchemy import inspect
    from sqlalchemy.exc import IntegrityError
    from sqlalchemy.orm import Session
    from sqlalchemy.orm.exc import ObjectDeletedError, StaleDataError

    w = world()
    w.reset()
    T = w.T
    n, eoc, ops = case["n"], case["eoc"], case["ops"]
    sess = Session(w.engine, autoflush=False, expire_on_commit=bool(eoc))
    handles = {}  # the application's references
    graveyard = []  # twin only
    pending_pks, deleted_pks = set(), set()
    outs, problems = [], []
    expect, committed = {}, {}  # reference: table content the application is entitled to

    def ident(k):
        return sess.identity_map.get(inspect(T).identity_key_from_primary_key((k,)))

    def table():
        if sess.in_transaction():
            rows = sess.connection().exec_driver_sql("select id, val from t order by id").all()
        else:
            with w.engine.connect() as c:
                rows = c.exec_driver_sql("select id, val from t order by id").all()
        return {r[0]: r[1] for r in rows}

    def showdb(d):
        return "[" + " ".join("%d=%s" % (k, d[k]) for k in sorted(d)) + "]"

    def release(o):
        if keepalive:
            graveyard.append(o)

    def after_rollback():
        pending_pks.clear()
        deleted_pks.clear()
        expect.clear()
        expect.update(committed)
        # handles to expunged pending objects are useless to the application
        for k, o in list(handles.items()):
            st = inspect(o)
            if not st.persistent:
                release(handles.pop(k))

    try:
        with warnings.catch_warnings():
            warnings.simplefilter("ignore")
            for op in ops:
                kind = op[0]
                o = None
                try:
                    if kind == "get":
                        k = op[1]
                        if k in pending_pks or k in deleted_pks:
                            outs.append("-")
                        else:
                            o = sess.get(T, k)
                            if o is None:
                                handles.pop(k, None)
                                outs.append("None")
                            else:
                                handles[k] = o
                                outs.append("v%s" % o.val)
                    elif kind == "set":
                        k, v = op[1], op[2]
                        if k in handles:
                            handles[k].val = v
                            expect[k] = v
                            outs.append("d")
                        else:
                            outs.append("-")
                    elif kind == "del":
                        k = op[1]
                        if k in handles and k not in pending_pks:
                            o = handles.pop(k)
                            sess.delete(o)
                            release(o)
                            deleted_pks.add(k)
                            expect.pop(k, None)
                            outs.append("d")
                        else:
                            outs.append("-")
                    elif kind == "add":
                        k, v = op[1], op[2]
                        cur = ident(k)
                        free = cur is None or (k not in handles and not inspect(cur).modified and cur not in sess.deleted)
                        if k not in pending_pks and k not in handles and free:
                            o = T(id=k, val=v)
                            sess.add(o)
                            handles[k] = o
                            pending_pks.add(k)
                            if k in expect:
                                expect["dup"] = True
                            else:
                                expect[k] = v
                            outs.append("d")
                        else:
                            outs.append("-")
                    elif kind == "drop":
                        k = op[1]
                        if k in handles:
                            release(handles.pop(k))
                        outs.append("d")
                    elif kind == "exp":
                        k = op[1]
                        if k in handles and k not in pending_pks:
                            sess.expire(handles[k])
                            # expire discards the pending modification
                            if k in committed or True:
                                pass
                            expect_k = table().get(k)
                            if expect_k is None:
                                expect.pop(k, None)
                            else:
                                expect[k] = expect_k
                            outs.append("d")
                        else:
                            outs.append("-")
                    elif kind in ("flush", "commit"):
                        if kind == "flush":
                            sess.flush()
                        else:
                            sess.commit()
                        pending_pks.clear()
                        deleted_pks.clear()
                        now = table()
                        outs.append("d" + showdb(now))
                        exp = {k: v for k, v in expect.items() if k != "dup"}
                        if now != exp or "dup" in expect:
                            problems.append(("pending-change-lost", "%s succeeded; table %s, the application's changes say %s" % (kind, now, expect)))
                        if kind == "commit":
                            committed.clear()
                            committed.update(now)
                    elif kind == "rollback":
                        sess.connection()  # make sure a transaction is open: rollback() is a pass-through otherwise
                        sess.rollback()
                        after_rollback()
                        now = table()
                        outs.append("d" + showdb(now))
                        if now != committed:
                            problems.append(("rollback-left-changes", "table %s, committed %s" % (now, committed)))
                    elif kind == "len":
                        o = None
                        gc.collect()
                        outs.append("#%d" % len(sess.identity_map))
                    else:
                        raise ValueError(op)
                except (IntegrityError, StaleDataError, ObjectDeletedError) as e:
                    sess.rollback()
                    if "dup" not in expect:
                        problems.append(("unjustified-flush-error", "op %s raised %s" % (op, type(e).__name__)))
                    after_rollback()
                    outs.append("integrity" + showdb(table()))
                o = None
                cur = None
                e = None
                if not keepalive:
                    gc.collect()
                if kind == "rollback" or outs[-1].startswith("integrity"):
                    # known defect: an instance re-loaded after the one the transaction inserted was
                    # garbage collected is unknown to the transaction and survives its rollback
                    rows_now = table()
                    ph = sorted(key[1][0] for key in sess.identity_map.keys() if key[1][0] not in rows_now)
                    if ph:
                        problems.append((KEY_PHANTOM, "after %s the identity map still holds instances %s whose rows were rolled back" % (kind, ph)))
                        break  # the rest of the history runs on a session the reference semantics cannot have
    finally:
        try:
            sess.close()
        except Exception:
            pass
        handles.clear()
        graveyard.clear()
    return outs, problems


# ---------------------------------------------------------------------- encoding
def request(case, gcflag=1):
    return "weakref run %d %d %d %s" % (case["n"], case["eoc"], gcflag, ",".join(":".join(str(x) for x in o) for o in case["ops"]) or "-")


# ---------------------------------------------------------------------- generators
def gen_random(rng, tier):
    n = rng.choice([1, 2, 3])
    ops = []
    for k in range(n):
        if rng.random() < 0.7:
            ops.append(("add", k, rng.randint(0, 9)))
    ops.append(("commit",))
    m = rng.randint(6, 16 if tier == "quick" else 28)
    for _ in range(m):
        k = rng.randrange(n)
        r = rng.random()
        if r < 0.18:
            ops.append(("get", k))
        elif r < 0.36:
            ops.append(("set", k, rng.randint(10, 99)))
        elif r < 0.54:
            ops.append(("drop", k))
        elif r < 0.60:
            ops.append(("del", k))
        elif r < 0.68:
            ops.append(("add", k, rng.randint(10, 99)))
        elif r < 0.72:
            ops.append(("exp", k))
        elif r < 0.82:
            ops.append(("flush",))
        elif r < 0.89:
            ops.append(("commit",))
        elif r < 0.93:
            ops.append(("rollback",))
        else:
            ops.append(("len",))
    ops.append(("len",))
    ops.append(("commit",))
    return n, ops


def small_scope(length):
    import itertools

    prefix = [("add", 0, 1), ("commit",), ("get", 0)]
    alpha = [("get", 0), ("set", 0, 2), ("drop", 0), ("del", 0), ("add", 0, 3), ("exp", 0), ("flush",), ("commit",), ("rollback",), ("len",),
             ("add", 1, 4), ("drop", 1), ("set", 1, 5)]
    for seq in itertools.product(alpha, repeat=length):
        yield prefix + list(seq) + [("len",), ("commit",)]


PHANTOM_OPS = [("add", 0, 1), ("flush",), ("drop", 0), ("get", 0), ("rollback",), ("len",), ("set", 0, 5), ("flush",)]


def gen_cases(ctx, deep=False):
    thorough = ctx.tier == "thorough" or deep
    # witness of Props/C48.gc_unobservable_counterexample: replayed every run (known finding)
    yield {"n": 1, "eoc": 0, "ops": PHANTOM_OPS, "src": "phantom"}
    for _ in range(3500 if thorough else 450):
        n, ops = gen_random(ctx.rng, ctx.tier)
        yield {"n": n, "eoc": ctx.rng.choice([0, 1]), "ops": ops, "src": "random"}
    for seq in small_scope(2):
        yield {"n": 2, "eoc": ctx.rng.choice([0, 1]), "ops": seq, "src": "small2"}
    for seq in small_scope(3):
        if thorough or ctx.rng.random() < 0.12:
            yield {"n": 2, "eoc": ctx.rng.choice([0, 1]), "ops": seq, "src": "small3"}
    if thorough:
        for seq in small_scope(4):
            if ctx.rng.random() < 0.15:
                yield {"n": 2, "eoc": ctx.rng.choice([0, 1]), "ops": seq, "src": "small4"}


def jsonable(case):
    return dict(case, ops=[list(o) for o in case["ops"]])


def unjson(c):
    return dict(c, ops=[tuple(o) for o in c["ops"]])


def check_case(case):
    """returns (impl line, problems, number of operations executed)"""
    outs, problems = run_history(case, keepalive=False)
    nexec = len(outs)
    if any(k == KEY_PHANTOM for k, _ in problems):
        # the history stopped where the phantom appeared; compare that prefix only
        case = dict(case, ops=case["ops"][:nexec])
    others = [p for p in problems if p[0] != KEY_PHANTOM]
    if not others and nexec == len(case["ops"]):
        touts, tprobs = run_history(case, keepalive=True)
        problems += [("twin-" + k, d) for k, d in tprobs if k != KEY_PHANTOM]
        if len(outs) != len(touts):
            if not tprobs:
                problems.append(("collection-observable", "histories diverge: %s vs %s" % (outs, touts)))
        else:
            for j, (op, a, b) in enumerate(zip(case["ops"], outs, touts)):
                if op[0] not in ("len", "drop") and a != b:
                    problems.append(("collection-observable",
                                     "op #%d %s: with reference drops + gc -> %s, with every object kept alive -> %s" % (j, op, a, b)))
                    break
    return ";".join(outs), problems, nexec


def _budget_exhausted(ctx, t0, n):
    """a broken tree can make every history slow (leaks, lock waits): stop generating in time
    and judge what was run"""
    import time

    limit = 70 if ctx.tier == "quick" else 650
    if time.time() - t0 > limit:
        ctx.assumptions.append("time budget reached after %d cases; remaining generated cases not run" % n)
        return True
    return False


def run(ctx, deep=False):
    ctx.rule = (
        "histories of get/set/delete/add/expire/flush/commit/rollback/len(identity_map) interleaved with the application dropping its references "
        "(gc.collect() after every operation) on a real Session over SQLite, 1-3 rows, expire_on_commit on/off; random (seeded) + all 2-op (12% quick / "
        "all thorough 3-op, 15% thorough 4-op) sequences over a 13-letter alphabet; each history also runs as a twin in which nothing can be collected; "
        "non-trivial = a flush happened after a reference drop"
    )
    ctx.trusted.append("CPython reference counting and gc.collect() as the garbage collector")
    import time

    t0 = time.time()
    cases, impl_out, reqs = [], [], []
    for case in gen_cases(ctx, deep):
        if _budget_exhausted(ctx, t0, len(cases)):
            break
        line, problems, nexec = check_case(case)
        if nexec < len(case["ops"]):
            case = dict(case, ops=case["ops"][:nexec])
        jc = jsonable(case)
        kinds = [o[0] for o in case["ops"]]
        nontriv = "drop" in kinds and any(k in ("flush", "commit") for k in kinds[kinds.index("drop"):])
        ctx.case((case["eoc"], jc["ops"]), nontrivial=nontriv)
        ctx.count("src=" + case["src"])
        if "integrity" in line:
            ctx.count("outcome-seen=integrity")
        for key, detail in problems:
            ctx.violation(key, jc, detail)
        cases.append(jc)
        if len(ctx.violations) >= 25:  # enough evidence; a broken tree can make every history slow
            impl_out.append(line)
            reqs.append(request(case))
            break
        impl_out.append(line)
        reqs.append(request(case))
        if case["src"] == "random" and len(ctx.samples) < 4:
            ctx.sample({"case": jc, "impl": line})
    if ctx.driver_ok():
        ctx.correspond("corr/c48:session-with-gc-vs-Model.Weakref.stepGc", cases, impl_out, ctx.driver(reqs))
        bad = ["weakref run 1 1 1 get:3", "weakref run 1 2 1 -", "weakref run 1 1 1 fly", "weakref run 1 1 7 -"]
        ctx.correspond("corr/c48:malformed-rejected", [{"req": b} for b in bad], ["bad-op"] * len(bad), ctx.driver(bad))


def search(ctx, broken):
    for d in ctx.disagreements:
        c = d.get("case")
        if isinstance(c, dict) and "ops" in c:
            _, problems, _ = check_case(unjson(c))
            for key, detail in problems:
                ctx.violation(key, c, detail)
    if ctx.violations:
        return
    sub = type(ctx)(ctx.pid, "thorough", ctx.seed + 1, ctx.level)
    run(sub, deep=True)
    ctx.violations.extend(sub.violations)


def replay(ctx, obj):
    case = unjson(obj["case"])
    line, problems, _ = check_case(case)
    print("replay C48 %s\n  impl: %s\n  oracle: %s" % (request(case), line, problems))
    return bool(problems)
