"""C13 — column defaults and onupdate fire exactly when the value is omitted.

Model:    lean/SaVerif/Model/Defaults.lean (crud._scan_cols dispositions +
          DefaultExecutionContext._process_execute_defaults + the row the database stores)
Theorems: lean/SaVerif/Props/C13.lean

Each case builds a table whose columns carry random default / onupdate kinds (Python
scalar, no-arg callable, context-sensitive callable, SQL expression, server default,
none), executes an INSERT or UPDATE (single, executemany, executemany through
insertmanyvalues, .values(), return_defaults, ORM flush) on SQLite with random
supplied / omitted / NULL cells per row, and compares stored rows, callable invocation
counts, dispositions, returned defaults and inserted primary keys.
"""
import random
import re

PID = "C13"
LEVEL = "proof"
LEAN = ["SaVerif.Props.C13"]
META = {
    "text": "Lean theorems, for every column list (any mix of default kinds), every number of rows and every choice of supplied / NULL / omitted cells: if all parameter sets of an execution mention the keys of the first one (always true for a single execute) then no error is raised, every cell holds the supplied value when the row supplies the column (NULL included) and the column's default otherwise, the n-th row sees the n-th value of a Python callable, and each callable runs exactly once per row when the column is omitted and never when it is supplied (default_fires_iff_omitted_partial / _single, supplied_none_kept); same for UPDATE and onupdate with 'keeps its old value' for columns without onupdate (onupdate_fires_iff_omitted_partial). The unrestricted executemany statement is false of the code and of the model: proved counterexamples default_fires_counterexample / onupdate_fires_counterexample (finding F16). The model is tied to the code by a differential run on SQLite over random tables, default kinds, parameter sets and execution forms, comparing stored rows, invocation counts and per-column dispositions; the property is re-checked on the stored rows by an independent oracle which also checks inserted_primary_key(_rows), returned_defaults(_rows) and last_inserted_params against what was stored.",
    "note": "_partial: the forced hypothesis is 'every parameter set has the first set's keys'. Known finding F16 (executemany: a later set supplies a column that the first set omits -> value silently dropped / default or onupdate stored instead), keyed by that predicate separately for INSERT and UPDATE. Modelled, not verified: primary-key default handling (need_pks / implicit_returning / lastrowid branches of _scan_cols) is exercised by the oracle only; the ORM path (persistence.py) is covered only by the oracle (None on a defaulted attribute is documented to mean 'omit'); SQL expression and server defaults are evaluated by SQLite, represented in the model by their constant value; sequences / Identity are out of scope (not executable on SQLite).",
    "technique": "Lean 4 proof by induction over the columns of one row and over the rows of one execution (invariant of the _process_execute_defaults loop) + differential correspondence on SQLite",
    "design_ref": "DESIGN.md §3 C13",
}

F16_INSERT = "executemany-insert-later-set-supplies-column-first-set-omits"
F16_UPDATE = "executemany-update-later-set-supplies-column-first-set-omits"


# ---------------------------------------------------------------------------- generation
def gen_kind(rng, ncols, for_update=False):
    r = rng.random()
    if r < 0.22:
        return ["n"]
    if r < 0.40:
        return ["s", rng.choice([0, 7, -3, 41])]
    if r < 0.58:
        return ["c", rng.choice([100, 200, 5000])]
    if r < 0.72:
        return ["x", rng.randrange(ncols), rng.choice([1000, 1, -50])]
    if r < 0.87:
        return ["q", rng.choice([9, 0, 77])]
    return ["v", rng.choice([3, 0, 66])]


def gen_cell(rng, p_supply):
    if rng.random() < p_supply:
        return rng.choice(["N", "N", 0, 1, 5, -8, 12, 300])
    return "_"


def gen_case(rng, tier):
    ncols = rng.choice([1, 2, 3, 3, 4, 5, 6])
    kinds = [gen_kind(rng, ncols) for _ in range(ncols)]
    onupd = [gen_kind(rng, ncols, True) for _ in range(ncols)]
    form = rng.choice(["insert1", "insert1", "insert1v", "insert1rd", "insertN", "insertN", "insertN", "insertNret", "insertNrd", "insertMV", "insertMV", "update1", "update1", "update1ov", "update1ov", "updateN", "updateN", "orm"])
    if form == "insertMV":
        # multi-row VALUES: no context-sensitive defaults (their view of the other rows'
        # parameters is a different question)
        kinds = [(["c", 300] if k[0] == "x" else k) for k in kinds]
    if form.startswith("insert1") or form in ("update1", "update1ov"):
        n = 1
    else:
        n = rng.choice([2, 2, 3, 4, 6] + ([9, 15] if tier == "thorough" else []))
    hetero = "no"
    p_supply = rng.choice([0.2, 0.5, 0.5, 0.8])
    first = [gen_cell(rng, p_supply) for _ in range(ncols)]
    if form in ("update1", "update1ov", "updateN", "insertMV") and all(c == "_" for c in first):
        first[rng.randrange(ncols)] = 4
    rows = [first]
    mask = [c != "_" for c in first]
    r = rng.random()
    if form == "insertMV":
        r = 1.0
    if n > 1 and r < 0.12:
        hetero = "extra"  # later sets supply a column the first omits (F16)
    elif n > 1 and r < 0.2:
        hetero = "missing"  # later set lacks a key of the first
    for i in range(1, n):
        row = [(rng.choice(["N", 0, 2, 6, -1, 44]) if m else "_") for m in mask]
        rows.append(row)
    if hetero == "extra" and not all(mask):
        i = rng.randrange(1, n)
        c = rng.choice([k for k, m in enumerate(mask) if not m])
        rows[i][c] = rng.choice(["N", 5, 13])
    elif hetero == "missing" and any(mask) and not (form.startswith("update") and sum(mask) == 1):
        i = rng.randrange(1, n)
        c = rng.choice([k for k, m in enumerate(mask) if m])
        rows[i][c] = "_"
    else:
        hetero = "no"
    if form == "insertMV":
        # later rows may leave out (or set to NULL) a column of the first row when that
        # column has a Python / SQL-expression default
        for row in rows[1:]:
            for c, m in enumerate(mask):
                if m and kinds[c][0] in "scq" and rng.random() < 0.35:
                    row[c] = "_"
                elif m and rng.random() < 0.3:
                    row[c] = "N"
    pk = rng.choice(["autoinc", "autoinc", "autoinc", "callable", "sqlexpr", "supplied", "autoinc_supplied"])
    if form == "insertMV" and pk == "sqlexpr":
        pk = "autoinc"
    implicit_returning = rng.random() < 0.85
    if pk == "sqlexpr" and form in ("insertNrd", "orm"):
        # without RETURNING the key expression would be pre-executed once per row before
        # any row exists (same value for all): not a default-firing question
        implicit_returning = True
    return {
        "kinds": kinds,
        "onupd": onupd,
        "form": form,
        "rows": rows,
        "hetero": hetero,
        "pk": pk,
        "implicit_returning": implicit_returning,
        "page": rng.choice([None, 1, 2]),
        "keyed": rng.random() < 0.4,
        "seed": rng.randrange(1 << 30),
    }


def kind_tok(k):
    if k[0] == "n":
        return "n"
    if k[0] == "x":
        return "x%d:%d" % (k[1], k[2])
    return "%s%d" % (k[0], k[1])


def cell_tok(c):
    return str(c)


# ---------------------------------------------------------------------------- execution
class Counters:
    def __init__(self, n):
        self.ins = [0] * n
        self.upd = [0] * n
        self.pk = 0


def build(case):
    import sqlalchemy as sa
    from sqlalchemy import Column, FetchedValue, Integer, MetaData, Table, literal, text

    from harness.lib_dml import make_engine

    kw = {}
    if case.get("page"):
        kw["insertmanyvalues_page_size"] = case["page"]
    eng, hub = make_engine(**kw)
    ncols = len(case["kinds"])
    names = ["c%d" % i for i in range(ncols)]
    cnt = Counters(ncols)

    def mk(kind, c, arr):
        if kind[0] == "n":
            return {}
        if kind[0] == "s":
            return {"py": kind[1]}
        if kind[0] == "c":
            base = kind[1]

            def f():
                v = base + arr[c]
                arr[c] += 1
                return v

            return {"py": f}
        if kind[0] == "x":
            src, add = names[kind[1]], kind[2]

            def g(context):
                arr[c] += 1
                return (context.get_current_parameters().get(src) or 0) + add

            return {"py": g}
        if kind[0] == "q":
            return {"py": literal(kind[1] - 1) + 1}
        if kind[0] == "v":
            return {"server": kind[1]}
        raise AssertionError(kind)

    cols = []
    pkk = case["pk"]
    if pkk in ("autoinc", "autoinc_supplied"):
        cols.append(Column("id", Integer, primary_key=True))
    elif pkk == "callable":

        def pkf():
            cnt.pk += 1
            return 1000 + 7 * cnt.pk

        cols.append(Column("id", Integer, primary_key=True, default=pkf))
    elif pkk == "sqlexpr":
        # a SQL expression default: coalesce(max(id), 499) + 1, evaluated by the database
        # for each row (inline) or pre-executed (single insert without RETURNING)
        t_ref = sa.table("t", sa.column("id"))
        cols.append(Column("id", Integer, primary_key=True, default=sa.select(sa.func.coalesce(sa.func.max(t_ref.c.id), 499) + 1).scalar_subquery()))
    else:
        cols.append(Column("id", Integer, primary_key=True, autoincrement=False))
    for c in range(ncols):
        d = mk(case["kinds"][c], c, cnt.ins)
        u = mk(case["onupd"][c], c, cnt.upd)
        kwc = {}
        if "py" in d:
            kwc["default"] = d["py"]
        if "server" in d:
            kwc["server_default"] = text(str(d["server"]))
        if "py" in u:
            kwc["onupdate"] = u["py"]
        if "server" in u:
            kwc["server_onupdate"] = FetchedValue()
        if case.get("keyed"):
            # the column's key (used in parameters / attribute names) differs from its SQL name
            cols.append(Column("col%d" % c, Integer, key=names[c], **kwc))
        else:
            cols.append(Column(names[c], Integer, **kwc))
    m = MetaData()
    t = Table("t", m, *cols, implicit_returning=case["implicit_returning"])
    m.create_all(eng)
    return eng, hub, t, names, cnt


def cell_val(c):
    return None if c == "N" else c


def run_case(case):
    """execute on the real code; returns observation dict"""
    import warnings

    import sqlalchemy as sa
    from sqlalchemy import bindparam

    from harness.lib_dml import exc_enum

    eng, hub, t, names, cnt = build(case)
    ncols = len(names)
    form = case["form"]
    rows = case["rows"]
    obs = {"case": case, "exc": None, "names": names, "stored": None, "olds": None}
    obs["sqlnames"] = [t.c[nm].name for nm in names]
    name2key = {col.name: col.key for col in t.c}
    params = []
    for i, r in enumerate(rows):
        p = {names[c]: cell_val(r[c]) for c in range(ncols) if r[c] != "_"}
        if case["pk"] in ("supplied", "autoinc_supplied") and not form.startswith("update"):
            p["id"] = 10 + 3 * i
        params.append(p)
    obs["params"] = params
    is_update = form.startswith("update")
    old_ids = []
    if is_update:
        # existing rows to update, inserted with explicit values for every column
        with eng.begin() as c:
            for i in range(len(rows)):
                vals = {names[k]: 500 + 10 * i + k for k in range(ncols)}
                vals["id"] = 1 + i
                c.execute(sa.insert(t).values(**vals))  # every column explicit: no default fires
                old_ids.append(1 + i)
        obs["olds"] = [[500 + 10 * i + k for k in range(ncols)] for i in range(len(rows))]
        cnt.ins[:] = [0] * ncols
        cnt.upd[:] = [0] * ncols
        cnt.pk = 0
    hub.reset()
    res_info = {}
    try:
        with warnings.catch_warnings():
            warnings.simplefilter("ignore")
            with eng.begin() as c:
                if form == "insert1":
                    r = c.execute(t.insert(), params[0])
                elif form == "insert1v":
                    r = c.execute(t.insert().values(**params[0]))
                elif form == "insert1rd":
                    r = c.execute(t.insert().return_defaults(), params[0])
                elif form == "insertN":
                    r = c.execute(t.insert(), params)
                elif form == "insertNret":
                    r = c.execute(t.insert().returning(t.c.id, sort_by_parameter_order=True), params)
                    res_info["returned_ids"] = [row[0] for row in r.all()]
                elif form == "insertNrd":
                    r = c.execute(t.insert().return_defaults(sort_by_parameter_order=True), params)
                elif form == "insertMV":
                    r = c.execute(t.insert().values(params))
                elif form == "update1ov":
                    r = c.execute(t.update().where(t.c.id == old_ids[0]).ordered_values(*[(t.c[k], v) for k, v in params[0].items()]))
                elif form == "update1":
                    r = c.execute(t.update().where(t.c.id == old_ids[0]).values(**params[0]))
                elif form == "updateN":
                    ps = [dict(p, b_id=old_ids[i]) for i, p in enumerate(params)]
                    r = c.execute(t.update().where(t.c.id == bindparam("b_id")), ps)
                elif form == "orm":
                    r = None
                    orm_flush(c, t, names, params, res_info)
                else:
                    raise AssertionError(form)
                if r is not None:
                    comp = r.context.compiled
                    res_info["sql"] = str(comp)
                    if comp.isinsert and form != "insertMV":
                        pkc = t.c.id
                        m_ = re.search(r"INSERT INTO t \((.*?)\) VALUES \((.*)\)", str(comp), re.S)
                        cols_ = [x.strip() for x in m_.group(1).split(",")] if m_ else []
                        vals_ = [x.strip() for x in _split_top(_strip_returning(m_.group(2)))] if m_ else []
                        pkval = dict(zip(cols_, vals_)).get("id")
                        if pkval in ("NULL", "DEFAULT") and len(cols_) == 1:
                            pkval = None  # "INSERT DEFAULT VALUES" rewritten as (firstcol) VALUES (DEFAULT)
                        res_info["pkplan"] = "".join(
                            "1" if b else "0"
                            for b in (
                                pkval is not None,
                                pkval is not None and "id" in params[0],
                                any(c_ is pkc for c_ in comp.insert_prefetch),
                                pkval is not None and pkval != "?",
                                any(c_ is pkc for c_ in comp.implicit_returning),
                                bool(comp.postfetch_lastrowid),
                            )
                        )
                        d_ = comp.dialect
                        res_info["pkctx"] = "".join(
                            "1" if b else "0"
                            for b in (
                                d_.insert_returning,
                                d_.postfetch_lastrowid,
                                d_.favor_returning_over_lastrowid,
                                d_.insert_executemany_returning,
                                d_.insert_null_pk_still_autoincrements,
                                t.implicit_returning,
                                bool(comp.compile_state.statement._inline),
                                bool(comp.compile_state.statement._return_defaults),
                                bool(comp.compile_state.statement._returning),
                                bool(comp.for_executemany),
                            )
                        )
                    res_info["prefetch"] = [getattr(c_, "name", None) or c_.key for c_ in (comp.insert_prefetch or comp.update_prefetch or [])]
                    if form in ("insert1", "insert1v", "insert1rd"):
                        res_info["ipk"] = tuple(r.inserted_primary_key) if r.inserted_primary_key is not None else None
                        res_info["lip"] = dict(r.last_inserted_params())
                    if form == "insert1rd":
                        rd = r.returned_defaults
                        res_info["rd"] = None if rd is None else {name2key.get(k, k): v for k, v in rd._mapping.items()}
                    if form == "insertNrd" and case["implicit_returning"]:
                        res_info["ipk_rows"] = [tuple(x) for x in r.inserted_primary_key_rows]
                        rdr = r.returned_defaults_rows
                        res_info["rd_rows"] = None if rdr is None else [{name2key.get(k, k): v for k, v in x._mapping.items()} for x in rdr]
                    if form in ("update1", "update1ov"):
                        res_info["lup"] = dict(r.last_updated_params())
    except Exception as e:  # noqa: BLE001
        obs["exc"] = exc_enum(e)
        obs["exc_text"] = "%s: %s" % (type(e).__name__, str(e)[:240])
    obs["info"] = res_info
    obs["counts"] = list(cnt.upd if is_update else cnt.ins)
    with eng.connect() as c:
        allrows = [{col.key: x._mapping[col] for col in t.c} for x in c.execute(sa.select(t).order_by(t.c.id))]
    obs["all"] = allrows
    obs["log"] = list(hub.log)
    eng.dispose()
    return obs


def orm_flush(conn, t, names, params, res_info):
    from sqlalchemy.orm import Session, registry

    reg = registry()

    class Obj:
        pass

    reg.map_imperatively(Obj, t)
    objs = []
    with Session(bind=conn) as s:
        for p in params:
            o = Obj()
            for k, v in p.items():
                setattr(o, k, v)
            s.add(o)
            objs.append(o)
        s.flush()
        res_info["orm_ids"] = [o.id for o in objs]
        # what the ORM believes each object holds after the flush (expired server-side
        # values are loaded on access)
        res_info["orm_state"] = [{n: getattr(o, n) for n in names} for o in objs]
        s.commit()
    reg.dispose()


# ---------------------------------------------------------------------------- oracle
def expected_rows(case, names, params, olds):
    """independent statement of the property: per row, supplied -> kept, omitted -> default.
    Returns (rows, counts) with callable values given as the n-th value of the column's
    callable, n = number of earlier rows of this execution that omit the column."""
    ncols = len(names)
    is_update = case["form"].startswith("update")
    kinds = case["onupd"] if is_update else case["kinds"]
    counts = [0] * ncols
    out = []
    for i, p in enumerate(params):
        row = [None] * ncols
        live = {}
        # user supplied values are visible to context functions; defaults become visible
        # in column order as they are produced
        for c in range(ncols):
            if names[c] in p:
                live[names[c]] = p[names[c]]
        for c in range(ncols):
            if names[c] not in p and kinds[c][0] in "scx":
                live.setdefault(names[c], None)
        for c in range(ncols):
            k = kinds[c]
            if names[c] in p:
                row[c] = p[names[c]]
                continue
            if k[0] == "s":
                row[c] = k[1]
                live[names[c]] = row[c]
            elif k[0] == "c":
                row[c] = k[1] + counts[c]
                counts[c] += 1
                live[names[c]] = row[c]
            elif k[0] == "x":
                row[c] = (live.get(names[k[1]]) or 0) + k[2]
                counts[c] += 1
                live[names[c]] = row[c]
            elif k[0] == "q":
                row[c] = k[1]
            elif k[0] == "v":
                row[c] = olds[i][c] if is_update else k[1]
            else:
                row[c] = olds[i][c] if is_update else None
        out.append(row)
    return out, counts


def stored_rows(obs):
    """rows of this execution as stored, in parameter order (list of value lists), or None"""
    case, names = obs["case"], obs["names"]
    allrows = obs["all"]
    n = len(case["rows"])
    form = case["form"]
    if form.startswith("update"):
        rows = [r for r in allrows if r["id"] in range(1, n + 1)]
    else:
        rows = allrows
        rows = sorted(rows, key=lambda r: (r["id"] is None, r["id"] or 0))  # keys are generated increasingly
    if len(rows) != n:
        return None
    if form == "insertNret" and obs["info"].get("returned_ids") is not None:
        byid = {r["id"]: r for r in rows}
        try:
            rows = [byid[i] for i in obs["info"]["returned_ids"]]
        except KeyError:
            return None
    if form == "orm" and obs["info"].get("orm_ids") is not None:
        byid = {r["id"]: r for r in rows}
        try:
            rows = [byid[i] for i in obs["info"]["orm_ids"]]
        except KeyError:
            return None
    return rows


def f16_applies(case):
    """input predicate of finding F16"""
    rows = case["rows"]
    first = rows[0]
    for r in rows[1:]:
        for c, cell in enumerate(r):
            if cell != "_" and first[c] == "_":
                return True
    return False


def missing_applies(case):
    rows = case["rows"]
    first = rows[0]
    for r in rows[1:]:
        for c, cell in enumerate(r):
            if cell == "_" and first[c] != "_":
                return True
    return False


def oracle(obs):
    case, names = obs["case"], obs["names"]
    form = case["form"]
    params = obs["params"]
    ncols = len(names)
    n = len(params)
    is_update = form.startswith("update")
    if form == "orm":
        return oracle_orm(obs)
    if obs["exc"] is not None:
        if form != "insertMV" and missing_applies(case) and obs["exc"].startswith("StatementError"):
            return None  # a later set lacks a key of the statement: rejected loudly
        return ("c13-exception:" + obs["exc"].split(":")[0], "unexpected %s" % obs.get("exc_text"))
    if form != "insertMV" and missing_applies(case) and n > 1:
        return ("c13-missing-key-accepted", "a later parameter set lacks a key of the first set but nothing was raised")
    rows = stored_rows(obs)
    if rows is None:
        return ("c13-rowcount", "expected %d rows of this execution, table has %s" % (n, obs["all"]))
    want, wcounts = expected_rows(case, names, params, obs["olds"])
    for i in range(n):
        for c in range(ncols):
            got = rows[i][names[c]]
            if got != want[i][c]:
                supplied = names[c] in params[i]
                key = "c13-supplied-value-overridden" if supplied else "c13-default-not-applied"
                return (key, "row %d column %s (%s %s): stored %r, expected %r; params %s" % (i, names[c], "onupdate" if is_update else "default", (case["onupd"] if is_update else case["kinds"])[c], got, want[i][c], params[i]))
    if obs["counts"] != wcounts:
        return ("c13-invocation-count", "callable invocations per column %s, expected %s" % (obs["counts"], wcounts))
    info = obs["info"]
    # primary keys
    ids = [r["id"] for r in rows]
    if not is_update:
        if len(set(ids)) != n or any(i is None for i in ids):
            return ("c13-pk-not-generated", "ids %s" % ids)
        if case["pk"] in ("supplied", "autoinc_supplied") and ids != [p["id"] for p in params]:
            return ("c13-pk-supplied-overridden", "ids %s params %s" % (ids, [p["id"] for p in params]))
    if "ipk" in info and info["ipk"] != (ids[0],):
        return ("c13-inserted-primary-key", "inserted_primary_key %s, stored id %s" % (info["ipk"], ids[0]))
    if "ipk_rows" in info and info["ipk_rows"] != [(i,) for i in ids] and sorted(info["ipk_rows"]) != sorted((i,) for i in ids):
        return ("c13-inserted-primary-key-rows", "%s vs stored ids %s" % (info["ipk_rows"], ids))
    if "ipk_rows" in info:
        # sort_by_parameter_order=True: the n-th key belongs to the n-th parameter set
        byid = {r["id"]: r for r in obs["all"]}
        for i, (pk,) in enumerate(info["ipk_rows"]):
            r = byid.get(pk)
            if r is None:
                return ("c13-inserted-primary-key-rows", "key %s not in table" % pk)
            for c in range(ncols):
                if r[names[c]] != want[i][c]:
                    return ("c13-inserted-primary-key-rows-order", "key %d of inserted_primary_key_rows points at row %s, parameter set %d expects %s" % (pk, r, i, want[i]))
    if info.get("rd") is not None:
        for k, v in info["rd"].items():
            if rows[0].get(k) != v:
                return ("c13-returned-defaults", "returned_defaults[%s]=%r but stored %r" % (k, v, rows[0].get(k)))
    if info.get("rd_rows") is not None and "ipk_rows" in info:
        byid = {r["id"]: r for r in obs["all"]}
        for (pk,), rd in zip(info["ipk_rows"], info["rd_rows"]):
            for k, v in rd.items():
                if byid[pk].get(k) != v:
                    return ("c13-returned-defaults-rows", "returned_defaults_rows %s=%r but row %s stores %r" % (k, v, pk, byid[pk].get(k)))
    if "lip" in info:
        for k, v in info["lip"].items():
            if k in rows[0] and rows[0][k] != v:
                return ("c13-last-inserted-params", "last_inserted_params[%s]=%r but stored %r" % (k, v, rows[0][k]))
    if "lup" in info:
        for k, v in info["lup"].items():
            if k in names and rows[0][k] != v:
                return ("c13-last-updated-params", "last_updated_params[%s]=%r but stored %r" % (k, v, rows[0][k]))
    return None


def oracle_orm(obs):
    """ORM flush: an attribute that was set to a non-None value is stored as given; an
    attribute never set gets the default; None on an attribute means 'omit' (documented),
    so the default applies as well.  The instance state after flush equals the row."""
    case, names = obs["case"], obs["names"]
    if obs["exc"] is not None:
        return ("c13-orm-exception:" + obs["exc"].split(":")[0], "unexpected %s" % obs.get("exc_text"))
    rows = stored_rows(obs)
    params = obs["params"]
    if rows is None:
        return ("c13-orm-rowcount", "table has %s" % obs["all"])
    for i, p in enumerate(params):
        for c, nm in enumerate(names):
            k = case["kinds"][c]
            got = rows[i][nm]
            if nm in p and p[nm] is not None:
                if got != p[nm]:
                    return ("c13-orm-supplied-value-overridden", "object %d attribute %s=%r stored %r" % (i, nm, p[nm], got))
            else:
                if k[0] == "s" and got != k[1]:
                    return ("c13-orm-default-not-applied", "object %d column %s scalar default %r stored %r" % (i, nm, k[1], got))
                if k[0] in "qv" and got != k[1]:
                    return ("c13-orm-default-not-applied", "object %d column %s sql/server default %r stored %r" % (i, nm, k[1], got))
                if k[0] == "n" and got is not None:
                    return ("c13-orm-default-not-applied", "object %d column %s has no default, stored %r" % (i, nm, got))
                if k[0] == "c" and not (isinstance(got, int) and k[1] <= got < k[1] + len(params)):
                    return ("c13-orm-default-not-applied", "object %d column %s callable default base %r stored %r" % (i, nm, k[1], got))
        st = obs["info"]["orm_state"][i]
        for nm in names:
            if st[nm] != rows[i][nm]:
                return ("c13-orm-state-differs-from-row", "object %d attribute %s is %r after flush, row stores %r" % (i, nm, st[nm], rows[i][nm]))
    # callables: once per object that leaves the attribute unset/None
    for c, nm in enumerate(names):
        k = case["kinds"][c]
        if k[0] in "cx":
            omitted = sum(1 for p in params if p.get(nm) is None)
            if obs["counts"][c] != omitted:
                return ("c13-orm-invocation-count", "column %s callable ran %d times for %d objects leaving it unset" % (nm, obs["counts"][c], omitted))
    return None


def classify(case, obs, key):
    if key in ("c13-supplied-value-overridden", "c13-invocation-count", "c13-default-not-applied") and f16_applies(case):
        return F16_UPDATE if case["form"].startswith("update") else F16_INSERT
    return None


# ---------------------------------------------------------------------------- correspondence
def disp_of_sql(obs):
    """per column b/p/i/o read from the compiled statement text + prefetch list"""
    names = obs.get("sqlnames") or obs["names"]
    sql = obs["info"].get("sql")
    if not sql:
        return None
    pre = set(obs["info"].get("prefetch", []))
    out = []
    if obs["case"]["form"].startswith("update"):
        m = re.search(r"SET (.*?) WHERE", sql, re.S)
        if not m:
            return None
        assigns = {}
        for part in _split_top(m.group(1)):
            k, _, v = part.strip().partition("=")
            assigns[k.strip()] = v.strip()
        for nm in names:
            if nm not in assigns:
                out.append("o")
            elif nm in pre:
                out.append("p")
            elif assigns[nm] == "?":
                out.append("b")
            else:
                out.append("i")
    else:
        m = re.search(r"INSERT INTO t \((.*?)\) VALUES \((.*)\)", sql, re.S)
        if not m:
            if "DEFAULT VALUES" in sql:
                return "o" * len(names)
            return None
        cols = [c.strip() for c in m.group(1).split(",")]
        vals = [v.strip() for v in _split_top(_strip_returning(m.group(2)))]
        if len(cols) != len(vals):
            return None
        d = dict(zip(cols, vals))
        for nm in names:
            if nm not in d:
                out.append("o")
            elif nm in pre:
                out.append("p")
            elif d[nm] == "?":
                out.append("b")
            else:
                out.append("i")
    return "".join(out)


def _strip_returning(s):
    i = s.find(") RETURNING")
    return s[:i] if i >= 0 else s


def _split_top(s):
    out, depth, cur = [], 0, ""
    for ch in s:
        if ch == "(":
            depth += 1
        elif ch == ")":
            depth -= 1
        if ch == "," and depth == 0:
            out.append(cur)
            cur = ""
        else:
            cur += ch
    out.append(cur)
    return out


def fmt_rows(rows):
    return ";".join(",".join("N" if v is None else str(v) for v in r) for r in rows) or "-"


def corr_lines(obs):
    case, names = obs["case"], obs["names"]
    form = case["form"]
    if form == "orm":
        return []
    out = []
    is_update = form.startswith("update")
    kinds = ",".join(kind_tok(k) for k in (case["onupd"] if is_update else case["kinds"]))
    ps = ";".join(",".join(cell_tok(c) for c in r) for r in case["rows"])
    if obs["exc"] is None:
        rows = stored_rows(obs)
        if rows is not None:
            impl = "ok rows=%s counts=%s" % (fmt_rows([[r[nm] for nm in names] for r in rows]), ",".join(str(x) for x in obs["counts"]) or "-")
        else:
            impl = "rowcount-mismatch"
    elif obs["exc"].startswith("StatementError") and "A value is required" in obs.get("exc_text", ""):
        impl = "err valueRequired"
    else:
        impl = "exc " + obs["exc"]
    if is_update:
        out.append(("update", impl, "defaults update %s %s %s" % (kinds, ps, fmt_rows(obs["olds"]))))
    elif form == "insertMV":
        out.append(("insert-multivalues", impl, "defaults insertmv %s %s" % (kinds, ps)))
        return out
    else:
        out.append(("insert", impl, "defaults insert %s %s" % (kinds, ps)))
    if obs["info"].get("pkplan") and obs["exc"] is None:
        kindname = {"autoinc": "autoinc", "autoinc_supplied": "autoinc", "callable": "pydefault", "sqlexpr": "sqlexpr", "supplied": "plain"}[case["pk"]]
        sup = ("2" if form == "insert1v" else "1") if case["pk"] in ("supplied", "autoinc_supplied") else "0"
        out.append(("pk-plan", "ok " + obs["info"]["pkplan"], "defaults pk %s %s %s" % (kindname, sup, obs["info"]["pkctx"])))
    d = disp_of_sql(obs)
    if d is not None and obs["exc"] is None:
        out.append(("disposition", "ok " + d, "defaults disp %s %s" % (kinds, ps)))
    return out


# ---------------------------------------------------------------------------- run
def one(ctx, case, names_, cases, impl_out, reqs):
    try:
        obs = run_case(case)
    except Exception as e:  # noqa: BLE001
        import traceback

        ctx.case(("crash", case["seed"]))
        ctx.violation("c13-crash:" + type(e).__name__, case, "".join(traceback.format_exception_only(type(e), e))[:400])
        return
    ctx.case({k: case[k] for k in case if k != "seed"}, nontrivial=any(k[0] != "n" for k in case["kinds"] + case["onupd"]))
    ctx.count("form=" + case["form"])
    ctx.count("hetero=" + case["hetero"])
    ctx.count("pk=" + case["pk"])
    ctx.count("outcome=" + (obs["exc"] or "ok").split(":")[0])
    for k in case["onupd"] if case["form"].startswith("update") else case["kinds"]:
        ctx.count("kind=" + k[0])
    try:
        why = oracle(obs)
    except Exception as e:  # noqa: BLE001 - a state the oracle never meets on the unchanged tree
        why = ("c13-unexpected-state:" + type(e).__name__, "oracle could not evaluate the stored state %s: %r" % (obs.get("all"), e))
    if why:
        key, detail = why
        ctx.violation(classify(case, obs, key) or key, case, detail)
    for nm, il, ml in corr_lines(obs):
        names_.append(nm)
        cases.append(case)
        impl_out.append(il)
        reqs.append(ml)
    if len(case["rows"]) > 1 and obs["exc"] is None:
        ctx.sample({"form": case["form"], "kinds": [kind_tok(k) for k in case["kinds"]], "rows": case["rows"], "stored": [[r[n] for n in obs["names"]] for r in (stored_rows(obs) or [])]})


def explore(ctx, ncases, tier):
    names_, cases, impl_out, reqs = [], [], [], []
    for _ in range(ncases):
        one(ctx, gen_case(ctx.rng, tier), names_, cases, impl_out, reqs)
    return names_, cases, impl_out, reqs


def exhaustive_small(ctx, names_, cases, impl_out, reqs):
    """every default kind x {supplied value, supplied NULL, omitted} x {single, many} for
    INSERT and UPDATE on a two-column table (column 0 plain, always supplied)"""
    kinds = [["s", 7], ["c", 100], ["x", 0, 1000], ["q", 9], ["v", 3], ["n"]]
    for k in kinds:
        for cell in (5, "N", "_"):
            for form in ("insert1", "insertN", "insertNret", "insertMV", "update1", "update1ov", "updateN"):
                if form == "insertMV" and k[0] in "xvn" and cell == "_":
                    continue
                n = 1 if form in ("insert1", "update1", "update1ov") else 3
                rows = [[i + 1, cell] for i in range(n)]
                if form == "insertMV":
                    # first row supplies a value, the later rows carry the cell under test
                    rows = [[1, 9]] + [[i + 2, cell] for i in range(2)]
                    if k[0] == "x":
                        continue
                case = {"kinds": [["n"], k], "onupd": [["n"], k], "form": form, "rows": rows, "hetero": "no", "pk": "autoinc", "implicit_returning": True, "page": 2, "keyed": form.endswith("ov"), "seed": 0}
                one(ctx, case, names_, cases, impl_out, reqs)


def run(ctx):
    ctx.rule = (
        "exhaustive: 6 default kinds x {value, NULL, omitted} x 5 execution forms; random: 1-6 columns with independent default and onupdate kinds, "
        "14 execution forms (single / .values() / return_defaults / executemany / executemany+RETURNING via insertmanyvalues / UPDATE single+many / ORM flush), "
        "1-6 (15 thorough) parameter sets, per-cell supplied/NULL/omitted, 20% heterogeneous executemany (extra key / missing key), 4 primary-key styles; "
        "non-trivial = at least one column has a default; distinct = distinct case"
    )
    ctx.trusted.append("SQLite evaluates SQL-expression and server defaults; the model represents them by their constant value")
    ctx.assumptions.append("ORM: None on an attribute means 'omit' (documented), so the oracle expects the default there")
    names_, cases, impl_out, reqs = [], [], [], []
    exhaustive_small(ctx, names_, cases, impl_out, reqs)
    n = 850 if ctx.tier == "quick" else 12000
    a, b, c, d = explore(ctx, n, ctx.tier)
    names_ += a
    cases += b
    impl_out += c
    reqs += d
    if ctx.driver_ok():
        model = ctx.driver(reqs)
        for nm in sorted(set(names_)):
            idx = [i for i, x in enumerate(names_) if x == nm]
            ctx.correspond("corr/c13:%s" % nm, [cases[i] for i in idx], [impl_out[i] for i in idx], [model[i] for i in idx])


def search(ctx, broken):
    sub = type(ctx)(ctx.pid, "thorough", ctx.seed + 1, ctx.level)
    explore(sub, 5000, "thorough")
    for dis in ctx.disagreements[:30]:
        c = dis.get("case")
        if isinstance(c, dict) and "kinds" in c:
            try:
                why = oracle(run_case(c))
            except Exception:  # noqa: BLE001
                continue
            if why:
                sub.violation(classify(c, None, why[0]) or why[0], c, why[1])
    ctx.violations.extend(sub.violations)


def replay(ctx, obj):
    case = obj["case"]
    try:
        obs = run_case(case)
    except Exception as e:  # noqa: BLE001
        print("replay C13 case=%s crashes: %r" % (case, e))
        return True
    try:
        why = oracle(obs)
    except Exception as e:  # noqa: BLE001
        why = ("c13-unexpected-state", repr(e))
    print("replay C13 case=%s\n  exc=%s stored=%s counts=%s\n  oracle: %s" % (case, obs["exc"], obs["all"], obs["counts"], why))
    return why is not None
