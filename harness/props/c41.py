"""C41 — ORM queries return the rows their relational meaning specifies.

Model:    lean/SaVerif/Model/OrmQuery.lean (ORM reading vs Core reading of any / has /
          contains / relationship join / count / exists / union over parent-child tables)
Theorems: lean/SaVerif/Props/C41.lean

Each case builds the A -< B -< C, B -> A, A >-< Tag mapping of C40 with random data and runs
a catalogue of ORM queries (filters, joins along relationships, entity pairs, outer joins,
aliased / of_type, any / ~any / has / contains / relationship == object / None, m2m any,
subquery join, group by with entities and columns, exists, IN-subquery, scalar subquery,
union via from_statement and aliased, legacy Query with count / exists).  For every query:
the entity PKs / values returned are compared with the hand-written Core statement over
the tables, with a Python evaluation over the generated data and (where modelled) with the
Lean model; count(*) over the statement and EXISTS are compared with the row count.
"""
import random

PID = "C41"
LEVEL = "translation_validation"
LEAN = ["SaVerif.Props.C41"]
META = {
    "text": "Lean theorems about the relational model, for every parent/child table: relationship any() equals the correlated EXISTS (any_orm_eq_core, not_any_orm_eq_core), joining along a relationship yields exactly the rows of JOIN..ON fk = pk with order and multiplicity (join_orm_eq_core), has() equals its EXISTS when primary keys are distinct (has_orm_eq_core), contains() equals the foreign-key comparison (contains_orm_eq_core), count equals the number of rows and EXISTS is count > 0 (count_exists_agree, join_count), UNION / UNION ALL membership (union_rows). Translation validation ties the ORM to it: 24 kinds of generated ORM queries over generated data are executed on SQLite and their entities (as primary keys) and values compared one-to-one with the equivalent hand-written Core statement, with a Python evaluation of the query over the generated data, and with the model; count(*) over each statement, Query.count() and EXISTS are compared with the number of rows returned.",
    "note": "translation_validation: nothing is proved about orm/context.py, relationships.py or sql/util.py themselves; entity/column adaptation (aliased, of_type, subquery, from_statement) is only checked by differential execution. The catalogue is bounded (one or two relationship hops, one aliased entity, one subquery); self-referential and inheritance queries are outside (C42 covers polymorphic loading).",
    "technique": "Lean 4 lemmas on list-relational algebra + three-way differential (ORM vs Core vs Python reference over the data) on SQLite",
    "design_ref": "DESIGN.md §3 C40, C41, C42",
}

KINDS = (
    "filter", "join_entity", "join_pair", "outerjoin_pair", "aliased_join", "of_type", "any", "not_any", "any_nocrit", "has", "not_has",
    "m2m_any", "contains", "rel_eq", "rel_is_none", "rel_ne", "subquery_join", "group_entity", "group_col", "exists", "in_subquery",
    "scalar_subquery", "union_from_statement", "union_aliased", "two_hop_join", "two_hop_any",
    # single-table inheritance entities / aliases, explicit joins of the m2m secondary table
    "sti_entity", "sti_two_aliases", "sti_entity_plus_alias", "sti_two_aliases_nojoin", "sti_entity_plus_alias_nojoin", "sti_columns_two_aliases", "sti_join_of_type", "sti_any_of_type", "sti_outerjoin_alias",
    "m2m_secondary_join_any", "m2m_secondary_join_contains", "m2m_secondary_join_not_any",
)


def gen_case(rng, tier):
    return {
        "na": rng.choice([0, 1, 3, 5, 8]),
        "ordered": True,
        "kind": rng.choice(KINDS),
        "v": rng.randrange(3),
        "x": rng.randrange(4),
        "pick": rng.randrange(1000),
        "legacy": rng.random() < 0.3,
        "seed": rng.randrange(1 << 30),
    }


def build_data(case):
    from harness.props import c40

    c = {"na": case["na"], "ordered": True, "seed": case["seed"]}
    return c40.build(c)


def queries(case, classes, data, session):
    """-> (orm_stmt, core_stmt, reference rows, ordered?, model request or None)"""
    import sqlalchemy as sa
    from sqlalchemy import exists, func, select, union
    from sqlalchemy.orm import aliased

    A, B, C, Tag = classes
    a, b, c, tag = A.__table__, B.__table__, C.__table__, Tag.__table__
    atag = a.metadata.tables["atag"]
    v, x = case["v"], case["x"]
    AR = sorted(data["a"], key=lambda r: r["id"])
    BR = sorted(data["b"], key=lambda r: r["id"])
    CR = sorted(data["c"], key=lambda r: r["id"])
    TR = {t["id"]: t for t in data["tag"]}
    a_by = {r["id"]: r for r in AR}
    kids = lambda aid: [r for r in BR if r["a_id"] == aid]  # noqa: E731
    kind = case["kind"]
    ps = ";".join("%d:%d" % (r["id"], r["x"]) for r in AR) or "-"
    cs = ";".join("%d:%s:%d" % (r["id"], "N" if r["a_id"] is None else r["a_id"], r["k"]) for r in BR) or "-"
    ent = lambda *cols: cols  # noqa: E731
    del ent
    if kind == "filter":
        return select(A).where(A.x < x).order_by(A.id), select(a.c.id).where(a.c.x < x).order_by(a.c.id), [(r["id"],) for r in AR if r["x"] < x], True, None
    if kind == "join_entity":
        ref = [(r["id"],) for r in AR for k_ in kids(r["id"]) if k_["k"] == v]
        return (select(A).join(A.bs).where(B.k == v).order_by(A.id, B.id), select(a.c.id).join(b, a.c.id == b.c.a_id).where(b.c.k == v).order_by(a.c.id, b.c.id), ref, True, None)
    if kind == "join_pair":
        ref = [(r["id"], k_["id"]) for r in AR for k_ in kids(r["id"])]
        return (select(A, B).join(A.bs).order_by(A.id, B.id), select(a.c.id, b.c.id).join(b, a.c.id == b.c.a_id).order_by(a.c.id, b.c.id), ref, True, ("pairs", "ormquery join %s %s" % (ps, cs)))
    if kind == "outerjoin_pair":
        ref = []
        for r in AR:
            ks = kids(r["id"])
            ref += [(r["id"], k_["id"]) for k_ in ks] or [(r["id"], None)]
        return (select(A, B).outerjoin(A.bs).order_by(A.id, B.id), select(a.c.id, b.c.id).outerjoin(b, a.c.id == b.c.a_id).order_by(a.c.id, b.c.id), ref, True, None)
    if kind == "aliased_join":
        Ba = aliased(B)
        ba = b.alias()
        ref = [(r["id"], k_["id"]) for r in AR for k_ in kids(r["id"]) if k_["k"] >= v]
        return (select(A.id, Ba.id).join(Ba, A.bs).where(Ba.k >= v).order_by(A.id, Ba.id), select(a.c.id, ba.c.id).join(ba, a.c.id == ba.c.a_id).where(ba.c.k >= v).order_by(a.c.id, ba.c.id), ref, True, None)
    if kind == "of_type":
        Ba = aliased(B)
        ba = b.alias()
        ref = [(r["id"],) for r in AR for k_ in kids(r["id"]) if k_["k"] == v]
        return (select(A).join(A.bs.of_type(Ba)).where(Ba.k == v).order_by(A.id, Ba.id), select(a.c.id).join(ba, a.c.id == ba.c.a_id).where(ba.c.k == v).order_by(a.c.id, ba.c.id), ref, True, None)
    if kind == "any":
        ref = [(r["id"],) for r in AR if any(k_["k"] == v for k_ in kids(r["id"]))]
        core = select(a.c.id).where(exists().where(b.c.a_id == a.c.id).where(b.c.k == v)).order_by(a.c.id)
        return select(A).where(A.bs.any(B.k == v)).order_by(A.id), core, ref, True, ("ids", "ormquery any %d %s %s" % (v, ps, cs))
    if kind == "not_any":
        ref = [(r["id"],) for r in AR if not any(k_["k"] == v for k_ in kids(r["id"]))]
        core = select(a.c.id).where(~exists().where(b.c.a_id == a.c.id).where(b.c.k == v)).order_by(a.c.id)
        return select(A).where(~A.bs.any(B.k == v)).order_by(A.id), core, ref, True, ("ids", "ormquery notany %d %s %s" % (v, ps, cs))
    if kind == "any_nocrit":
        ref = [(r["id"],) for r in AR if kids(r["id"])]
        core = select(a.c.id).where(exists().where(b.c.a_id == a.c.id)).order_by(a.c.id)
        return select(A).where(A.bs.any()).order_by(A.id), core, ref, True, None
    if kind in ("has", "not_has"):
        ok = lambda r: r["a_id"] is not None and a_by[r["a_id"]]["x"] == x  # noqa: E731
        crit = exists().where(a.c.id == b.c.a_id).where(a.c.x == x)
        if kind == "has":
            return (select(B).where(B.a.has(A.x == x)).order_by(B.id), select(b.c.id).where(crit).order_by(b.c.id), [(r["id"],) for r in BR if ok(r)], True, ("ids", "ormquery has %d %s %s" % (x, ps, cs)))
        return (select(B).where(~B.a.has(A.x == x)).order_by(B.id), select(b.c.id).where(~crit).order_by(b.c.id), [(r["id"],) for r in BR if not ok(r)], True, None)
    if kind == "m2m_any":
        tags_of = {}
        for r in data["atag"]:
            tags_of.setdefault(r["a_id"], []).append(r["t_id"])
        ref = [(r["id"],) for r in AR if any(TR[t]["w"] == v for t in tags_of.get(r["id"], []))]
        core = select(a.c.id).where(exists().where(atag.c.a_id == a.c.id).where(atag.c.t_id == tag.c.id).where(tag.c.w == v)).order_by(a.c.id)
        return select(A).where(A.tags.any(Tag.w == v)).order_by(A.id), core, ref, True, None
    if kind == "contains":
        if not BR:
            return None
        brow = BR[case["pick"] % len(BR)]
        bobj = session.get(B, brow["id"])
        ref = [(r["id"],) for r in AR if brow["a_id"] == r["id"]]
        return (select(A).where(A.bs.contains(bobj)).order_by(A.id), select(a.c.id).where(a.c.id == brow["a_id"]).order_by(a.c.id), ref, True, ("ids", "ormquery contains %d %s %s" % (brow["id"], ps, cs)))
    if kind in ("rel_eq", "rel_ne"):
        if not AR:
            return None
        arow = AR[case["pick"] % len(AR)]
        aobj = session.get(A, arow["id"])
        if kind == "rel_eq":
            return (select(B).where(B.a == aobj).order_by(B.id), select(b.c.id).where(b.c.a_id == arow["id"]).order_by(b.c.id), [(r["id"],) for r in BR if r["a_id"] == arow["id"]], True, None)
        # `!=` on a many-to-one includes the rows without a parent
        return (select(B).where(B.a != aobj).order_by(B.id), select(b.c.id).where(sa.or_(b.c.a_id != arow["id"], b.c.a_id.is_(None))).order_by(b.c.id), [(r["id"],) for r in BR if r["a_id"] != arow["id"]], True, None)
    if kind == "rel_is_none":
        return (select(B).where(B.a == None).order_by(B.id), select(b.c.id).where(b.c.a_id.is_(None)).order_by(b.c.id), [(r["id"],) for r in BR if r["a_id"] is None], True, None)  # noqa: E711
    if kind == "subquery_join":
        sub = select(B.a_id, func.count(B.id).label("n")).group_by(B.a_id).subquery()
        csub = select(b.c.a_id, func.count(b.c.id).label("n")).group_by(b.c.a_id).subquery()
        ref = [(r["id"], len(kids(r["id"]))) for r in AR if kids(r["id"])]
        return (select(A, sub.c.n).join(sub, A.id == sub.c.a_id).order_by(A.id), select(a.c.id, csub.c.n).join(csub, a.c.id == csub.c.a_id).order_by(a.c.id), ref, True, None)
    if kind == "group_entity":
        ref = [(r["id"], len(kids(r["id"]))) for r in AR]
        return (select(A, func.count(B.id)).outerjoin(A.bs).group_by(A.id).order_by(A.id), select(a.c.id, func.count(b.c.id)).outerjoin(b, a.c.id == b.c.a_id).group_by(a.c.id).order_by(a.c.id), ref, True, ("counts", "ormquery groupcount %s %s" % (ps, cs)))
    if kind == "group_col":
        xs = sorted({r["x"] for r in AR})
        ref = [(xv, sum(1 for r in AR if r["x"] == xv)) for xv in xs]
        return (select(A.x, func.count(A.id)).group_by(A.x).order_by(A.x), select(a.c.x, func.count(a.c.id)).group_by(a.c.x).order_by(a.c.x), ref, True, None)
    if kind == "exists":
        ref = [(r["id"],) for r in AR if any(k_["k"] == v for k_ in kids(r["id"]))]
        return (select(A).where(select(B.id).where(B.a_id == A.id).where(B.k == v).exists()).order_by(A.id), select(a.c.id).where(exists().where(b.c.a_id == a.c.id).where(b.c.k == v)).order_by(a.c.id), ref, True, None)
    if kind == "in_subquery":
        good = {r["id"] for r in AR if r["x"] == x}
        return (select(B).where(B.a_id.in_(select(A.id).where(A.x == x))).order_by(B.id), select(b.c.id).where(b.c.a_id.in_(select(a.c.id).where(a.c.x == x))).order_by(b.c.id), [(r["id"],) for r in BR if r["a_id"] in good], True, None)
    if kind == "scalar_subquery":
        ref = [(r["id"], len(kids(r["id"]))) for r in AR]
        return (select(A, select(func.count(B.id)).where(B.a_id == A.id).scalar_subquery()).order_by(A.id), select(a.c.id, select(func.count(b.c.id)).where(b.c.a_id == a.c.id).scalar_subquery()).order_by(a.c.id), ref, True, None)
    if kind in ("union_from_statement", "union_aliased"):
        ref = sorted({(r["id"],) for r in AR if r["x"] < x or r["x"] > v})
        cu = union(select(a.c.id).where(a.c.x < x), select(a.c.id).where(a.c.x > v)).subquery()
        core = select(cu.c.id).order_by(cu.c.id)
        u = union(select(A).where(A.x < x), select(A).where(A.x > v))
        if kind == "union_from_statement":
            return select(A).from_statement(u), core, ref, False, None
        Au = aliased(A, u.subquery())
        return select(Au).order_by(Au.id), core, ref, True, None
    BSub = A._verif_extras["BSub"]
    SUB = [r for r in BR if r["kind"] == "bs"]
    if kind == "sti_entity":
        return (select(BSub).where(BSub.k >= v).order_by(BSub.id), select(b.c.id).where(b.c.kind == "bs").where(b.c.k >= v).order_by(b.c.id), [(r["id"],) for r in SUB if r["k"] >= v], True, None)
    if kind in ("sti_two_aliases_nojoin", "sti_entity_plus_alias_nojoin", "sti_columns_two_aliases"):
        # both entities only meet in the WHERE clause (no join()): each needs its own
        # discriminator criterion
        B2 = aliased(BSub)
        B1 = BSub if kind == "sti_entity_plus_alias_nojoin" else aliased(BSub)
        b1, b2 = b.alias(), b.alias()
        ref = [(r1["id"], r2["id"]) for r1 in SUB for r2 in SUB if r1["k"] == r2["k"] and r1["id"] <= r2["id"]]
        ents = (B1.id, B2.id) if kind == "sti_columns_two_aliases" else (B1, B2)
        orm = select(*ents).where(B1.k == B2.k).where(B1.id <= B2.id).order_by(B1.id, B2.id)
        core = select(b1.c.id, b2.c.id).where(b1.c.k == b2.c.k).where(b1.c.id <= b2.c.id).where(b1.c.kind == "bs").where(b2.c.kind == "bs").order_by(b1.c.id, b2.c.id)
        return orm, core, sorted(ref), True, None
    if kind in ("sti_two_aliases", "sti_entity_plus_alias"):
        B2 = aliased(BSub)
        B1 = aliased(BSub) if kind == "sti_two_aliases" else BSub
        b1, b2 = b.alias(), b.alias()
        ref = [(r1["id"], r2["id"]) for r1 in SUB for r2 in SUB if r1["a_id"] is not None and r1["a_id"] == r2["a_id"] and r1["id"] <= r2["id"]]
        orm = select(B1, B2).join(B2, B1.a_id == B2.a_id).where(B1.id <= B2.id).order_by(B1.id, B2.id)
        core = select(b1.c.id, b2.c.id).join(b2, b1.c.a_id == b2.c.a_id).where(b1.c.id <= b2.c.id).where(b1.c.kind == "bs").where(b2.c.kind == "bs").order_by(b1.c.id, b2.c.id)
        return orm, core, sorted(ref), True, None
    if kind == "sti_outerjoin_alias":
        B2 = aliased(BSub)
        b2 = b.alias()
        ref = []
        for r in AR:
            subs = [k_ for k_ in SUB if k_["a_id"] == r["id"]]
            ref += [(r["id"], k_["id"]) for k_ in subs] or [(r["id"], None)]
        orm = select(A, B2).outerjoin(B2, A.id == B2.a_id).order_by(A.id, B2.id)
        core = select(a.c.id, b2.c.id).outerjoin(b2, sa.and_(a.c.id == b2.c.a_id, b2.c.kind == "bs")).order_by(a.c.id, b2.c.id)
        return orm, core, ref, True, None
    if kind == "sti_join_of_type":
        ref = [(r["id"], k_["id"]) for r in AR for k_ in SUB if k_["a_id"] == r["id"]]
        return (select(A.id, BSub.id).join(A.bs.of_type(BSub)).order_by(A.id, BSub.id), select(a.c.id, b.c.id).join(b, a.c.id == b.c.a_id).where(b.c.kind == "bs").order_by(a.c.id, b.c.id), ref, True, None)
    if kind == "sti_any_of_type":
        ref = [(r["id"],) for r in AR if any(k_["a_id"] == r["id"] and k_["extra"] is not None and k_["extra"] >= v for k_ in SUB)]
        core = select(a.c.id).where(exists().where(b.c.a_id == a.c.id).where(b.c.kind == "bs").where(b.c.extra >= v)).order_by(a.c.id)
        return select(A).where(A.bs.of_type(BSub).any(BSub.extra >= v)).order_by(A.id), core, ref, True, None
    if kind.startswith("m2m_secondary_join"):
        tags_of = {}
        for r in data["atag"]:
            tags_of.setdefault(r["a_id"], []).append(r["t_id"])
        tid = 1 + case["pick"] % 4
        links = sorted((r["a_id"], r["t_id"]) for r in data["atag"] if r["t_id"] >= tid)
        at2 = atag.alias()
        if kind == "m2m_secondary_join_contains":
            tobj = session.get(Tag, 1 + (case["pick"] // 4) % 4)
            crit_orm = A.tags.contains(tobj)
            ok = lambda aid: tobj.id in tags_of.get(aid, [])  # noqa: E731
            crit_core = exists().where(at2.c.a_id == a.c.id).where(at2.c.t_id == tobj.id)
        else:
            crit_orm = A.tags.any(Tag.w == v)
            ok = lambda aid: any(TR[t_]["w"] == v for t_ in tags_of.get(aid, []))  # noqa: E731
            crit_core = exists().where(at2.c.a_id == a.c.id).where(at2.c.t_id == tag.c.id).where(tag.c.w == v)
            if kind == "m2m_secondary_join_not_any":
                crit_orm = ~crit_orm
                crit_core = ~crit_core
                ok0 = ok
                ok = lambda aid: not ok0(aid)  # noqa: E731
        # the statement itself joins the (un-aliased) secondary table explicitly
        orm = select(A, atag.c.t_id).join(atag, A.id == atag.c.a_id).where(atag.c.t_id >= tid).where(crit_orm).order_by(A.id, atag.c.t_id)
        core = select(a.c.id, atag.c.t_id).join(atag, a.c.id == atag.c.a_id).where(atag.c.t_id >= tid).where(crit_core).order_by(a.c.id, atag.c.t_id)
        ref = [(aid, t_) for aid, t_ in links if ok(aid)]
        return orm, core, ref, True, None
    if kind == "two_hop_join":
        ckids = lambda bid: [r for r in CR if r["b_id"] == bid]  # noqa: E731
        ref = [(r["id"], cr["id"]) for r in AR for k_ in kids(r["id"]) for cr in ckids(k_["id"]) if cr["v"] >= v]
        return (select(A, C).join(A.bs).join(B.cs).where(C.v >= v).order_by(A.id, C.id), select(a.c.id, c.c.id).join(b, a.c.id == b.c.a_id).join(c, b.c.id == c.c.b_id).where(c.c.v >= v).order_by(a.c.id, c.c.id), sorted(ref), True, None)
    if kind == "two_hop_any":
        ckids = lambda bid: [r for r in CR if r["b_id"] == bid]  # noqa: E731
        ref = [(r["id"],) for r in AR if any(any(cr["v"] == v for cr in ckids(k_["id"])) for k_ in kids(r["id"]))]
        core = select(a.c.id).where(exists().where(b.c.a_id == a.c.id).where(exists().where(c.c.b_id == b.c.id).where(c.c.v == v))).order_by(a.c.id)
        return select(A).where(A.bs.any(B.cs.any(C.v == v))).order_by(A.id), core, ref, True, None
    raise AssertionError(kind)


def canon_row(row):
    out = []
    for v in row:
        out.append(v.id if hasattr(v, "__table__") or hasattr(v, "_sa_instance_state") else v)
    return tuple(out)


def run_case(case):
    from sqlalchemy import func, select
    from sqlalchemy.orm import Session

    import warnings

    warnings.simplefilter("ignore")
    eng, classes, data = build_data(case)
    obs = {"case": case, "skip": False}
    try:
        with Session(eng) as s:
            q = queries(case, classes, data, s)
            if q is None:
                obs["skip"] = True
                return obs
            orm, core, ref, ordered, model = q
            obs["ordered"], obs["ref"], obs["model"] = ordered, ref, model
            try:
                obs["orm"] = [canon_row(r) for r in s.execute(orm)]
            except Exception as e:  # noqa: BLE001
                obs["orm_exc"] = "%s: %s" % (type(e).__name__, str(e)[:300])
                return obs
            with eng.connect() as c:
                obs["core"] = [tuple(r) for r in c.execute(core)]
            # count / exists over the ORM statement
            if not getattr(orm, "_statement_20", None) and case["kind"] != "union_from_statement":
                try:
                    obs["count"] = s.scalar(select(func.count()).select_from(orm.order_by(None).subquery() if hasattr(orm, "order_by") else orm.subquery()))
                    obs["exists"] = bool(s.scalar(select(orm.order_by(None).exists())))
                except Exception as e:  # noqa: BLE001
                    obs["count_exc"] = "%s: %s" % (type(e).__name__, str(e)[:300])
            if case["legacy"] and case["kind"] in ("filter", "join_entity", "any", "not_any"):
                A, B, C, Tag = classes
                lq = s.query(A)
                if case["kind"] == "filter":
                    lq = lq.filter(A.x < case["x"])
                elif case["kind"] == "join_entity":
                    lq = lq.join(A.bs).filter(B.k == case["v"])
                elif case["kind"] == "any":
                    lq = lq.filter(A.bs.any(B.k == case["v"]))
                else:
                    lq = lq.filter(~A.bs.any(B.k == case["v"]))
                rows = lq.order_by(A.id).all()
                obs["legacy"] = {"n": len(rows), "count": lq.count(), "exists": bool(s.query(lq.exists()).scalar()), "ids": [o.id for o in rows]}
    finally:
        eng.dispose()
    return obs


def oracle(obs):
    case = obs["case"]
    if obs.get("skip"):
        return []
    out = []
    if "orm_exc" in obs:
        return [("c41-orm-exception", obs["orm_exc"])]
    norm = (lambda l: l) if obs["ordered"] else (lambda l: sorted(l, key=repr))
    if norm(obs["orm"]) != norm(obs["core"]):
        out.append(("c41-orm-differs-from-core", "%s: ORM rows %s, Core rows %s" % (case["kind"], obs["orm"][:30], obs["core"][:30])))
    if norm(obs["orm"]) != norm([tuple(r) for r in obs["ref"]]):
        out.append(("c41-orm-differs-from-reference", "%s: ORM rows %s, data says %s" % (case["kind"], obs["orm"][:30], obs["ref"][:30])))
    if "count_exc" in obs:
        out.append(("c41-count-exception", obs["count_exc"]))
    if "count" in obs and obs["count"] != len(obs["orm"]):
        out.append(("c41-count-differs", "%s: count(*) = %s, %d rows returned" % (case["kind"], obs["count"], len(obs["orm"]))))
    if "exists" in obs and obs["exists"] != bool(obs["orm"]):
        out.append(("c41-exists-differs", "%s: EXISTS = %s, %d rows returned" % (case["kind"], obs["exists"], len(obs["orm"]))))
    lg = obs.get("legacy")
    if lg:
        if case["kind"] == "join_entity":
            # legacy Query de-duplicates entities in .all() only for joined eager loading; a plain
            # join returns one entity per row, count() counts rows
            pass
        # legacy Query.all() on a single entity de-duplicates entities (documented legacy
        # behaviour); Query.count() counts the rows of the statement
        want_ids, seen = [], set()
        for r in obs["orm"]:
            if r[0] not in seen:
                seen.add(r[0])
                want_ids.append(r[0])
        if lg["count"] != len(obs["orm"]):
            out.append(("c41-query-count-differs", "%s: Query.count() = %s, the statement returns %d rows" % (case["kind"], lg["count"], len(obs["orm"]))))
        if lg["exists"] != bool(lg["n"]):
            out.append(("c41-query-exists-differs", "%s: Query.exists() = %s, .all() has %d" % (case["kind"], lg["exists"], lg["n"])))
        if lg["ids"] != want_ids:
            out.append(("c41-query-differs-from-select", "%s: Query ids %s, select() ids (de-duplicated) %s" % (case["kind"], lg["ids"][:30], want_ids[:30])))
    return out


def one(ctx, case, names, cases, impl_out, reqs):
    try:
        obs = run_case(case)
    except Exception as e:  # noqa: BLE001
        import traceback

        ctx.case(("crash", case["seed"]))
        ctx.violation("c41-crash:" + type(e).__name__, case, "".join(traceback.format_exception_only(type(e), e))[:400])
        return
    if obs.get("skip"):
        ctx.count("skipped(no rows to pick)")
        return
    ctx.case({k: case[k] for k in case}, nontrivial=bool(obs.get("orm")))
    ctx.count("kind=" + case["kind"])
    ctx.count("rows=%s" % ("0" if not obs.get("orm") else "1-3" if len(obs["orm"]) < 4 else "4+"))
    for key, detail in oracle(obs):
        ctx.violation(key, case, detail)
    m = obs.get("model")
    if m and "orm" in obs:
        shape, req = m
        if shape == "ids":
            impl = "ok " + (",".join(str(r[0]) for r in obs["orm"]) or "-")
        elif shape == "pairs":
            impl = "ok " + (",".join("%d.%d" % r for r in obs["orm"]) or "-")
        else:
            impl = "ok " + (",".join("%d=%d" % r for r in obs["orm"]) or "-")
        names.append(case["kind"])
        cases.append(case)
        impl_out.append(impl)
        reqs.append(req)
    if obs.get("orm") and len(obs["orm"]) > 1:
        ctx.sample({"kind": case["kind"], "rows": obs["orm"][:8], "count": obs.get("count")}, cap=8)


def run(ctx):
    ctx.rule = (
        "38 query kinds (incl. single-table-inheritance entities / two aliases of one subclass / of_type, and statements that explicitly join the many-to-many secondary table next to any() / contains()) x random mapping data (0-8 parents, 0-3 children each incl. orphans, grandchildren, 4 tags) x random criterion values; every kind is run "
        "as select() (30% also as legacy Query with count()/exists()); compared: ORM rows vs Core rows vs Python evaluation over the data vs Lean model (any, "
        "not any, has, contains, join pairs, group count), count(*) and EXISTS vs number of rows; non-trivial = the query returns rows"
    )
    ctx.trusted.append("SQLite 3 executes both the ORM-emitted and the hand-written Core statements")
    names, cases, impl_out, reqs = [], [], [], []
    n = 700 if ctx.tier == "quick" else 9000
    for _ in range(n):
        one(ctx, gen_case(ctx.rng, ctx.tier), names, cases, impl_out, reqs)
    if ctx.driver_ok():
        model = ctx.driver(reqs)
        for nm in sorted(set(names)):
            idx = [i for i, x in enumerate(names) if x == nm]
            ctx.correspond("corr/c41:%s" % nm, [cases[i] for i in idx], [impl_out[i] for i in idx], [model[i] for i in idx])


def search(ctx, broken):
    sub = type(ctx)(ctx.pid, "thorough", ctx.seed + 1, ctx.level)
    for _ in range(3000):
        one(sub, gen_case(sub.rng, "thorough"), [], [], [], [])
    ctx.violations.extend(sub.violations)


def replay(ctx, obj):
    case = obj["case"]
    try:
        obs = run_case(case)
    except Exception as e:  # noqa: BLE001
        print("replay C41 crashes: %r" % e)
        return True
    bad = oracle(obs)
    print("replay C41 case=%s\n  orm=%s\n  core=%s\n  ref=%s\n  oracle: %s" % (case, obs.get("orm"), obs.get("core"), obs.get("ref"), bad))
    return bool(bad)
