"""C02 — the compiled-statement cache is transparent.

Model      lean/SaVerif/Model/CacheKey.lean (cache key with anon_map identity, extracted
           parameters, construct_params re-binding)
Theorems   lean/SaVerif/Props/C02.lean (contract ⇒ transparency; regenerated table
           reads ⊆ traversed)
Translator lean/SaVerif/Gen/CacheKeyTables.lean: for every SQL construct class the
           attributes its SQLCompiler.visit_<name> method reads (ast) and the attributes
           its _traverse_internals lists (import); residual of the unchanged tree is the
           reviewed baseline harness/c02_derived.json

run():
  A  feature-matrix statements (harness/lib_feat.py; ~60 structural toggles over
     select / compound / DML / values / text, 5 dialects) driven through the real
     _compile_w_cache + construct_params path: warm shared cache vs cold cache vs
     compiled_cache=None, for sequences base, reroll(base), mutant, reroll(mutant), base
  B  generated Core + ORM statements (harness/lib_binds.py) executed on SQLite under
     qmark / numeric / named engines: shared warm cache vs cache cleared before each
     statement vs query_cache_size=0; SQL + parameters at the cursor and rows compared
  D  execution options outside the key: histories under changing schema_translate_maps
     (executemany INSERT..RETURNING with a schema-qualified subquery in VALUES) and ORM
     polymorphic selectin loads with per-execution literals in loader options
  C  correspondence: construct_params(extracted_parameters=…) vs the Lean model
"""
import ast
import json
import os

PID = "C02"
LEVEL = "translation_validation"
LEAN = ["SaVerif.Props.C02"]
META = {
    "text": "Differential validation of cache transparency on the real code: (A) ~60-toggle feature-matrix statements compiled for 5 dialects through _compile_w_cache + construct_params with a shared warm cache, a cold cache and no cache, in sequences that interleave value-only variants (must hit) and one-toggle structural mutants (must not be served a stale compilation); (B) generated Core and ORM statements (loader options, with_loader_criteria) executed on SQLite under three paramstyles with warm / cold / disabled caches, comparing SQL and parameters at the cursor and rows. (E) for every public constructor argument of the common types, statements differing only in that argument (unset / 0 / False / '' / truthy) through one cache in both orders; (F) statements derived from SHARED text()/select templates, re-executed after siblings were derived, with the expected rows computed from the value each statement was derived with. Lean: the cache contract on an abstract element tree (cachekey_eq_same_sql, extracted_length_eq, rebinding_delivers_own_values for any compile order and shared bind objects, extract_nodup) regenerated finite-table obligations type_keys_separate_variants (the _static_cache_key of type instances that differ in a constructor argument, boundary values included, are pairwise different), traversal_not_shrunk and reads_covered (every attribute a visit_ method reads is in the class's _traverse_internals or in the reviewed baseline), re-decided against the working tree on every run.",
    "note": "Level translation_validation: the Lean theorems state the contract, they do not prove that each real construct obeys it; that is the regenerated table (syntactic: attribute reads of visit_ methods by ast) plus the differential. Not modelled: LRU eviction (C54), ORM compile-state caching internals. Known finding: BindParameter._gen_cache_key omits `expanding` (two statements differing only in bindparam(expanding=…) share a cache key but not their SQL).",
    "technique": "differential testing of the real caching path (warm/cold/disabled) over a feature matrix with single-toggle mutants + regenerated reads⊆traversed table decided in Lean + Lean contract theorems",
    "design_ref": "DESIGN.md §3 C02",
}

KEY_EXPANDING = "bindparam-expanding-not-in-cache-key"
KEY_CALLABLE = "bindparam-callable-served-by-non-callable-compilation"
BASELINE = os.path.join(os.path.dirname(os.path.dirname(os.path.abspath(__file__))), "c02_derived.json")


# --------------------------------------------------------------------------- translator
def read_tables():
    """-> {class name: (visit_name, reads sorted, traversed sorted)} from the working tree"""
    from harness import vlib
    import sqlalchemy  # noqa
    import sqlalchemy.orm  # noqa
    from sqlalchemy.sql.cache_key import HasCacheKey

    fn = os.path.join(vlib.REPO, "lib", "sqlalchemy", "sql", "compiler.py")
    tree = ast.parse(open(fn).read())
    reads = {}
    for node in ast.walk(tree):
        if isinstance(node, ast.ClassDef) and node.name == "SQLCompiler":
            for f in node.body:
                if isinstance(f, ast.FunctionDef) and f.name.startswith("visit_") and len(f.args.args) >= 2:
                    var = f.args.args[1].arg
                    attrs = set()
                    for sub in ast.walk(f):
                        if isinstance(sub, ast.Attribute) and isinstance(sub.value, ast.Name) and sub.value.id == var:
                            attrs.add(sub.attr)
                    reads[f.name[len("visit_") :]] = attrs

    def subs(c):
        out = set()
        for s in c.__subclasses__():
            out.add(s)
            out |= subs(s)
        return out

    rows = {}
    for cls in subs(HasCacheKey):
        if not cls.__module__.startswith("sqlalchemy.sql") or cls.__module__.endswith("annotation"):
            continue
        if cls.__name__.startswith("Annotated"):
            continue
        vn = cls.__dict__.get("__visit_name__")
        if not isinstance(vn, str) or vn not in reads:
            continue
        ti = cls.__dict__.get("_cache_key_traversal") or getattr(cls, "_traverse_internals", None)
        if not ti:
            continue
        try:
            trav = sorted({a for a, _ in ti})
        except Exception:
            continue
        rows[cls.__module__.split(".")[-1] + "." + cls.__name__] = (vn, sorted(reads[vn]), trav)
    return rows


def all_traversed():
    """{module.Class: attribute names of _traverse_internals / _cache_key_traversal}
    for every HasCacheKey subclass of sqlalchemy.sql and sqlalchemy.orm that declares one"""
    import sqlalchemy  # noqa
    import sqlalchemy.orm  # noqa
    from sqlalchemy.sql.cache_key import HasCacheKey

    def subs(c):
        out = set()
        for s in c.__subclasses__():
            out.add(s)
            out |= subs(s)
        return out

    res = {}
    for cls in subs(HasCacheKey):
        if not cls.__module__.startswith("sqlalchemy.") or cls.__name__.startswith("Annotated"):
            continue
        ti = cls.__dict__.get("_cache_key_traversal") or cls.__dict__.get("_traverse_internals")
        if not ti:
            continue
        try:
            res[cls.__module__[len("sqlalchemy.") :] + "." + cls.__name__] = sorted({a for a, _ in ti})
        except Exception:
            continue
    return res


def type_key_rows():
    import sqlalchemy as sa
    from harness import lib_feat as lf

    seen = {}
    for (_c, _p), variants in sorted(lf.type_variant_groups(sa).items()):
        for _lbl, T in variants:
            d = repr(lf.type_desc(T))
            k = T._static_cache_key
            if isinstance(k, tuple) and len(k) > 1:
                # the (name, value) pairs follow util.get_cls_kwargs(), a set: their order
                # depends on the process's hash seed and is not part of the key's meaning
                k = (k[0],) + tuple(sorted(k[1:], key=repr))
            seen.setdefault(d, repr(k))
    return sorted(seen.items())


def gen(ctx):
    rows = read_tables()
    if os.path.exists(BASELINE):
        derived = json.load(open(BASELINE))
    else:
        derived = {k: sorted(set(r) - set(t)) for k, (_, r, t) in rows.items()}
        derived["__traversed__"] = all_traversed()
        with open(BASELINE, "w") as f:
            json.dump(derived, f, indent=1, sort_keys=True)

    def lst(xs):
        return "[" + ", ".join('"%s"' % x for x in xs) + "]"

    src = "namespace SaVerif.Gen.CacheKeyTables\n\n/-- (class, attributes read by its visit_ method, attributes in its _traverse_internals) -/\ndef rows : List (String × List String × List String) :=\n  [\n"
    src += ",\n".join('    ("%s", %s, %s)' % (k, lst(r), lst(t)) for k, (_, r, t) in sorted(rows.items()))
    src += "\n  ]\n\n/-- reviewed baseline: reads that are methods, derived or key-neutral attributes -/\ndef derived : List (String × String) :=\n  [\n"
    src += ",\n".join('    ("%s", "%s")' % (k, a) for k in sorted(derived) if k != "__traversed__" for a in derived[k])
    src += "\n  ]\n\n/-- _traverse_internals of the reviewed (unchanged) tree: an attribute may be added, never silently dropped -/\ndef baselineTraversed : List (String × List String) :=\n  [\n"
    bt = derived.get("__traversed__", {})
    src += ",\n".join('    ("%s", %s)' % (k, lst(bt[k])) for k in sorted(bt))
    src += "\n  ]\n\n/-- current _traverse_internals of every cacheable class of sqlalchemy.sql -/\ndef traversed : List (String × List String) :=\n  [\n"
    at = all_traversed()
    src += ",\n".join('    ("%s", %s)' % (k, lst(at[k])) for k in sorted(at))
    src += "\n  ]\n\n/-- (constructor-level description of a type instance, repr of its _static_cache_key) for the boundary variants (unset / 0 / False / '' / truthy) of every public constructor argument of the common types; one row per distinct description -/\ndef typeKeys : List (String × String) :=\n  [\n"
    tk = type_key_rows()
    src += ",\n".join('    ("%s", "%s")' % (a.replace("\\", "\\\\").replace('"', "'"), b.replace("\\", "\\\\").replace('"', "'")) for a, b in tk)
    src += "\n  ]\n\nend SaVerif.Gen.CacheKeyTables\n"
    ctx.write_gen("CacheKeyTables", src)


# --------------------------------------------------------------------------- A: feature matrix
def feat_sequence(ctx, st, seq, label, record=True):
    """seq: list of feature specs; st = dict(ft, dialects, warm)"""
    from harness import lib_feat as lf

    nviol = 0
    for pos, sp in enumerate(seq):
        for dn, d in st["dialects"].items():
            try:
                stmt = lf.build_feat(st["ft"], sp, dn)
            except Exception as ex:
                if record:
                    ctx.count("A:build-rejected")
                continue
            res = {}
            try:
                ck = stmt._generate_cache_key()
            except Exception:
                ck = None
            origin = None
            if ck is not None:
                origin = st.setdefault("origin", {}).setdefault(dn, {}).setdefault(ck.key, sp)
            for mode, cache in (("warm", st["warm"][dn]), ("cold", {}), ("none", None)):
                try:
                    r = lf.compile_via(stmt, d, cache)
                    res[mode] = ("ok", r[0], r[1])
                    if mode == "warm" and record:
                        ctx.count("A:" + r[2].split(".")[-1])
                except Exception as ex:
                    res[mode] = ("err", type(ex).__name__, "")
            if res["warm"] != res["cold"] or res["cold"] != res["none"]:
                nviol += 1
                rseq = seq[: pos + 1]
                if origin is not None and origin is not sp and origin not in rseq:
                    rseq = [origin] + rseq  # the statement that populated the shared cache entry
                case = {"stream": "feat", "seq": rseq, "dialect": dn, "label": label}
                ctx.violation(
                    classify_feat(rseq),
                    case,
                    "dialect %s step %d (%s): warm %s | cold %s | no-cache %s" % (dn, pos, label, str(res["warm"])[:400], str(res["cold"])[:400], str(res["none"])[:200]),
                )
                return nviol
            if record:
                ctx.count("A:outcome=" + res["cold"][0])
    return nviol


def classify_feat(seq):
    flags = {sp.get("bind_flag") for sp in seq}
    if "expanding_outside_in" in flags and len(flags) > 1:
        return KEY_EXPANDING
    if "callable" in flags and len(flags) > 1:
        return KEY_CALLABLE
    return "c02:stale-compilation"


# --------------------------------------------------------------------------- B: execution
class ExecEnv:
    STYLES = ["qmark", "numeric", "named"]

    def __init__(self):
        import sqlalchemy as sa
        from harness import lib_binds as lb

        self.sa, self.lb = sa, lb
        self.fx = lb.Fixture()
        self.fx.mapped()
        self.fx.mapped_poly()
        self.engines = {}
        self.caps = {}
        for style in self.STYLES:
            for mode in ("warm", "cold", "none"):
                e = lb.sqlite_engine(style, self.fx, record_pre=False, query_cache_size=0 if mode == "none" else 500)
                cap = self.caps[(style, mode)] = []

                def _b(conn, cursor, statement, parameters, context, executemany, cap=cap):
                    cap.append((statement, parameters))

                sa.event.listen(e, "before_cursor_execute", _b)
                self.engines[(style, mode)] = e


def exec_one(env, key, st, params, sp):
    from sqlalchemy.orm import Session

    e = env.engines[key]
    cap = env.caps[key]
    if key[1] == "cold":
        e.clear_compiled_cache()
    del cap[:]
    out = {}
    dml = sp["kind"] in ("insert", "insertmany", "update", "delete", "insert_select")
    try:
        if sp["kind"] == "orm_poly":
            with Session(e) as s:
                objs = s.execute(st).unique().scalars().all()
                out["rows"] = [
                    (
                        o.id,
                        type(o).__name__,
                        o.name,
                        tuple((m.id, m.name) for m in o.machines) if hasattr(o, "machines") else None,
                        o.__dict__.get("bonus", "unset") if type(o).__name__ == "Engineer" else None,
                        getattr(o, "budget", None),
                    )
                    for o in objs
                ]
                s.rollback()
        elif sp["kind"] == "orm":
            with Session(e) as s:
                objs = s.execute(st).unique().scalars().all()
                out["rows"] = [(o.id, o.x, getattr(o, "y", None) if "y" in o.__dict__ else "deferred", tuple((u.id, u.v) for u in o.us)) for o in objs]
                s.rollback()
        else:
            with e.connect() as c:
                tx = c.begin()
                try:
                    r = c.execute(st, params) if params is not None else c.execute(st)
                    out["rows"] = [tuple(x) for x in r.fetchall()] if r.returns_rows else None
                    sql_n = len(cap)
                    if dml:
                        out["snap"] = [tuple(x) for x in c.exec_driver_sql("select id, x, y, s from t order by id").fetchall()]
                        del cap[sql_n:]
                finally:
                    tx.rollback()
        out["status"] = "ok"
    except Exception as ex:
        out["status"] = "err " + type(getattr(ex, "orig", None) or ex).__name__
        out["msg"] = str(ex).split("\n")[0][:160]
    style = key[0]
    canon = []
    for stmt_s, p in cap:
        try:
            if isinstance(p, list):
                canon.append([env.lb.substitute(style, stmt_s, q) for q in p])
            else:
                canon.append(env.lb.substitute(style, stmt_s, p))
        except Exception as ex:
            canon.append("unsubstitutable:%s:%s" % (stmt_s, p))
    out["sql"] = canon
    return out


def exec_sequence(ctx, env, seq, record=True):
    """seq: list of lib_binds specs executed in order on every engine"""
    nviol = 0
    for pos, sp in enumerate(seq):
        try:
            st, params = env.lb.build_stmt(env.fx, sp)
        except Exception:
            if record:
                ctx.count("B:build-rejected")
            continue
        for style in env.STYLES:
            res = {m: exec_one(env, (style, m), st, params, sp) for m in ("warm", "cold", "none")}
            cmpk = lambda r: (r["status"], r.get("rows"), r.get("snap"), r["sql"])  # noqa
            if cmpk(res["warm"]) != cmpk(res["cold"]) or cmpk(res["cold"]) != cmpk(res["none"]):
                nviol += 1
                which = "warm" if cmpk(res["warm"]) != cmpk(res["cold"]) else "no-cache"
                ctx.violation(
                    "c02:exec-%s-differs" % which,
                    {"stream": "exec", "seq": seq[: pos + 1], "style": style},
                    "style %s step %d: warm %s | cold %s | none %s" % (style, pos, str(cmpk(res["warm"]))[:500], str(cmpk(res["cold"]))[:500], str(cmpk(res["none"]))[:300]),
                )
                return nviol
        if record:
            ctx.count("B:kind=" + sp["kind"])
            ctx.count("B:outcome=" + res["cold"]["status"].split()[0])
    return nviol


def structural_variant(lb, sp, rng):
    """small structural change of a lib_binds spec (or a fresh one of the same kind)"""
    import copy

    v = copy.deepcopy(sp)
    r = rng.random()
    if sp["kind"] == "select":
        if r < 0.25:
            if "limit" in v:
                v.pop("limit")
                v.pop("offset", None)
            else:
                v["limit"] = rng.randint(2, 9)
            return v
        if r < 0.5 and v.get("where") is not None:
            w = v["where"]
            if w[0] == "cmp":
                w[1] = rng.choice([o for o in [">", "<", ">=", "<=", "!=", "="] if o != w[1]])
                return v
            if w[0] in ("and", "or"):
                w[0] = "or" if w[0] == "and" else "and"
                return v
        if r < 0.7:
            v["cols"] = v["cols"] + [["col", "t", rng.choice(["x", "y"])]]
            return v
    if sp["kind"] == "orm_poly":
        v["opt"] = rng.choice([x for x in ["machines_crit", "machines_power", "with_expr", "both", "explicit_poly", "explicit_poly_expr", "none"] if x != sp["opt"]])
        return v
    if sp["kind"] == "orm":
        v["load"] = rng.choice([x for x in ["none", "selectin", "joined", "subquery", "lazy", "selectin_crit", "joined_crit", "load_only", "wlc"] if x != sp["load"]])
        return v
    if sp["kind"] in ("update", "delete", "insert") and r < 0.5:
        v["returning"] = None if v.get("returning") else [["col", "t", "id"], ["col", "t", "x"]]
        return v
    return None


# --------------------------------------------------------------------------- C: model correspondence
def rebind_cases(ctx, env, n):
    """real construct_params(extracted_parameters=…) vs Lean constructParams"""
    lb = env.lb
    d = env.engines[("qmark", "warm")].dialect
    cases, impl, req = [], [], []
    for _ in range(n):
        sp = lb.gen_stmt_spec(ctx.rng, {"weird_p": 0.0, "le_p": 0.0, "named_p": 0.2}, kinds=["select", "group", "union", "update", "delete"])
        sp2 = lb.reroll_spec(sp, ctx.rng)
        try:
            s1, _ = lb.build_stmt(env.fx, sp)
            s2, _ = lb.build_stmt(env.fx, sp2)
            k1, k2 = s1._generate_cache_key(), s2._generate_cache_key()
            if k1 is None or k2 is None or k1.key != k2.key:
                ctx.count("C:keys-differ")
                continue
            compiled = s1._compiler(d, cache_key=k1, column_keys=[], for_executemany=False)
            pd = compiled.construct_params(extracted_parameters=k2.bindparams, escape_names=False)
        except Exception:
            ctx.count("C:skipped")
            continue
        orig = list(k1.bindparams)
        oid = {id(b): i for i, b in enumerate(orig)}
        co, own, vals = [], [], []
        ok = True
        nxt = len(orig)
        for bp, name in compiled.bind_names.items():
            src = [b for b in orig if b is bp or b in bp._cloned_set]
            if src:
                co.append(oid[id(src[0])])
            else:
                co.append(nxt)
                nxt += 1
            v = pd[name]
            ov = bp.value
            if isinstance(v, (list, tuple)):
                v = hash(tuple(v)) % 100000
            if isinstance(ov, (list, tuple)):
                ov = hash(tuple(ov)) % 100000
            if isinstance(v, str):
                v = int(v[1:]) if v[1:].isdigit() else 7
            if isinstance(ov, str):
                ov = int(ov[1:]) if ov[1:].isdigit() else 7
            if not isinstance(v, int) or not isinstance(ov, int):
                ok = False
                break
            own.append(ov)
            vals.append(v)
        if not ok or len(set(co)) != len(co):
            ctx.count("C:outside-model")
            continue

        def val(b):
            v = b.value
            if isinstance(v, (list, tuple)):
                return hash(tuple(v)) % 100000
            if isinstance(v, str):
                return int(v[1:]) if v[1:].isdigit() else 7
            return v

        ext = [val(b) for b in k2.bindparams]
        if not all(isinstance(x, int) for x in ext):
            ctx.count("C:outside-model")
            continue
        f = lambda l: ",".join(str(x) for x in l) or "-"  # noqa
        cases.append({"spec": sp, "spec2": sp2})
        impl.append(f(vals))
        req.append("cachekey rebind %s %s %s %s" % (f(range(len(orig))), f(co), f(own), f(ext)))
    if req and ctx.driver_ok():
        ctx.correspond("corr/c02:construct_params-rebinding-vs-Model.CacheKey", cases, impl, ctx.driver(req))
        ctx.count("C:model-lines", len(req))


# --------------------------------------------------------------------------- D: execution options that are not part of the key
def schema_map_stream(ctx, n, record=True):
    """statements (incl. executemany INSERT..RETURNING with a schema-qualified scalar
    subquery in VALUES) re-executed through ONE compiled cache under different non-empty
    schema_translate_maps: warm == cold == direct construct (machinery of C16)"""
    from harness import vlib
    from harness.props import c16

    env = c16.Env()
    sub = vlib.Ctx("C02", ctx.tier, ctx.seed, ctx.level)
    sub.rng = ctx.rng
    for _ in range(n):
        specs = []
        for _k in range(ctx.rng.randint(1, 2)):
            sp = c16.gen_spec(ctx.rng)
            if ctx.rng.random() < 0.7:
                sp["kind"] = ctx.rng.choice(["insertmany_sub", "insertmany_sub", "insertmany_plain", "select", "subq"])
                if sp["kind"].startswith("insertmany") and "rows" not in sp:
                    base = 70 + ctx.rng.randint(0, 20)
                    sp["rows"] = [{"pid": base + i, "px": ctx.rng.randint(1, 99)} for i in range(ctx.rng.randint(2, 5))]
                    sp["returning"] = ctx.rng.random() < 0.8
                    sp["page"] = ctx.rng.choice([None, None, 1, 2])
            if sp["kind"].startswith("ddl") or sp["kind"] == "create_all":
                sp["kind"] = "select"
            specs.append(sp)
        wn = ctx.rng.random() < 0.5
        hist = [(ctx.rng.randrange(len(specs)), c16.gen_map(ctx.rng, wn)) for _ in range(ctx.rng.randint(2, 6))]
        c16.check_history(sub, env, specs, hist, None, record=False)
        if record:
            ctx.count("D:schema-map-history")
            ctx.case(json.dumps([specs, [[i, str(m)] for i, m in hist]], sort_keys=True, default=str), nontrivial=True)
    n_v = 0
    for v in sub.violations:
        if v["key"] == c16.KEY_F11:
            continue
        n_v += 1
        ctx.violation("c02:schema-map:" + v["key"], dict(v["case"], stream="schema"), v["detail"])
    return n_v


# --------------------------------------------------------------------------- E: type-argument boundaries
def type_boundary_stream(ctx, record=True):
    """for every public constructor argument of the common types: statements that differ
    ONLY in that argument (unset / 0 / False / '' / truthy) pushed through one shared
    cache in both orders; warm must equal cold in SQL and in the types of binds/results"""
    from harness import lib_feat as lf

    sa = lf.Feat().sa
    t = lf.Feat().tab("t", None)
    dialects = {n: lf.get_dialect(n) for n in lf.DIALECTS}
    nviol = 0
    forms = {
        "cast": lambda T: sa.select(sa.cast(t.c.x, T)),
        "type_coerce": lambda T: sa.select(sa.type_coerce(t.c.x, T).label("v")),
        "bind": lambda T: sa.select(t.c.id).where(t.c.x == sa.bindparam("p", None, type_=T)),
        "column": lambda T: sa.select(sa.column("q", T)).select_from(t),
    }
    for (cname, pname), variants in sorted(lf.type_variant_groups(sa).items()):
        for fname, form in forms.items():
            for order in (variants, list(reversed(variants))):
                for dn, d in dialects.items():
                    warm = {}
                    for lbl, T in order:
                        try:
                            st = form(T)
                            w = lf.compile_via(st, d, warm)[:2]
                            c = lf.compile_via(st, d, {})[:2]
                        except Exception:
                            if record:
                                ctx.count("E:not-compilable")
                            continue
                        if record:
                            ctx.count("E:type-boundary-compiles")
                        if w != c:
                            nviol += 1
                            ctx.violation(
                                "c02:type-argument-not-in-cache-key",
                                {"stream": "types", "cls": cname, "arg": pname, "form": fname, "dialect": dn, "order": [x for x, _ in order]},
                                "%s on %s, order %s: %s served by a compilation cached for another value of `%s`: warm %s | cold %s" % (fname, dn, [x for x, _ in order], lbl, pname, str(w)[:300], str(c)[:300]),
                            )
                            return nviol
        if record:
            ctx.case("types:%s.%s" % (cname, pname), nontrivial=True)
    return nviol


# --------------------------------------------------------------------------- F: statements derived from SHARED templates
TEMPLATE_KINDS = ["text", "text_pos", "text_frag", "select_params", "select_where", "text_frag_two"]


def shared_templates(env):
    sa, t = env.sa, env.fx.t
    return {
        "text": sa.text("select id, x from t where x > :v order by id").bindparams(v=0),
        "frag": sa.text("t.x > :v").bindparams(v=0),
        "frag2": sa.text("t.x > :v and t.y < :w").bindparams(v=0, w=99999),
        "sel_bind": sa.select(t.c.id).where(t.c.x > sa.bindparam("v", 0)).order_by(t.c.id),
        "sel": sa.select(t.c.id).order_by(t.c.id),
    }


def derive(env, tpl, kind, val):
    sa, t = env.sa, env.fx.t
    if kind == "text":
        return tpl["text"].bindparams(v=val)
    if kind == "text_pos":
        return tpl["text"].bindparams(sa.bindparam("v", val))
    if kind == "text_frag":
        return sa.select(t.c.id).where(tpl["frag"].bindparams(v=val)).order_by(t.c.id)
    if kind == "text_frag_two":
        return sa.select(t.c.id).where(tpl["frag2"].bindparams(v=val)).order_by(t.c.id)
    if kind == "select_params":
        return tpl["sel_bind"].params(v=val)
    if kind == "select_where":
        return tpl["sel"].where(t.c.x > val)
    raise ValueError(kind)


def shared_history(ctx, env, actions, record=True):
    """actions: ["derive", kind, value] appends to the pool; ["exec", i] executes pool[i]
    on every engine.  Oracle: warm == cold == no-cache AND the ids returned are the ids
    of rows with x > (the value THAT statement was derived with)."""
    from harness import lib_binds as lb

    tpl = shared_templates(env)
    pool = []
    for pos, act in enumerate(actions):
        if act[0] == "derive":
            pool.append((derive(env, tpl, act[1], act[2]), act[2], act[1]))
            continue
        if act[1] >= len(pool):
            continue
        st, val, kind = pool[act[1]]
        want = [i + 1 for i, x in enumerate(lb.X_VALUES) if x > val]
        sp = {"kind": "select"}
        for style in env.STYLES:
            res = {m: exec_one(env, (style, m), st, None, sp) for m in ("warm", "cold", "none")}
            cmpk = lambda r: (r["status"], r.get("rows"), r["sql"])  # noqa
            got = {m: ([r_[0] for r_ in res[m]["rows"]] if res[m].get("rows") is not None else res[m]["status"]) for m in res}
            bad = None
            if cmpk(res["warm"]) != cmpk(res["cold"]) or cmpk(res["cold"]) != cmpk(res["none"]):
                bad = "cache modes disagree"
            elif got["warm"] != want:
                bad = "statement derived with v=%s returns ids %s, expected %s" % (val, got["warm"], want)
            if bad:
                ctx.violation(
                    "c02:shared-template",
                    {"stream": "shared", "actions": actions[: pos + 1]},
                    "step %d (%s derived with v=%s, style %s): %s ; warm %s | cold %s | none %s" % (pos, kind, val, style, bad, str(cmpk(res["warm"]))[:250], str(cmpk(res["cold"]))[:250], str(cmpk(res["none"]))[:250]),
                )
                return 1
    if record:
        ctx.case(json.dumps(actions), nontrivial=True)
        ctx.count("F:shared-template-history")
    return 0


def gen_shared_actions(rng):
    from harness import lib_binds as lb

    acts = []
    n_pool = 0
    for _ in range(rng.randint(4, 10)):
        if n_pool == 0 or rng.random() < 0.45:
            kind = rng.choice(TEMPLATE_KINDS)
            acts.append(["derive", kind, rng.choice(lb.X_VALUES) + rng.choice([0, 1, -1])])
            n_pool += 1
        else:
            acts.append(["exec", rng.randrange(n_pool)])
    acts += [["exec", i] for i in range(n_pool)]
    return acts


# --------------------------------------------------------------------------- entry points
def feat_state():
    from harness import lib_feat as lf

    return {"ft": lf.Feat(), "dialects": {n: lf.get_dialect(n) for n in lf.DIALECTS}, "warm": {n: {} for n in lf.DIALECTS}}


EXPANDING_PAIR = None


def expanding_pair():
    from harness import lib_feat as lf
    import random

    base = lf.gen_feat(random.Random(11))
    base.update({"kind": "select", "frm": "t", "col_expr": "plain", "where_op": "eq", "where_col": "x", "bind_flag": "named", "group": False, "fetch": None, "for_update": "none", "hint": None, "table_name": "t", "schema": None})
    other = dict(base, bind_flag="expanding_outside_in")
    return [base, other]


def callable_pair():
    base, _ = expanding_pair()
    base = dict(base, bind_flag="typed_numeric", where_op="lt")
    return [dict(base, bind_flag="plain", col_expr="arith", where_op="lt"), dict(base, bind_flag="callable", col_expr="arith", where_op="lt")]


def run(ctx, deep=False):
    import warnings

    from harness import lib_binds as lb
    from harness import lib_feat as lf

    warnings.simplefilter("ignore")
    ctx.rule = (
        "A: feature specs (~60 toggles: select/compound/insert/update/delete/values/text; columns, casts, CASE, OVER frames, FILTER, collation, joins, CTE flags, "
        "table sample, VALUES, table-valued, hints, prefixes, FOR UPDATE flags, LIMIT/OFFSET/FETCH, ON CONFLICT, bind flags) x 5 dialects, each in the sequence "
        "base, reroll, one-toggle mutant, reroll(mutant), base on a cache shared by the whole run; B: generated Core/ORM statements on SQLite x 3 paramstyles, "
        "sequences base, reroll, structural variant, reroll, base; a case = one sequence; non-trivial = sequence with >=2 statements of equal structure"
    )
    ctx.trusted += [
        "the attribute-read extraction of the translator is syntactic (ast over SQLCompiler.visit_*); harness/c02_derived.json is the reviewed residual of the unchanged tree",
        "LRU eviction is property C54",
    ]
    thorough = ctx.tier == "thorough" or deep
    st = feat_state()
    nA = 2500 if thorough else 80
    for i in range(nA):
        base = lf.gen_feat(ctx.rng)
        m, tog = lf.mutate(base, ctx.rng)
        seq = [base, lf.reroll(base, ctx.rng), m, lf.reroll(m, ctx.rng), base]
        feat_sequence(ctx, st, seq, "toggle=%s" % tog)
        ctx.case(json.dumps(seq, sort_keys=True), nontrivial=True)
        ctx.count("A:toggle=%s" % tog)
        if i < 2:
            ctx.sample({"feature-sequence": [base, {"mutated": tog}]})
    for base, m, tog in lf.sweep_pairs(ctx.rng, None if thorough else 4):
        feat_sequence(ctx, st, [base, m, lf.reroll(base, ctx.rng)], "sweep=%s:%s->%s" % (tog, base[tog], m[tog]))
        ctx.case(json.dumps([base, m], sort_keys=True), nontrivial=True)
        ctx.count("A:sweep")
    feat_sequence(ctx, st, expanding_pair(), "expanding-flag")
    feat_sequence(ctx, st, callable_pair(), "callable-flag")
    env = ExecEnv()
    nB = 700 if thorough else 50
    for i in range(nB):
        r_ = ctx.rng.random()
        if r_ < 0.2:
            sp = lb.gen_poly_spec(ctx.rng)
        elif r_ < 0.45:
            sp = lb.gen_orm_spec(ctx.rng, {"weird_p": 0.0, "le_p": 0.1})
        else:
            sp = lb.gen_stmt_spec(ctx.rng, {"weird_p": 0.2, "le_p": 0.1})
            _strip(sp)
        seq = [sp, lb.reroll_spec(sp, ctx.rng)]
        v = structural_variant(lb, sp, ctx.rng)
        if v is not None:
            seq += [v, lb.reroll_spec(v, ctx.rng)]
        seq.append(lb.reroll_spec(sp, ctx.rng))
        exec_sequence(ctx, env, seq)
        ctx.case(json.dumps(seq, sort_keys=True), nontrivial=True)
    schema_map_stream(ctx, 200 if thorough else 15)
    type_boundary_stream(ctx)
    for _ in range(400 if thorough else 40):
        shared_history(ctx, env, gen_shared_actions(ctx.rng))
    rebind_cases(ctx, env, 400 if thorough else 80)
    ctx.exhaustive = False


def _strip(sp):
    from harness.props import c04

    c04.strip_known(sp)


def search(ctx, broken):
    """a proof/table obligation broke: larger feature-matrix budget, biased to the
    classes whose row changed"""
    from harness import lib_feat as lf
    from harness import vlib

    sub = vlib.Ctx(ctx.pid, "thorough", ctx.seed + 1, ctx.level)
    st = feat_state()
    for base, m, tog in lf.sweep_pairs(sub.rng, None):
        feat_sequence(sub, st, [base, m, lf.reroll(base, sub.rng)], "sweep=%s:%s->%s" % (tog, base[tog], m[tog]), record=False)
    if any(v["key"] not in (KEY_EXPANDING, KEY_CALLABLE) for v in sub.violations):
        ctx.violations.extend(v for v in sub.violations if v["key"] not in (KEY_EXPANDING, KEY_CALLABLE))
        return
    for i in range(6000):
        base = lf.gen_feat(sub.rng)
        m, tog = lf.mutate(base, sub.rng)
        if feat_sequence(sub, st, [base, lf.reroll(base, sub.rng), m, lf.reroll(m, sub.rng), base], "toggle=%s" % tog, record=False):
            if any(v["key"] not in (KEY_EXPANDING, KEY_CALLABLE) for v in sub.violations):
                break
    ctx.violations.extend(v for v in sub.violations if v["key"] not in (KEY_EXPANDING, KEY_CALLABLE))


def replay(ctx, obj):
    import warnings

    warnings.simplefilter("ignore")
    c = obj["case"]
    if c.get("stream") == "types":
        bad = type_boundary_stream(ctx, record=False) > 0
    elif c.get("stream") == "shared":
        bad = shared_history(ctx, ExecEnv(), c["actions"], record=False) > 0
    elif c.get("stream") == "schema":
        from harness.props import c16

        hist = [(i, None if m is None else {k: v for k, v in m}) for i, m in c["history"]]
        bad = c16.check_history(ctx, c16.Env(), c["specs"], hist, None, record=False) > 0
    elif c.get("stream") == "feat":
        bad = feat_sequence(ctx, feat_state(), c["seq"], c.get("label", ""), record=False) > 0
    else:
        bad = exec_sequence(ctx, ExecEnv(), c["seq"], record=False) > 0
    for v in ctx.violations:
        print("replay C02: %s — %s" % (v["key"], v["detail"][:700]))
    if not bad:
        print("replay C02: no violation")
    return bad
