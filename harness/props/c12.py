"""C12 — bulk INSERT with RETURNING returns one row per parameter set, in order.

Model:    lean/SaVerif/Model/Imv.lean (transcription of
          SQLCompiler._deliver_insertmanyvalues_batches + the sentinel sort of
          DefaultDialect._deliver_insertmanyvalues_batches)
Theorems: lean/SaVerif/Props/C12.lean
Gen:      lean/SaVerif/Gen/ImvFlags.lean (dialect flags + sentinel lookup tables)

Every case builds a fresh in-memory SQLite engine whose cursor hands the rows of each
INSERT..RETURNING to SQLAlchemy in a *shuffled* order (SQL leaves that order
unspecified; SQLite happens to keep it, which would hide every ordering bug).  The
direct oracle compares returned rows / inserted_primary_key_rows / table contents with
the parameter list; the correspondence compares the recorded batches, rewritten
parameters, numeric placeholder numbers and the final row order with the Lean model.
"""
import random
import re

PID = "C12"
LEVEL = "proof"
LEAN = ["SaVerif.Props.C12"]
META = {
    "text": "Lean theorems for every parameter list, every positive batch size, every mode and every per-batch permutation chosen by the backend: batches partition the parameter list (each set once, in order, none empty, none above the page size, max-parameter limit respected, batch numbers/total exact); the explicit-sentinel match restores parameter order when sentinel values are distinct and can never pair a row with a different sentinel (no assumption on the backend); the implicit-sentinel sort restores order when the backend assigns increasing keys in VALUES order; row-at-a-time needs no sentinel; whenever ordered RETURNING is requested and no usable sentinel exists the row-at-a-time mode is chosen (decision table), and the regenerated dialect-flag/lookup tables never select a server-generated sentinel on a dialect that cannot sort on it. Tied to the code by a differential run on SQLite (qmark, numeric, numeric_dollar and named paramstyles, page sizes, max-parameter limits, seven sentinel configurations, upsert clauses, CTE/RETURNING binds outside VALUES) with an adversarial cursor that shuffles each batch's RETURNING rows, and re-checked by a direct oracle on returned rows, inserted_primary_key_rows and table contents.",
    "note": "Modelled, not verified: the statement *text* rewriting (VALUES expansion, numeric renumbering) is only validated by executing it on SQLite and by the numeric-placeholder correspondence; compile-time sentinel selection (crud.py / schema.py) is covered by the oracle and the regenerated decision tables, not transcribed. PostgreSQL / MariaDB / MSSQL paths (VALUES counter, INSERT..SELECT form) are planned through the real compiler (batch plan + parameters compared with the model) but never executed; the implicit-sentinel path is exercised on SQLite by setting the dialect instance's insertmanyvalues_implicit_sentinel flag to MariaDB's value. Known finding: a sentinel primary-key column omitted from the parameters on a dialect without implicit sentinel support ends in a bare AssertionError.",
    "technique": "Lean 4 proofs by induction over the batching loop and the batch list with the database as an adversary (any permutation per batch) + differential correspondence against SQLite with a row-shuffling cursor",
    "design_ref": "DESIGN.md §3 C12",
}

SHAPES = ("autoinc", "strpk", "uuid", "sentinel", "composite", "compdef", "pksupplied", "nopk")
RETS = ("tag", "id_tag", "all", "expr", "cteret", "defaults", "none")
VALS = ("plain", "expr", "cte")
UPSERTS = ("none", "nothing", "update", "update_bound")


# ---------------------------------------------------------------------------- translator
def gen(ctx):
    """dialect flags and the sentinel lookup tables of compiler.py -> Gen/ImvFlags.lean"""
    from sqlalchemy.dialects import mssql, mysql, oracle, postgresql, sqlite
    from sqlalchemy.engine import default
    from sqlalchemy.sql import compiler
    from sqlalchemy.sql.base import _SentinelDefaultCharacterization as SDC

    names = {
        SDC.NONE: "none",
        SDC.UNKNOWN: "unknown",
        SDC.CLIENTSIDE: "clientside",
        SDC.SENTINEL_DEFAULT: "sentinelDefault",
        SDC.SERVERSIDE: "serverside",
        SDC.IDENTITY: "identity",
        SDC.SEQUENCE: "sequence",
        SDC.MONOTONIC_FUNCTION: "monotonicFunction",
    }

    def table(d):
        return "[" + ", ".join("(.%s, %d)" % (names[k], int(v)) for k, v in sorted(d.items(), key=lambda kv: names[kv[0]])) + "]"

    C = compiler.SQLCompiler
    O = compiler.InsertmanyvaluesSentinelOpts
    dialects = [
        ("default", default.DefaultDialect()),
        ("sqlite", sqlite.dialect()),
        ("postgresql", postgresql.dialect()),
        ("mysql", mysql.dialect()),
        ("mssql", mssql.dialect()),
        ("oracle", oracle.dialect()),
    ]
    rows = []
    for n, d in dialects:
        rows.append(
            '  { name := "%s", implicitSentinel := %d, supportsMultivaluesInsert := %s, supportsDefaultMetavalue := %s, '
            "useInsertmanyvalues := %s, woReturning := %s, maxParameters := %d, pageSize := %d }"
            % (
                n,
                int(d.insertmanyvalues_implicit_sentinel),
                str(bool(d.supports_multivalues_insert)).lower(),
                str(bool(d.supports_default_metavalue)).lower(),
                str(bool(d.use_insertmanyvalues)).lower(),
                str(bool(d.use_insertmanyvalues_wo_returning)).lower(),
                int(d.insertmanyvalues_max_parameters or 0),
                int(d.insertmanyvalues_page_size),
            )
        )
    src = (
        "import SaVerif.Model.Imv\nnamespace SaVerif.Gen.ImvFlags\nopen SaVerif.Imv\n\n"
        "/-- SQLCompiler._sentinel_col_non_autoinc_lookup / _sentinel_col_autoinc_lookup -/\n"
        "def tables : SentinelTables :=\n  { nonAutoinc := %s,\n    autoinc := %s }\n\n"
        "/-- InsertmanyvaluesSentinelOpts.ANY_AUTOINCREMENT -/\ndef anyAutoincrement : Nat := %d\n\n"
        "def dialects : List DialectFlags := [\n%s\n]\n\nend SaVerif.Gen.ImvFlags\n"
        % (
            table(dict(C._sentinel_col_non_autoinc_lookup)),
            table(dict(C._sentinel_col_autoinc_lookup)),
            int(O.ANY_AUTOINCREMENT),
            ",\n".join(rows),
        )
    )
    ctx.write_gen("ImvFlags", src)


# ---------------------------------------------------------------------------- case generation
def gen_case(rng, tier, exhaustive_small=None):
    shape = rng.choice(SHAPES)
    n = rng.choice([2, 2, 3, 3, 4, 5, 6, 7, 9, 12] + ([17, 25, 40] if tier == "thorough" else [15]))
    page = rng.choice([None, 1, 2, 2, 3, 3, 4, 5, n - 1 or 1, n, n + 1, 1000])
    ret = rng.choice(RETS)
    case = {
        "shape": shape,
        "flag": rng.choice(["sqlite", "sqlite", "implicit"]),
        "paramstyle": rng.choice(["qmark", "qmark", "numeric", "numeric_dollar", "named"]),
        "page": page,
        "page_via": rng.choice(["option", "engine"]),
        "maxp": rng.choice([None, None, None, 12, 13, 14, 17, 20, 33]),
        "n": n,
        "sort": rng.random() < 0.75,
        "ret": ret,
        "values": rng.choice(["plain"] * 6 + ["expr"] * 3 + ["cte"]),
        "upsert": rng.choice(["none", "none", "none", "none", "nothing", "update", "update_bound", "update_bound"]),
        "omit": [k for k in ("y", "z") if rng.random() < 0.4],
        "pre": rng.choice([0, 0, 1, 3, 4]),
        "seed": rng.randrange(1 << 30),
        "fault": None,
        # type of column x: Integer or a TypeDecorator with bind_expression/column_expression
        "xtype": rng.choice(["int", "int", "bindexpr", "colexpr", "both"]),
        "chain": None,
        # DO UPDATE variants: how many parameter sets hit a pre-existing row (by tag)
        "conflicts": rng.choice([0, 1, 2, 3, 3]),
    }
    if rng.random() < 0.3 and ret != "none":
        # the sort flag given on the first / a middle / the last / several calls of a chain
        k = rng.choice([2, 2, 3])
        chain = [rng.random() < 0.4 for _ in range(k)]
        case["chain"] = chain
        case["sort"] = any(chain)
    if rng.random() < 0.15 and ret not in ("none", "defaults"):
        case["fault"] = [rng.choice(["dup", "drop", "alter"]), rng.randrange(4), rng.randrange(4), rng.randrange(4)]
    return case


def build(case):
    """-> (engine, hub, table, stmt, params, expected rows by tag)"""
    import uuid

    import sqlalchemy as sa
    from sqlalchemy import Column, Integer, MetaData, String, Table, Uuid, bindparam, insert_sentinel, literal, select
    from sqlalchemy.dialects import sqlite as sqlite_d
    from sqlalchemy.sql.compiler import InsertmanyvaluesSentinelOpts

    from harness.lib_dml import decorated_type, make_engine

    rng = random.Random(case["seed"])
    kw = {}
    if case["page"] is not None and case["page_via"] == "engine":
        kw["insertmanyvalues_page_size"] = case["page"]
    eng, hub = make_engine(case["paramstyle"], **kw)
    if case["flag"] == "implicit":
        eng.dialect.insertmanyvalues_implicit_sentinel = InsertmanyvaluesSentinelOpts.AUTOINCREMENT
    if case["maxp"] is not None:
        eng.dialect.insertmanyvalues_max_parameters = case["maxp"]

    m = MetaData()
    shape = case["shape"]
    gen_vals = []

    def strgen():
        v = "%08x" % rng.randrange(1 << 32)
        gen_vals.append(v)
        return v

    def uuidgen():
        v = uuid.UUID(int=rng.getrandbits(128))
        gen_vals.append(v)
        return v

    def intgen():
        v = rng.randrange(1 << 40)
        gen_vals.append(v)
        return v

    pk = []
    if shape == "autoinc":
        pk = [Column("id", Integer, primary_key=True)]
    elif shape == "strpk":
        pk = [Column("id", String(8), primary_key=True, default=strgen)]
    elif shape == "uuid":
        pk = [Column("id", Uuid, primary_key=True, default=uuidgen)]
    elif shape == "sentinel":
        pk = [Column("id", Integer, primary_key=True), insert_sentinel("sen")]
    elif shape == "composite":
        pk = [Column("a", Integer, primary_key=True, autoincrement=False), Column("b", String(4), primary_key=True)]
    elif shape == "compdef":
        pk = [Column("a", Integer, primary_key=True, autoincrement=False, default=intgen), Column("b", String(4), primary_key=True)]
    elif shape == "pksupplied":
        pk = [Column("id", Integer, primary_key=True, autoincrement=False)]
    elif shape == "nopk":
        pk = []
    t = Table(
        "t",
        m,
        *pk,
        Column("tag", Integer, nullable=False, unique=True),
        Column("x", decorated_type(case.get("xtype", "int"))),
        Column("y", Integer, default=5),
        Column("z", Integer),
    )
    m.create_all(eng)

    n = case["n"]
    pre = case["pre"]
    # distinct non-monotonic client keys
    ids = rng.sample(range(1, 10 * (n + pre) + 10), n + pre)
    pairs = set()
    while len(pairs) < n + pre:
        pairs.add((rng.randrange(1, 4 + (n + pre) // 3), rng.choice("pqrs") + str(rng.randrange(3))))
    pairs = sorted(pairs)
    rng.shuffle(pairs)
    tags = rng.sample(range(100, 100 + 5 * (n + pre)), n + pre)

    def keycols(i):
        if shape == "pksupplied":
            return {"id": ids[i]}
        if shape == "composite":
            return {"a": pairs[i][0], "b": pairs[i][1]}
        if shape == "compdef":
            return {"b": pairs[i][1]}
        return {}

    with eng.begin() as c:
        for i in range(pre):
            c.execute(t.insert(), dict(keycols(n + i), tag=tags[n + i], x=-1, y=-1, z=-1))
    del gen_vals[:]
    hub.reset()

    params, expected = [], {}
    # (return_defaults: "inserted primary key" of a row that was updated instead is the
    # client-generated key that was never stored - not a C12 question, so no conflicts)
    nconf = min(case.get("conflicts", 0), pre, n) if case["upsert"] in ("update", "update_bound") and case["ret"] != "defaults" else 0
    conf_at = {}
    if nconf:
        for j, i in enumerate(random.Random(case["seed"] ^ 0xC0F).sample(range(n), nconf)):
            conf_at[i] = n + j  # parameter set i hits pre-existing row j
    for i in range(n):
        p = dict(keycols(i), tag=tags[i], x=rng.choice([None, 0, 1, 7, -3, 12345]))
        exp = dict(p)
        if "y" not in case["omit"]:
            p["y"] = exp["y"] = rng.choice([None, 0, 9])
        else:
            exp["y"] = 5
        zval = rng.choice([None, 4, 6])
        if case["values"] == "expr":
            p["zz"] = zval
            exp["z"] = None if zval is None else zval + 3
        elif case["values"] == "cte":
            exp["z"] = 99
        elif "z" not in case["omit"]:
            p["z"] = exp["z"] = zval
        else:
            exp["z"] = None
        if case["upsert"] == "update_bound":
            p["newx"] = 700 + i  # a different value for every parameter set
        if i in conf_at:
            # this parameter set collides (on tag) with a pre-existing row: DO UPDATE SET x
            j = conf_at[i]
            p["tag"] = tags[j]
            exp = dict(keycols(j), tag=tags[j], y=-1, z=-1, _conf=True)
            exp["x"] = p["newx"] if case["upsert"] == "update_bound" else p["x"]
            params.append(p)
            expected[tags[j]] = exp
            continue
        params.append(p)
        expected[tags[i]] = exp

    ins = sqlite_d.insert(t) if case["upsert"] != "none" else sa.insert(t)
    if case["values"] == "expr":
        ins = ins.values(z=bindparam("zz", type_=Integer) + 3)
    elif case["values"] == "cte":
        cte = select(literal(99).label("q")).cte("c")
        ins = ins.values(z=select(cte.c.q).scalar_subquery()).add_cte(cte)
    if case["upsert"] == "nothing":
        ins = ins.on_conflict_do_nothing()
    elif case["upsert"] == "update":
        ins = ins.on_conflict_do_update(index_elements=[t.c.tag], set_={"x": ins.excluded.x})
    elif case["upsert"] == "update_bound":
        ins = ins.on_conflict_do_update(index_elements=[t.c.tag], set_={"x": bindparam("newx")})
    ret = case["ret"]
    # chained generative calls: returning(.., sort_by_parameter_order=f0).returning(.., f1)...;
    # the statement asks for ordered rows when ANY call of the chain said so
    chain = case.get("chain") or [case["sort"]]
    sort = chain[0]
    pkcols = [c_ for c_ in t.c if c_.primary_key]
    if ret == "tag":
        ins = ins.returning(t.c.tag, sort_by_parameter_order=sort)
    elif ret == "id_tag":
        ins = ins.returning(*pkcols, t.c.tag, sort_by_parameter_order=sort)
    elif ret == "all":
        ins = ins.returning(t, sort_by_parameter_order=sort)
    elif ret == "expr":
        ins = ins.returning(t.c.tag, (t.c.x + 7).label("xp"), sort_by_parameter_order=sort)
    elif ret == "cteret":
        # a bound parameter left of VALUES that is not part of VALUES
        cte2 = select(literal(41).label("q")).cte("c2")
        ins = ins.add_cte(cte2).returning(t.c.tag, select(cte2.c.q).scalar_subquery().label("qq"), sort_by_parameter_order=sort)
    elif ret == "defaults":
        ins = ins.return_defaults(sort_by_parameter_order=sort)
    extra_cols = [t.c.y, t.c.z, t.c.x]
    for i, flag in enumerate(chain[1:]):
        col = extra_cols[i % 3]
        kw2 = {"sort_by_parameter_order": True} if flag else ({} if i % 2 == 0 else {"sort_by_parameter_order": False})
        if ret == "defaults":
            ins = ins.return_defaults(col, **kw2)
        elif ret != "none":
            ins = ins.returning(col.label("extra%d" % i), **kw2)
    return eng, hub, t, ins, params, expected, gen_vals


def make_adversary(case, hub, state):
    """shuffle each INSERT..RETURNING result; optionally inject one fault into an
    explicit-sentinel batch (dup / drop / altered sentinel)"""
    rng = random.Random(case["seed"] ^ 0x5A5A)
    fault = case.get("fault")

    def adversary(stmt, rows):
        rows = list(rows)
        rng.shuffle(rows)
        k = state["fetches"]
        state["fetches"] += 1
        if fault and hub.imv and not state["faulted"]:
            imv = hub.imv[-1]["compiled"]._insertmanyvalues
            explicit = imv is not None and imv.num_sentinel_columns and not imv.implicit_sentinel
            if explicit and k == fault[1] % max(1, state.get("nb", 1)) and rows:
                kind, _, i, j = fault
                i %= len(rows)
                j %= len(rows)
                nsc = imv.num_sentinel_columns
                if kind == "dup" and len(rows) > 1 and i != j:
                    rows[j] = rows[i]
                    state["faulted"] = kind
                elif kind == "drop" and len(rows) > 1:
                    del rows[i]
                    state["faulted"] = kind
                elif kind == "alter":
                    r = list(rows[i])
                    last = r[-1]
                    r[-1] = (last + 1000003) if isinstance(last, int) else ("~" + str(last))[: max(2, len(str(last)))]
                    rows[i] = tuple(r)
                    state["faulted"] = kind
                del nsc
        return rows

    return adversary


def run_case(case):
    """execute one case on the real code; returns an observation dict"""
    import sqlalchemy as sa

    from harness.lib_dml import exc_enum

    eng, hub, t, ins, params, expected, gen_vals = build(case)
    state = {"fetches": 0, "faulted": None}
    hub.adversary = make_adversary(case, hub, state)
    opts = {}
    if case["page"] is not None and case["page_via"] == "option":
        opts["insertmanyvalues_page_size"] = case["page"]
    obs = {"case": case, "exc": None, "rows": None, "pk_rows": None, "keys": None}
    obs["stmt_sort"] = bool(getattr(ins, "_sort_by_parameter_order", False))
    try:
        with eng.begin() as c:
            res = c.execute(ins, params, execution_options=opts)
            if case["ret"] == "defaults":
                obs["pk_rows"] = [tuple(r) for r in res.inserted_primary_key_rows]
                rd = res.returned_defaults_rows
                obs["rd_rows"] = None if rd is None else [tuple(r) for r in rd]
            elif case["ret"] != "none":
                obs["keys"] = list(res.keys())
                obs["rows"] = [tuple(r) for r in res.all()]
    except Exception as e:  # noqa: BLE001 - classified below
        obs["exc"] = exc_enum(e)
        obs["exc_text"] = "%s: %s" % (type(e).__name__, str(e)[:300])
    obs["faulted"] = state["faulted"]
    hub.adversary = None
    with eng.connect() as c:
        obs["db"] = [dict(r._mapping) for r in c.execute(sa.select(t).order_by(t.c.tag))]
    obs["hub"] = hub
    obs["params"] = params
    obs["expected"] = expected
    obs["table"] = t
    obs["pkcols"] = [c_.name for c_ in t.c if c_.primary_key]
    eng.dispose()
    return obs


# ---------------------------------------------------------------------------- direct oracle
def oracle(obs):
    """the property itself, on the implementation's output.  -> (key, detail) or None"""
    case = obs["case"]
    params, expected = obs["params"], obs["expected"]
    db_by_tag = {r["tag"]: r for r in obs["db"]}
    new_tags = [p["tag"] for p in params]
    if obs["faulted"]:
        # the backend broke its contract (duplicate / missing / altered sentinel): the only
        # acceptable outcomes are an error, or a result that is still correctly paired
        if obs["exc"] is None and obs["rows"] is not None:
            idx = obs["keys"].index("tag")
            got = [r[idx] for r in obs["rows"]]
            if case["sort"] and got != new_tags:
                return ("c12-fault-silently-misordered", "backend fault %s accepted silently: tags %s for params %s" % (obs["faulted"], got, new_tags))
        return None
    if obs["exc"] is not None:
        return ("c12-exception:" + obs["exc"].split(":")[0].replace(" ", "-"), "unexpected %s" % obs.get("exc_text"))
    # table contents: every parameter set exactly once, with its values
    pre_rows = [r for r in obs["db"] if r["tag"] not in expected]
    nconf = sum(1 for e in expected.values() if e.get("_conf"))
    if len(pre_rows) != case["pre"] - nconf or any(r["x"] != -1 for r in pre_rows):
        return ("c12-db-preexisting-rows-changed", "pre-existing rows: %s" % pre_rows)
    if sorted(db_by_tag) != sorted(list(expected) + [r["tag"] for r in pre_rows]):
        return ("c12-db-rowset", "tags in table %s, expected %s" % (sorted(db_by_tag), sorted(expected)))
    for tag, exp in expected.items():
        row = db_by_tag[tag]
        for k, v in exp.items():
            if k in ("zz", "newx", "_conf"):
                continue
            if row[k] != v:
                return ("c12-db-values", "row tag=%s column %s stored %r expected %r" % (tag, k, row[k], v))
    pkcols = obs["pkcols"]
    if obs["rows"] is not None:
        keys = obs["keys"]
        if len(obs["rows"]) != len(params):
            return ("c12-returning-count", "%d rows returned for %d parameter sets" % (len(obs["rows"]), len(params)))
        idx = keys.index("tag")
        got = [r[idx] for r in obs["rows"]]
        if case["sort"]:
            if got != new_tags:
                return ("c12-returning-order", "returned tags %s, parameter tags %s" % (got, new_tags))
        elif sorted(got) != sorted(new_tags):
            return ("c12-returning-rowset", "returned tags %s, parameter tags %s" % (got, new_tags))
        for r in obs["rows"]:
            row = db_by_tag[r[idx]]
            for k, v in zip(keys, r):
                if k == "xp":
                    want = None if row["x"] is None else row["x"] + 7
                elif k == "qq":
                    want = 41
                elif k in row:
                    want = row[k]
                else:
                    continue
                if v != want:
                    return ("c12-returning-values", "returned %s=%r but stored %r (tag %s)" % (k, v, want, r[idx]))
    if obs["pk_rows"] is not None:
        if len(obs["pk_rows"]) != len(params):
            return ("c12-pkrows-count", "%d inserted_primary_key_rows for %d parameter sets" % (len(obs["pk_rows"]), len(params)))
        if pkcols:
            want = [tuple(db_by_tag[tg][k] for k in pkcols) for tg in new_tags]
            got = obs["pk_rows"]
            if case["sort"]:
                if got != want:
                    return ("c12-pkrows-order", "inserted_primary_key_rows %s, stored keys in parameter order %s" % (got, want))
            elif sorted(got, key=repr) != sorted(want, key=repr):
                return ("c12-pkrows-rowset", "inserted_primary_key_rows %s, stored %s" % (got, want))
    return None


# ---------------------------------------------------------------------------- correspondence
def fmt_ints(l):
    return ",".join(str(x) for x in l) if l else "-"


def corr_lines(obs, enc):
    """-> list of (name, impl_line, model_request) for the insertmanyvalues execution of
    this case (empty when the statement did not go through insertmanyvalues)"""
    hub = obs["hub"]
    out = []
    case_ = obs["case"]
    if case_.get("chain") and case_["ret"] != "none":
        out.append(("sort-flag", "ok %d" % obs["stmt_sort"], "imv sortflag %s" % "".join("1" if f else "0" for f in case_["chain"])))
    if len(hub.imv) != 1:
        return out
    rec = hub.imv[0]
    compiled = rec["compiled"]
    imv = compiled._insertmanyvalues
    d = compiled.dialect
    returning = bool(compiled.effective_returning)
    bits = "".join(
        "1" if b else "0"
        for b in (
            imv.is_default_expr,
            d.supports_default_metavalue,
            d.supports_multivalues_insert,
            imv.sort_by_parameter_order if returning else False,
            bool(compiled._result_columns),
            imv.sentinel_columns is not None,
            imv.includes_upsert_behaviors,
            imv.embed_values_counter,
            imv.has_upsert_bound_parameters,
        )
    )
    page = rec["options"].get("insertmanyvalues_page_size", d.insertmanyvalues_page_size)
    maxp = d.insertmanyvalues_max_parameters or 0
    total_binds = len(compiled.bind_names)
    per = len(imv.insert_crud_params)
    n = len(rec["parameters"])
    head = "%s %d %d %d %d" % (bits, page, maxp, total_binds, per)
    batches = rec["batches"]
    complete = obs["exc"] is None
    if complete:
        impl_plan = "ok " + (";".join("%d/%d/%d/%d/%d" % (len(b.batch), b.current_batch_size, b.batchnum, b.total_batches, int(b.is_downgraded)) for b in batches) or "-")
        out.append(("plan", impl_plan, "imv plan2 %s %d" % (head, n)))
    # rewritten parameters + numeric placeholders, per recorded batch
    canon = lambda v: enc((type(v).__name__, repr(v)))  # noqa: E731
    if compiled.positional:
        ptup = compiled.positiontup or []
        names = set()
        for elem in imv.insert_crud_params:
            names.update(elem[3])
        flags = "".join("1" if nm in names else "0" for nm in ptup) or "-"
        for b in batches:
            if _is_row_mode(batches, n, bits) or len(b.batch) == 0:
                continue
            rows = ";".join(fmt_ints([canon(v) for v in p]) if len(p) else "_" for p in b.batch)
            impl = "ok " + fmt_ints([canon(v) for v in b.replaced_parameters])
            out.append(("positional", impl, "imv pos2 %d %s %s" % (imv.num_positional_params_counted, flags, rows)))
            if compiled._numeric_binds and imv.num_positional_params_counted > 0:
                seg = _values_segment(b.replaced_statement)
                ch = re.escape(compiled._numeric_binds_identifier_char)
                nums = [int(x) for x in re.findall(ch + r"(\d+)", seg)]
                out.append(("numeric", "ok " + fmt_ints(nums), "imv npos2 %d %s %d" % (imv.num_positional_params_counted, flags, b.current_batch_size)))
    else:
        from harness.vlib import enc_str

        crud = []
        for elem in imv.insert_crud_params:
            for nm in elem[3]:
                nm = (compiled.escaped_bind_names or {}).get(nm, nm)
                if nm not in crud:
                    crud.append(nm)
        if not _is_row_mode(batches, n, bits):
            p0 = rec["parameters"][0]
            allkeys = list(p0)
            for b in batches:
                base = ",".join("%s=%d" % (enc_str(k), canon(p0[k])) for k in allkeys if k not in crud) or "_"
                bt = ";".join(",".join("%s=%d" % (enc_str(k), canon(p[k])) for k in p) or "_" for p in b.batch)
                impl = "ok " + (",".join(sorted("%s=%d" % (enc_str(k), canon(v)) for k, v in b.replaced_parameters.items())) or "-")
                out.append(
                    (
                        "named",
                        impl,
                        "imv named2 %s %s %s %s" % (",".join(enc_str(k) for k in allkeys) or "-", ",".join(enc_str(k) for k in crud) or "-", base, bt),
                    )
                )
    # the result order: what the cursor handed over vs what the caller got
    if returning and obs["rows"] is not None or (returning and obs["exc"] in ("err rowcount", "err nomatch")):
        style = "none"
        if imv.num_sentinel_columns:
            style = "implicit" if imv.implicit_sentinel else "explicit"
        nsc = imv.num_sentinel_columns
        desc_tag = _tag_index(rec, obs)
        if desc_tag is not None:
            tag_to_src = {p["tag"]: i for i, p in enumerate(obs["params"])}
            sent_canon = {}

            def skey(vals):
                k = repr(tuple(vals))
                if k not in sent_canon:
                    sent_canon[k] = len(sent_canon)
                return sent_canon[k]

            # sentinel of parameter i as the backend echoes it: taken from the stored row
            db_by_tag = {r["tag"]: r for r in obs["db"]}
            sents = []
            ok = True
            if style == "explicit":
                scols = [c_.name for c_ in imv.sentinel_columns]
                raw_by_tag = obs.get("raw_sentinels") or {}
                for p in obs["params"]:
                    if p["tag"] in raw_by_tag:
                        sents.append(skey(raw_by_tag[p["tag"]]))
                    else:
                        ok = False
                del scols, db_by_tag
            else:
                sents = [0] * n
            if ok:
                answers = []
                for ans in hub.answers:
                    rows = []
                    for r in ans:
                        src = tag_to_src.get(r[desc_tag], 999)
                        if style == "explicit":
                            key = skey(r[-nsc:])
                        elif style == "implicit":
                            key = r[-1]
                        else:
                            key = 0
                        rows.append("%d:%d" % (src, key))
                    answers.append(",".join(rows) or "_")
                if obs["exc"] is None:
                    idx = obs["keys"].index("tag")
                    impl = "ok " + fmt_ints([tag_to_src.get(r[idx], 999) for r in obs["rows"]])
                else:
                    impl = obs["exc"]
                out.append(("result", impl, "imv run2 %s %s %s %s" % (head, style, fmt_ints(sents), ";".join(answers) or "-")))
    return out


def _is_row_mode(batches, n, bits):
    return bool(batches) and all(len(b.batch) == 1 and b.total_batches == n and b.current_batch_size == 1 for b in batches) and (batches[0].is_downgraded or bits[0] == "1")


def _values_segment(stmt):
    i = stmt.index(" VALUES ") + 8
    ends = [stmt.find(k, i) for k in (" ON CONFLICT", " RETURNING")]
    ends = [e for e in ends if e >= 0]
    return stmt[i : min(ends)] if ends else stmt[i:]


def _tag_index(rec, obs):
    """position of the `tag` column in the raw RETURNING rows"""
    m = re.search(r" RETURNING (.*)$", rec["statement"], re.S)
    if not m:
        return None
    cols = [c.strip() for c in _split_top(m.group(1))]
    for i, c in enumerate(cols):
        if c in ("tag", "t.tag", '"tag"'):
            return i
    return None


def _split_top(s):
    out, depth, cur = [], 0, ""
    for ch in s:
        if ch == "(":
            depth += 1
        elif ch == ")":
            depth -= 1
        if ch == "," and depth == 0:
            out.append(cur)
            cur = ""
        else:
            cur += ch
    out.append(cur)
    return out


def attach_raw_sentinels(obs):
    """sentinel value of each parameter set as the database stores/echoes it (raw DBAPI
    value), read from the rows the cursor really returned (before any fault)"""
    hub = obs["hub"]
    if len(hub.imv) != 1:
        return
    rec = hub.imv[0]
    imv = rec["compiled"]._insertmanyvalues
    if not imv.num_sentinel_columns or imv.implicit_sentinel:
        return
    ti = _tag_index(rec, obs)
    if ti is None:
        return
    nsc = imv.num_sentinel_columns
    raw = {}
    # sentinel_values recorded per batch are the client-side values; the raw echo is what
    # an honest backend returns for that tag.  Use the true rows kept by the adversary.
    for rows in obs.get("true_answers", []):
        for r in rows:
            raw[r[ti]] = tuple(r[-nsc:])
    obs["raw_sentinels"] = raw


# ---------------------------------------------------------------------------- run
def explore(ctx, ncases, tier, collect=True):
    from harness.lib_dml import Canon

    names, cases, impl_out, reqs = [], [], [], []
    for _ in range(ncases):
        case = gen_case(ctx.rng, tier)
        one(ctx, case, names, cases, impl_out, reqs)
    return names, cases, impl_out, reqs


def one(ctx, case, names, cases, impl_out, reqs):
    from harness.lib_dml import Canon

    try:
        obs = observe(case)
    except Exception as e:  # noqa: BLE001 - the harness itself never raises on the unchanged tree
        import traceback

        ctx.case(("crash", case["seed"]))
        ctx.violation("c12-crash:" + type(e).__name__, case, "".join(traceback.format_exception_only(type(e), e))[:400])
        return None
    sig = {k: case[k] for k in case if k != "seed"}
    ctx.case((sig, case["seed"]), nontrivial=case["n"] > 1)
    ctx.count("shape=" + case["shape"])
    ctx.count("paramstyle=" + case["paramstyle"])
    ctx.count("ret=" + case["ret"])
    ctx.count("upsert=" + case["upsert"])
    ctx.count("values=" + case["values"])
    ctx.count("sort=%s" % case["sort"])
    ctx.count("outcome=" + (obs["exc"] or "ok"))
    if obs["faulted"]:
        ctx.count("fault=" + obs["faulted"])
    hub = obs["hub"]
    if len(hub.imv) == 1:
        b = hub.imv[0]["batches"]
        imv = hub.imv[0]["compiled"]._insertmanyvalues
        ctx.count("imv:batches=%s" % (len(b) if len(b) < 6 else "6+"))
        ctx.count("imv:mode=" + ("row" if b and b[0].is_downgraded else "batched-or-row0"))
        ctx.count("imv:style=" + ("none" if not imv.num_sentinel_columns else "implicit" if imv.implicit_sentinel else "explicit"))
    else:
        ctx.count("imv:not-used")
    why = oracle(obs)
    if why:
        key, detail = why
        ctx.violation(classify(case, obs) or key, case, detail)
    enc = Canon()
    for name, il, ml in corr_lines(obs, enc):
        names.append(name)
        cases.append(case)
        impl_out.append(il)
        reqs.append(ml)
    if len(hub.imv) == 1 and len(hub.imv[0]["batches"]) > 1:
        ctx.sample(
            {
                "case": {k: case[k] for k in ("shape", "paramstyle", "page", "maxp", "n", "sort", "ret", "upsert", "flag")},
                "batches": [len(b.batch) for b in hub.imv[0]["batches"]],
                "statement": hub.imv[0]["batches"][0].replaced_statement[:160],
                "returned_tags_in_param_order": obs["exc"] is None,
            }
        )
    return obs


def observe(case):
    """run_case + keep the honest rows per fetch (needed to canonicalise sentinels)"""
    import harness.lib_dml as L

    true_answers = []
    orig_make = make_adversary

    def wrapped_make(case_, hub, state):
        adv = orig_make(case_, hub, state)

        def a2(stmt, rows):
            true_answers.append(list(rows))
            return adv(stmt, rows)

        return a2

    g = globals()
    g["make_adversary"] = wrapped_make
    try:
        obs = run_case(case)
    finally:
        g["make_adversary"] = orig_make
    obs["true_answers"] = true_answers
    attach_raw_sentinels(obs)
    del L
    return obs


def classify(case, obs):
    """known-finding keys are computed from the input, never from the property alone"""
    if case.get("values") == "cte" and obs["exc"] is not None and len(obs["hub"].imv) == 1:
        # F19: the bind inside the CTE is accumulated as if it were a VALUES parameter
        return "values-subquery-references-cte-with-bind"
    return None


KNOWN_PROBE = {"probe": "sentinel-pk-omitted"}


def probe_known(ctx):
    """F18: sentinel primary key column (no default, user-populated) omitted from the
    parameters on a dialect without implicit-sentinel support"""
    why = probe_sentinel_pk_omitted()
    ctx.case("probe:sentinel-pk-omitted")
    if why:
        key = "sentinel-pk-omitted-assertion" if why.startswith("AssertionError") else "c12-probe-sentinel-pk-omitted:" + why.split(" ")[0]
        ctx.violation(key, KNOWN_PROBE, why)


def probe_sentinel_pk_omitted():
    import warnings

    from sqlalchemy import Column, Integer, MetaData, String, Table, insert

    from harness.lib_dml import make_engine

    eng, hub = make_engine()
    m = MetaData()
    t = Table("t", m, Column("id", String, primary_key=True), Column("x", Integer))
    with eng.begin() as c:
        c.exec_driver_sql("create table t (id varchar primary key, x integer)")
    try:
        with warnings.catch_warnings():
            warnings.simplefilter("ignore")
            with eng.begin() as c:
                rows = c.execute(insert(t).returning(t.c.x, sort_by_parameter_order=True), [{"x": i} for i in range(4)]).all()
        if [r[0] for r in rows] != [0, 1, 2, 3]:
            return "rows %s" % rows
        return None
    except AssertionError as e:
        return "AssertionError %s (sentinel column selected, not in parameters, dialect has no implicit sentinel: neither sorted nor downgraded)" % (e,)
    except Exception as e:  # noqa: BLE001
        return "%s %s" % (type(e).__name__, str(e)[:200])
    finally:
        eng.dispose()



# ---------------------------------------------------------------------------- ORM flush under the shuffling cursor
def gen_orm_case(rng):
    return {
        "orm": True,
        "version": rng.choice(["none", "client", "client", "server"]),
        "eager_defaults": rng.choice([True, False, "auto"]),
        "server_default": rng.random() < 0.6,
        "flag": rng.choice(["sqlite", "implicit"]),
        "n": rng.choice([2, 3, 5, 8]),
        "page": rng.choice([None, 1, 2, 3]),
        "pk": rng.choice(["autoinc", "autoinc", "client"]),
        "seed": rng.randrange(1 << 30),
    }


def run_orm_case(case):
    """flush several pending objects at once; afterwards every object must carry the primary
    key, version and server defaults of the row that holds ITS data"""
    import sqlalchemy as sa
    from sqlalchemy import Column, Integer, MetaData, Table, text
    from sqlalchemy.orm import Session, registry
    from sqlalchemy.sql.compiler import InsertmanyvaluesSentinelOpts

    from harness.lib_dml import make_engine

    rng = random.Random(case["seed"])
    kw = {}
    if case["page"]:
        kw["insertmanyvalues_page_size"] = case["page"]
    eng, hub = make_engine("qmark", **kw)
    if case["flag"] == "implicit":
        eng.dialect.insertmanyvalues_implicit_sentinel = InsertmanyvaluesSentinelOpts.AUTOINCREMENT
    m = MetaData()
    counter = [0]

    def pkgen():
        counter[0] += 1
        return 1000 - 13 * counter[0]  # decreasing: not the insertion order

    cols = [
        Column("id", Integer, primary_key=True, **({"default": pkgen} if case["pk"] == "client" else {})),
        Column("tag", Integer, nullable=False, unique=True),
        Column("x", Integer),
        Column("ver", Integer, nullable=False, **({"server_default": text("1")} if case["version"] == "server" else ({} if case["version"] == "client" else {"server_default": text("0")}))),
    ]
    if case["server_default"]:
        cols.append(Column("sd", Integer, server_default=text("11")))
    t = Table("t", m, *cols)
    m.create_all(eng)
    reg = registry()

    class Obj:
        pass

    margs = {"eager_defaults": case["eager_defaults"]}
    if case["version"] == "client":
        margs["version_id_col"] = t.c.ver
    elif case["version"] == "server":
        margs["version_id_col"] = t.c.ver
        margs["version_id_generator"] = False
    reg.map_imperatively(Obj, t, **margs)
    state = {"fetches": 0}
    shuf = random.Random(case["seed"] ^ 0x77)

    def adversary(stmt, rows):
        rows = list(rows)
        shuf.shuffle(rows)
        return rows

    hub.adversary = adversary
    tags = rng.sample(range(100, 100 + 5 * case["n"]), case["n"])
    bad = None
    try:
        with Session(eng) as s:
            objs = []
            for i, tg in enumerate(tags):
                o = Obj()
                o.tag = tg
                o.x = 10 * i
                objs.append(o)
            s.add_all(objs)
            s.flush()
            seen = [(o.tag, o.id, o.ver, (o.sd if case["server_default"] else None)) for o in objs]
            s.commit()
        hub.adversary = None
        with eng.connect() as c:
            rows = {r.tag: r for r in c.execute(sa.select(t))}
        if sorted(rows) != sorted(tags):
            bad = ("c12-orm-rowset", "tags stored %s, objects %s" % (sorted(rows), sorted(tags)))
        else:
            for tg, oid, over, osd in seen:
                r = rows[tg]
                if r.id != oid:
                    bad = ("c12-orm-object-has-other-rows-primary-key", "object tag=%s got id %s, its row has id %s (all: %s)" % (tg, oid, r.id, seen))
                    break
                if over != r.ver:
                    bad = ("c12-orm-object-version-mismatch", "object tag=%s version %s, row version %s" % (tg, over, r.ver))
                    break
                if case["server_default"] and osd != r.sd:
                    bad = ("c12-orm-object-server-default-mismatch", "object tag=%s sd %s, row sd %s" % (tg, osd, r.sd))
                    break
    except Exception as e:  # noqa: BLE001
        bad = ("c12-orm-exception:" + type(e).__name__, str(e)[:300])
    finally:
        reg.dispose()
        eng.dispose()
    return bad, [len(b.batch) for rec in hub.imv for b in rec["batches"]]


def orm_flush_cases(ctx, n):
    for _ in range(n):
        case = gen_orm_case(ctx.rng)
        bad, sizes = run_orm_case(case)
        ctx.case(("orm", tuple(sorted((k, str(v)) for k, v in case.items()))), nontrivial=True)
        ctx.count("orm:version=%s" % case["version"])
        ctx.count("orm:eager_defaults=%s" % case["eager_defaults"])
        ctx.count("orm:batched=%s" % (any(x > 1 for x in sizes)))
        if bad:
            ctx.violation(bad[0], case, bad[1])


def run(ctx):
    ctx.rule = (
        "random cases over sentinel configuration (8 table shapes) x dialect sentinel flag (SQLite's, MariaDB's) x paramstyle "
        "(qmark/numeric/numeric_dollar/named) x page size (1..n+1, default) x max-parameter limit x row count x RETURNING form "
        "x VALUES form (plain / expression with binds / CTE bind left of VALUES) x upsert clause x omitted default columns x "
        "pre-existing rows; every INSERT..RETURNING result is shuffled by the cursor; 8% of cases inject one backend fault; "
        "non-trivial = more than one parameter set; distinct = distinct (case, seed)"
    )
    ctx.trusted.append("SQLite 3 as the executing backend; its RETURNING rows are re-ordered by the harness cursor")
    ctx.trusted.append("statement text rewriting is validated only by execution + numeric placeholder comparison, not modelled")
    ctx.assumptions.append("implicit-sentinel path: dialect instance flag set to MariaDB's value on SQLite (SQLite assigns rowids in VALUES order)")
    ncases = 700 if ctx.tier == "quick" else 9000
    names, cases, impl_out, reqs = explore(ctx, ncases, ctx.tier)
    nonsqlite_plans(ctx, names, cases, impl_out, reqs)
    probe_known(ctx)
    orm_flush_cases(ctx, 150 if ctx.tier == "quick" else 2000)
    if ctx.driver_ok():
        model = ctx.driver(reqs)
        for nm in sorted(set(names)):
            idx = [i for i, x in enumerate(names) if x == nm]
            ctx.correspond("corr/c12:%s" % nm, [cases[i] for i in idx], [impl_out[i] for i in idx], [model[i] for i in idx])


def nonsqlite_plans(ctx, names, cases, impl_out, reqs):
    """PostgreSQL / MySQL / MSSQL: compile with the real dialect and call the real
    SQLCompiler._deliver_insertmanyvalues_batches directly; compare the batch plan and the
    rewritten parameters with the model (nothing executes)."""
    from sqlalchemy import Column, Integer, MetaData, String, Table, insert
    from sqlalchemy.dialects import mssql, mysql, postgresql

    from harness.lib_dml import Canon

    rng = ctx.rng
    k = 60 if ctx.tier == "quick" else 600
    for _ in range(k):
        dname, d = rng.choice(
            [
                ("postgresql+psycopg2", postgresql.psycopg2.dialect()),
                ("postgresql+asyncpg", postgresql.asyncpg.dialect()),
                ("mysql+pymysql", mysql.pymysql.dialect()),
                ("mssql+pyodbc", mssql.pyodbc.dialect()),
            ]
        )
        if dname.startswith("mysql"):
            d.insert_returning = True  # as MariaDB >= 10.5 sets it after connecting
        shape = rng.choice(["autoinc", "strpk", "pksupplied"])
        m = MetaData()
        if shape == "autoinc":
            pk = Column("id", Integer, primary_key=True)
        elif shape == "strpk":
            pk = Column("id", String(8), primary_key=True, default=lambda: "k")
        else:
            pk = Column("id", Integer, primary_key=True, autoincrement=False)
        t = Table("t", m, pk, Column("tag", Integer), Column("x", Integer), Column("y", Integer, default=5))
        n = rng.choice([2, 3, 5, 8, 13])
        sort = rng.random() < 0.7
        page = rng.choice([1, 2, 3, 5, 1000])
        stmt = insert(t).returning(t.c.id, t.c.tag, sort_by_parameter_order=sort)
        keys = ["tag", "x"] + (["id"] if shape == "pksupplied" else [])
        case = {"nonsqlite": dname, "shape": shape, "n": n, "sort": sort, "page": page}
        try:
            compiled = stmt.compile(dialect=d, column_keys=keys, for_executemany=True)
        except Exception as e:  # noqa: BLE001
            ctx.count("plan:%s:compile-error:%s" % (dname, type(e).__name__))
            continue
        imv = compiled._insertmanyvalues
        if imv is None:
            ctx.count("plan:%s:no-imv" % dname)
            continue
        cps = []
        for i in range(n):
            p = {"tag": 100 + i, "x": rng.randrange(50)}
            if shape == "pksupplied":
                p["id"] = 1000 - 7 * i
            cp = compiled.construct_params(p)
            for c_ in compiled.insert_prefetch:
                cp[c_.key] = "k%d" % i if c_.key == "id" else 5
            cps.append(cp)
        if compiled.positional:
            dbparams = [tuple(cp[k_] for k_ in compiled.positiontup) for cp in cps]
        else:
            dbparams = [dict(cp) for cp in cps]
        try:
            batches = list(compiled._deliver_insertmanyvalues_batches(compiled.string, dbparams, cps, None, page, sort, None))
        except Exception as e:  # noqa: BLE001
            ctx.violation("c12-plan-exception:%s:%s" % (dname, type(e).__name__), case, "%s: %s" % (type(e).__name__, str(e)[:200]))
            continue
        ctx.case(("plan", dname, shape, n, sort, page))
        ctx.count("plan:%s" % dname)
        ctx.count("plan:embed_values_counter=%s" % imv.embed_values_counter)
        bits = "".join(
            "1" if b else "0"
            for b in (
                imv.is_default_expr,
                d.supports_default_metavalue,
                d.supports_multivalues_insert,
                sort,
                bool(compiled._result_columns),
                imv.sentinel_columns is not None,
                imv.includes_upsert_behaviors,
                imv.embed_values_counter,
                imv.has_upsert_bound_parameters,
            )
        )
        head = "%s %d %d %d %d" % (bits, page, d.insertmanyvalues_max_parameters or 0, len(compiled.bind_names), len(imv.insert_crud_params))
        impl_plan = "ok " + (";".join("%d/%d/%d/%d/%d" % (len(b.batch), b.current_batch_size, b.batchnum, b.total_batches, int(b.is_downgraded)) for b in batches) or "-")
        names.append("plan-nonsqlite")
        cases.append(case)
        impl_out.append(impl_plan)
        reqs.append("imv plan2 %s %d" % (head, n))
        # the property on the plan itself: every parameter set once, in order
        flat = [p for b in batches for p in b.batch]
        if flat != dbparams:
            ctx.violation("c12-plan-not-a-partition:" + dname, case, "batches do not concatenate to the parameter list")
        # sentinel values line up with the parameter sets of their batch
        if imv.sentinel_param_keys:
            want = [tuple(cp[k_] for k_ in imv.sentinel_param_keys) for cp in cps]
            got = [tuple(s) if isinstance(s, tuple) else (s,) for b in batches for s in b.sentinel_values]
            if got != want:
                ctx.violation("c12-plan-sentinel-values:" + dname, case, "sentinel_values %s for parameter sentinels %s" % (got, want))
        # INSERT..SELECT..VALUES form: each VALUES group carries its position as sen_counter
        if imv.embed_values_counter:
            for b in batches:
                seg = _values_segment_generic(b.replaced_statement)
                counters = [int(x) for x in re.findall(r", (\d+)\)", seg)]
                if "_IMV_VALUES_COUNTER" in b.replaced_statement or counters != list(range(len(b.batch))):
                    ctx.violation("c12-plan-values-counter:" + dname, case, "counters %s for a batch of %d in %s" % (counters, len(b.batch), b.replaced_statement[:300]))
                if "ORDER BY sen_counter" not in b.replaced_statement:
                    ctx.violation("c12-plan-values-counter-order:" + dname, case, b.replaced_statement[:300])
        enc = Canon()
        canon = lambda v: enc((type(v).__name__, repr(v)))  # noqa: E731
        row_mode = _is_row_mode(batches, n, bits)
        if row_mode:
            continue
        if compiled.positional:
            namesx = set()
            for elem in imv.insert_crud_params:
                namesx.update(elem[3])
            flags = "".join("1" if nm in namesx else "0" for nm in compiled.positiontup) or "-"
            for b in batches:
                rows = ";".join(fmt_ints([canon(v) for v in p]) if len(p) else "_" for p in b.batch)
                names.append("positional-nonsqlite")
                cases.append(case)
                impl_out.append("ok " + fmt_ints([canon(v) for v in b.replaced_parameters]))
                reqs.append("imv pos2 %d %s %s" % (imv.num_positional_params_counted, flags, rows))
                if compiled._numeric_binds and imv.num_positional_params_counted > 0:
                    ch = re.escape(compiled._numeric_binds_identifier_char)
                    seg = _values_segment_generic(b.replaced_statement)
                    nums = [int(x) for x in re.findall(ch + r"(\d+)", seg)]
                    names.append("numeric-nonsqlite")
                    cases.append(case)
                    impl_out.append("ok " + fmt_ints(nums))
                    reqs.append("imv npos2 %d %s %d" % (imv.num_positional_params_counted, flags, b.current_batch_size))
        else:
            from harness.vlib import enc_str

            crud = []
            for elem in imv.insert_crud_params:
                for nm in elem[3]:
                    nm = (compiled.escaped_bind_names or {}).get(nm, nm)
                    if nm not in crud:
                        crud.append(nm)
            p0 = dbparams[0]
            allkeys = list(p0)
            for b in batches:
                base = ",".join("%s=%d" % (enc_str(k_), canon(p0[k_])) for k_ in allkeys if k_ not in crud) or "_"
                bt = ";".join(",".join("%s=%d" % (enc_str(k_), canon(p[k_])) for k_ in p) or "_" for p in b.batch)
                names.append("named-nonsqlite")
                cases.append(case)
                impl_out.append("ok " + (",".join(sorted("%s=%d" % (enc_str(k_), canon(v)) for k_, v in b.replaced_parameters.items())) or "-"))
                reqs.append("imv named2 %s %s %s %s" % (",".join(enc_str(k_) for k_ in allkeys) or "-", ",".join(enc_str(k_) for k_ in crud) or "-", base, bt))
            # every VALUES group of the statement names its own row's parameters
            for b in batches:
                for i in range(len(b.batch)):
                    for k_ in crud:
                        if ("%(" + k_ + "__" + str(i) + ")s") not in b.replaced_statement and (":" + k_ + "__" + str(i)) not in b.replaced_statement:
                            ctx.violation("c12-plan-named-placeholder-missing:" + dname, case, "placeholder for %s row %d missing in %s" % (k_, i, b.replaced_statement[:200]))


def _values_segment_generic(stmt):
    i = stmt.find("VALUES ")
    j = stmt.find(" RETURNING", i)
    k = stmt.find(") AS imp_sen", i)
    ends = [e for e in (j, k) if e >= 0]
    return stmt[i : min(ends)] if ends else stmt[i:]


def search(ctx, broken):
    """an obligation broke and the normal run saw no oracle violation: bigger budget"""
    sub = type(ctx)(ctx.pid, "thorough", ctx.seed + 1, ctx.level)
    names, cases, impl_out, reqs = explore(sub, 4000, "thorough")
    # also re-run the disagreeing cases themselves
    for dis in ctx.disagreements[:30]:
        c = dis.get("case")
        if isinstance(c, dict) and "shape" in c and "seed" in c:
            why = oracle(observe(c))
            if why:
                sub.violation(why[0], c, why[1])
    ctx.violations.extend(sub.violations)


def replay(ctx, obj):
    case = obj["case"]
    if isinstance(case, dict) and case.get("orm"):
        bad, _ = run_orm_case(case)
        print("replay C12 ORM flush %s -> %s" % (case, bad))
        return bool(bad)
    if obj.get("key", "").startswith("c12-crash"):
        try:
            observe(case)
        except Exception as e:  # noqa: BLE001
            print("replay C12 case=%s still crashes: %r" % (case, e))
            return True
        return False
    if case == KNOWN_PROBE or case.get("probe"):
        why = probe_sentinel_pk_omitted()
        print("replay C12 probe sentinel-pk-omitted -> %s" % why)
        return why is not None
    if "nonsqlite" in case:
        print("replay C12: non-SQLite plan case %s; re-run ./check C12 to re-evaluate" % case)
        sub = type(ctx)(ctx.pid, "quick", ctx.seed, ctx.level)
        nonsqlite_plans(sub, [], [], [], [])
        return bool(sub.violations)
    obs = observe(case)
    why = oracle(obs)
    print("replay C12 case=%s\n  exc=%s rows=%s\n  oracle: %s" % (case, obs["exc"], obs["rows"], why))
    return why is not None
