"""C03 — statement objects are immutable values; compilation is deterministic.

Model      lean/SaVerif/Model/Generative.lean (shallow copy + rebind vs mutate)
Theorems   lean/SaVerif/Props/C03.lean
Translator lean/SaVerif/Gen/GenerativeTables.lean: every @_generative method of
           sql/*.py and orm/query.py (ast) with the in-place mutations of `self.<attr>`
           its body performs; baseline harness/c03_baseline.json
run():     random chains and TREES of generative calls on Core statements (select,
           compound, insert, update, delete) and ORM selects; every statement created
           along the way is compiled at birth on six dialects; after the whole tree is
           built — and after copy.copy, _clone(), cloned_traverse, pickle round trip,
           repeated compilation, cache-key generation — every ancestor is compiled again
           and must give the same SQL string and parameters
"""
import ast
import json
import os

PID = "C03"
LEVEL = "translation_validation"
LEAN = ["SaVerif.Props.C03"]
META = {
    "text": "Differential validation on the real code: random chains and branching trees (length <=12 quick, <=40 thorough) of generative calls (where/having/group_by/order_by/limit/offset/distinct/add_columns/with_only_columns/join/outerjoin/select_from/correlate/prefix_with/suffix_with/with_for_update/with_hint/execution_options/options/filter_by/params/union/cte/subquery, values/returning/inline/from_select/on_conflict/ordered_values) over Core select / union / intersect / except / nested compound (set_label_style, order_by by label name, limit, subquery observer) / insert / update / delete, ORM select and the legacy session.query() API (add_entity, add_columns, with_entities, join, filter, ...); every statement is compiled at birth for six dialects and again after the whole tree exists, after copy.copy, _clone, cloned_traverse, pickle and repeated compilation; SQL strings, parameters and cache keys must be unchanged. Lean: in the shallow-copy model of Generative._generate any chain of rebinding generative calls leaves every ancestor observably unchanged (generative_preserves_ancestors, induction over the chain; mutate_counterexample), plus regenerated-table obligations that no method which is @_generative or rebinds self = self._generate() (every class of sql/*.py, orm/*.py, dialect dml) performs an UNGUARDED in-place operation (mutator call, item/slice store, +=) on an attribute of self — guarded = the method first assigns a fresh value to that attribute — and that _generate copies __dict__.",
    "note": "Level translation_validation: the theorem is about the copy discipline, not about each method; the per-method tie is the syntactic table (ast: calls of append/extend/add/update/… and subscript stores on self.<attr> inside @_generative bodies, baseline reviewed on the unchanged tree) and the differential. Pickle round trip only for statements without lambdas/ORM options.",
    "technique": "differential testing of ancestor stability over random generative trees on six dialects + regenerated no-in-place-mutation table decided in Lean + shallow-copy model theorem",
    "design_ref": "DESIGN.md §3 C03",
}

KEY_PICKLE_CMP = "pickle-after-comparator-memoized"
KEY_CLONE_LC = "clone-of-statement-with-loader-criteria-option"
BASELINE = os.path.join(os.path.dirname(os.path.dirname(os.path.abspath(__file__))), "c03_baseline.json")
MUTATORS = {"append", "extend", "add", "update", "insert", "remove", "pop", "clear", "setdefault", "sort", "reverse", "discard", "popitem", "difference_update", "intersection_update"}
FILES = ["sql/selectable.py", "sql/dml.py", "sql/elements.py", "sql/base.py", "sql/functions.py", "sql/lambdas.py", "orm/query.py", "dialects/sqlite/dml.py", "dialects/postgresql/dml.py", "dialects/mysql/dml.py"]


# --------------------------------------------------------------------------- translator
def _scan_files():
    from harness import vlib

    root = os.path.join(vlib.REPO, "lib", "sqlalchemy")
    out = []
    for sub in ("sql", "orm"):
        d = os.path.join(root, sub)
        for fn in sorted(os.listdir(d)):
            if fn.endswith(".py"):
                out.append(sub + "/" + fn)
    for rel in FILES:
        if rel not in out and os.path.exists(os.path.join(root, rel)):
            out.append(rel)
    return out


def scan_generative():
    """every method that is decorated @_generative OR rebinds `self = self._generate()`:
    in-place operations on an attribute of self (mutator call, subscript store/delete,
    augmented assignment) are recorded; an operation is `guarded` when the same method
    assigns a fresh value to that attribute on an earlier line (defensive copy), else
    `UNGUARDED`.  Only UNGUARDED rows and += rows are compared with the baseline."""
    from harness import vlib

    rows, n_methods, copies = [], 0, False
    for rel in _scan_files():
        fn = os.path.join(vlib.REPO, "lib", "sqlalchemy", rel)
        try:
            tree = ast.parse(open(fn).read())
        except Exception:
            continue
        for cls in [n for n in ast.walk(tree) if isinstance(n, ast.ClassDef)]:
            for f in cls.body:
                if not isinstance(f, ast.FunctionDef) or not f.args.args:
                    continue
                if rel == "sql/base.py" and cls.name == "Generative" and f.name == "_generate":
                    src = ast.unparse(f)
                    copies = "__dict__.copy()" in src and "cls.__new__(cls)" in src
                selfname = f.args.args[0].arg
                decos = [ast.unparse(d) for d in f.decorator_list]
                is_gen = any(d.split("(")[0].endswith("_generative") for d in decos)
                if not is_gen:
                    for sub in ast.walk(f):
                        if (
                            isinstance(sub, ast.Assign)
                            and len(sub.targets) == 1
                            and isinstance(sub.targets[0], ast.Name)
                            and sub.targets[0].id == selfname
                            and isinstance(sub.value, ast.Call)
                            and isinstance(sub.value.func, ast.Attribute)
                            and sub.value.func.attr == "_generate"
                        ):
                            is_gen = True
                            break
                if not is_gen:
                    continue
                n_methods += 1

                def is_self_attr(node):
                    return isinstance(node, ast.Attribute) and isinstance(node.value, ast.Name) and node.value.id == selfname

                # guards: `self.attr = <fresh>` as an UNCONDITIONAL top-level statement of the body
                assigned = {}
                alias = {}  # local name -> attr it aliases (x = self.attr / self.attr = x = ...)
                for stmt_ in f.body:
                    if isinstance(stmt_, ast.Assign):
                        attrs = [el.attr for tg in stmt_.targets for el in (tg.elts if isinstance(tg, ast.Tuple) else [tg]) if is_self_attr(el)]
                        for at in attrs:
                            assigned[at] = min(assigned.get(at, 10 ** 9), stmt_.lineno)
                for sub in ast.walk(f):
                    if isinstance(sub, ast.Assign):
                        names = [tg.id for tg in sub.targets if isinstance(tg, ast.Name)]
                        attrs = [tg.attr for tg in sub.targets if is_self_attr(tg)]
                        if names and attrs:
                            for nm in names:
                                alias[nm] = attrs[0]
                        elif names and is_self_attr(sub.value):
                            for nm in names:
                                alias[nm] = sub.value.attr

                def guard(attr, line):
                    return "guarded" if assigned.get(attr, 10 ** 9) < line else "UNGUARDED"

                def target_attr(node):
                    """self.attr or a local alias of it -> attr name"""
                    if is_self_attr(node):
                        return node.attr
                    if isinstance(node, ast.Name) and node.id in alias:
                        return alias[node.id]
                    return None

                where = "%s:%s.%s" % (rel, cls.name, f.name)
                for sub in ast.walk(f):
                    if isinstance(sub, ast.Call) and isinstance(sub.func, ast.Attribute) and sub.func.attr in MUTATORS:
                        at = target_attr(sub.func.value)
                        if at is not None:
                            rows.append("%s:%s.%s:%s" % (where, at, sub.func.attr, guard(at, sub.lineno)))
                    if isinstance(sub, (ast.Assign, ast.AugAssign, ast.Delete)):
                        targets = sub.targets if isinstance(sub, (ast.Assign, ast.Delete)) else [sub.target]
                        for tg in targets:
                            if isinstance(tg, ast.Subscript):
                                at = target_attr(tg.value)
                                if at is not None:
                                    rows.append("%s:%s[]:%s" % (where, at, guard(at, sub.lineno)))
                    if isinstance(sub, ast.AugAssign) and is_self_attr(sub.target):
                        rows.append("%s:%s+=:%s" % (where, sub.target.attr, guard(sub.target.attr, sub.lineno)))
    rows = sorted(set(r for r in rows if not r.endswith(":guarded")))
    return rows, n_methods, copies


def gen(ctx):
    rows, n, copies = scan_generative()
    if os.path.exists(BASELINE):
        base = json.load(open(BASELINE))
    else:
        base = rows
        json.dump(base, open(BASELINE, "w"), indent=1)

    def lst(xs):
        return "[" + ", ".join('"%s"' % x for x in xs) + "]"

    src = "namespace SaVerif.Gen.GenerativeTables\n\n/-- in-place mutations of self.<attr> inside @_generative methods (%d methods scanned) -/\ndef inplace : List String := %s\n\n/-- reviewed baseline -/\ndef baseline : List String := %s\n\n/-- Generative._generate builds a new object and copies __dict__ -/\ndef generateCopies : Bool := %s\n\nend SaVerif.Gen.GenerativeTables\n" % (
        n,
        lst(rows),
        lst(base),
        "true" if copies else "false",
    )
    ctx.write_gen("GenerativeTables", src)


# --------------------------------------------------------------------------- statements and operations
class Env:
    def __init__(self):
        import sqlalchemy as sa
        from harness import lib_binds as lb
        from harness import lib_feat as lf

        self.sa = sa
        self.fx = lb.Fixture()
        self.T, self.U = self.fx.mapped()
        self.dialects = {n: lf.get_dialect(n) for n in lf.DIALECTS}
        self.dialects["default"] = sa.engine.default.DefaultDialect()
        from sqlalchemy.orm import Session

        self.session = Session()
        # building blocks SHARED by every tree of the run (templates people keep at module level)
        t = self.fx.t
        self.shared = {
            "text_tpl": sa.text("select id, x from t where x > :lo and y < :hi").bindparams(lo=0, hi=100),
            "text_frag": sa.text("t.x > :tx and t.y < :ty").bindparams(tx=1, ty=9999),
            "base_select": sa.select(t.c.id, t.c.x).where(t.c.y == sa.bindparam("by", 7)),
            "crit": sa.and_(t.c.x > sa.bindparam("cx", 3), t.c.y < 5000),
        }


SELECT_OPS = ["where_shared_text", "where_shared_text", "where_shared_crit", "params_shared", "where", "where_in", "where_bind", "having", "group_by", "order_by", "order_desc", "limit", "offset", "distinct", "add_columns", "with_only_columns", "join", "outerjoin", "select_from", "correlate", "prefix_with", "suffix_with", "with_for_update", "with_hint", "execution_options", "filter_by", "params", "label_col", "where_exists", "reduce_columns", "where_text", "order_by_none", "group_by_none", "with_statement_hint", "fetch", "slice", "where_or"]
COMPOUND_OPS = ["order_by", "limit", "offset", "execution_options", "order_by_none"]
INSERT_OPS = ["values", "values_more", "returning", "prefix_with", "inline", "execution_options", "return_defaults"]
UPDATE_OPS = ["where", "values", "values_more", "returning", "prefix_with", "execution_options", "where_in", "with_hint", "ordered"]
DELETE_OPS = ["where", "returning", "prefix_with", "execution_options", "where_in", "with_hint"]
TEXT_OPS = ["bind_kw_lo", "bind_kw_hi", "bind_kw_both", "bind_pos_lo", "bind_pos_typed", "execution_options", "bind_kw_lo"]
QUERY_OPS = ["filter", "filter_by", "order_by", "limit", "offset", "distinct", "add_entity", "add_columns", "with_entities", "join_rel", "outerjoin_rel", "group_by", "having", "options_selectin", "add_entity_alias", "where", "execution_options", "select_from", "enable_assertions", "params", "filter_bind", "slice", "reset_order"]
COMPOUND_OPS2 = ["order_by", "order_by_str", "limit", "offset", "execution_options", "order_by_none", "label_none", "label_tablename", "label_disambiguate", "fetch", "slice", "order_desc_str"]
ORM_OPS = ["where", "where_in", "order_by", "limit", "offset", "distinct", "join_rel", "options_selectin", "options_joined", "options_load_only", "options_criteria", "filter_by", "execution_options", "group_by", "with_only_columns_orm", "where_bind", "params"]


def base_stmt(env, kind):
    sa, t, u = env.sa, env.fx.t, env.fx.u
    if kind == "select":
        return sa.select(t.c.id, t.c.x)
    if kind == "select_join":
        return sa.select(t.c.id, u.c.v).join_from(t, u, u.c.tid == t.c.id)
    if kind == "compound":
        return sa.union_all(sa.select(t.c.id, t.c.x).where(t.c.x > 5), sa.select(u.c.id, u.c.v))
    if kind == "compound_union":
        return sa.union(sa.select(t.c.id, t.c.x).where(t.c.x > 5), sa.select(u.c.id, u.c.v), sa.select(t.c.y, t.c.id))
    if kind == "compound_intersect":
        return sa.intersect(sa.select(t.c.id, t.c.x), sa.select(u.c.tid, u.c.v))
    if kind == "compound_except":
        return sa.except_(sa.select(t.c.id, t.c.x), sa.select(u.c.tid, u.c.v).where(u.c.v > 7))
    if kind == "compound_nested":
        return sa.union_all(sa.select(t.c.id, t.c.x), sa.intersect(sa.select(u.c.id, u.c.v), sa.select(t.c.id, t.c.y)))
    if kind == "text":
        return env.shared["text_tpl"]
    if kind == "shared_select":
        return env.shared["base_select"]
    if kind == "query":
        return env.session.query(env.T)
    if kind == "query_cols":
        return env.session.query(env.T.id, env.T.x)
    if kind == "insert":
        return sa.insert(t)
    if kind == "update":
        return sa.update(t)
    if kind == "delete":
        return sa.delete(t)
    if kind == "orm":
        return sa.select(env.T)
    if kind == "orm_cols":
        return sa.select(env.T.id, env.T.x)
    raise ValueError(kind)


def ops_for(kind):
    if kind.startswith("compound"):
        return COMPOUND_OPS2
    if kind == "text":
        return TEXT_OPS
    if kind == "shared_select":
        return SELECT_OPS
    if kind.startswith("query"):
        return QUERY_OPS
    return {"select": SELECT_OPS, "select_join": SELECT_OPS, "compound": COMPOUND_OPS, "insert": INSERT_OPS, "update": UPDATE_OPS, "delete": DELETE_OPS, "orm": ORM_OPS, "orm_cols": ORM_OPS}[kind]


def apply_op(env, kind, st, op, a):
    """apply generative operation `op` with integer argument `a`; returns new statement"""
    sa, t, u = env.sa, env.fx.t, env.fx.u
    from sqlalchemy import orm

    T, U = env.T, env.U
    col = [t.c.x, t.c.y, t.c.id, t.c.s][a % 4]
    if kind == "text":
        if op == "bind_kw_lo":
            return st.bindparams(lo=a)
        if op == "bind_kw_hi":
            return st.bindparams(hi=a)
        if op == "bind_kw_both":
            return st.bindparams(lo=a, hi=a + 50)
        if op == "bind_pos_lo":
            return st.bindparams(sa.bindparam("lo", a))
        if op == "bind_pos_typed":
            return st.bindparams(sa.bindparam("hi", a, type_=sa.Integer()))
        if op == "columns":
            return st.columns(sa.column("id", sa.Integer), sa.column("x", sa.Integer))
        if op == "execution_options":
            return st.execution_options(**{"k%d" % (a % 2): a})
    if op == "where_shared_text":
        return st.where(env.shared["text_frag"].bindparams(tx=a) if a % 2 else env.shared["text_frag"].bindparams(ty=a))
    if op == "where_shared_crit":
        return st.where(env.shared["crit"])
    if op == "params_shared":
        return st.params(cx=a, by=a + 1)
    if kind.startswith("compound"):
        if op == "order_by_str":
            return st.order_by("x" if a % 2 else "id")
        if op == "order_desc_str":
            return st.order_by(sa.desc("x"))
        if op == "label_none":
            return st.set_label_style(sa.LABEL_STYLE_NONE)
        if op == "label_tablename":
            return st.set_label_style(sa.LABEL_STYLE_TABLENAME_PLUS_COL)
        if op == "label_disambiguate":
            return st.set_label_style(sa.LABEL_STYLE_DISAMBIGUATE_ONLY)
        if op == "order_by":
            return st.order_by(sa.text(str(1 + a % 2)))
    if kind.startswith("query"):
        ecol = [T.x, T.y, T.id][a % 3]
        if op in ("filter", "where"):
            return st.filter(ecol > a) if op == "filter" else st.where(ecol < a)
        if op == "filter_bind":
            return st.filter(T.y == sa.bindparam("qb%d" % (a % 3), a))
        if op == "params":
            return st.params(**{"qb%d" % (a % 3): a})
        if op == "filter_by":
            return st.filter_by(x=a)
        if op == "order_by":
            return st.order_by(ecol)
        if op == "reset_order":
            return st.order_by(None)
        if op == "limit":
            return st.limit(a % 7)
        if op == "offset":
            return st.offset(a % 5)
        if op == "slice":
            return st.slice(a % 3, a % 3 + 4)
        if op == "distinct":
            return st.distinct()
        if op == "add_entity":
            return st.add_entity(U)
        if op == "add_entity_alias":
            return st.add_entity(orm.aliased(U, name="ua%d" % (a % 2)))
        if op == "add_columns":
            return st.add_columns((T.x + a).label("qc%d" % (a % 3)))
        if op == "with_entities":
            return st.with_entities(T.id, ecol)
        if op == "join_rel":
            return st.join(T.us)
        if op == "outerjoin_rel":
            return st.outerjoin(T.us)
        if op == "group_by":
            return st.group_by(ecol)
        if op == "having":
            return st.having(sa.func.count(T.id) > a % 5)
        if op == "options_selectin":
            return st.options(orm.selectinload(T.us))
        if op == "execution_options":
            return st.execution_options(**{"k%d" % (a % 2): a})
        if op == "select_from":
            return st.select_from(T)
        if op == "enable_assertions":
            return st.enable_assertions(bool(a % 2))
        raise ValueError(op)
    if kind in ("orm", "orm_cols"):
        ecol = [T.x, T.y, T.id][a % 3]
        if op == "where":
            return st.where(ecol > a)
        if op == "where_in":
            return st.where(T.x.in_([a, a + 1, a + 2][: 1 + a % 3]))
        if op == "where_bind":
            return st.where(T.y == sa.bindparam("ob%d" % (a % 3), a))
        if op == "params":
            return st.params(**{"ob%d" % (a % 3): a})
        if op == "order_by":
            return st.order_by(ecol)
        if op == "limit":
            return st.limit(a % 7)
        if op == "offset":
            return st.offset(a % 5)
        if op == "distinct":
            return st.distinct()
        if op == "join_rel":
            return st.join(T.us)
        if op == "options_selectin":
            return st.options(orm.selectinload(T.us))
        if op == "options_joined":
            return st.options(orm.joinedload(T.us))
        if op == "options_load_only":
            return st.options(orm.load_only(T.x))
        if op == "options_criteria":
            return st.options(orm.with_loader_criteria(U, U.v > a))
        if op == "filter_by":
            return st.filter_by(x=a)
        if op == "execution_options":
            return st.execution_options(**{"k%d" % (a % 2): a})
        if op == "group_by":
            return st.group_by(ecol)
        if op == "with_only_columns_orm":
            return st.with_only_columns(T.id, ecol)
        raise ValueError(op)
    if op == "where":
        return st.where(col > a) if col is not t.c.s else st.where(col > str(a))
    if op == "where_or":
        return st.where(sa.or_(t.c.x > a, t.c.y < a + 3))
    if op == "where_in":
        return st.where(t.c.x.in_([a, a + 1, a + 2][: 1 + a % 3]))
    if op == "where_bind":
        return st.where(t.c.y == sa.bindparam("b%d" % (a % 3), a))
    if op == "where_exists":
        return st.where(sa.exists().where(u.c.tid == t.c.id).where(u.c.v > a))
    if op == "where_text":
        return st.where(sa.text("t.x > :tx%d" % (a % 2)).bindparams(**{"tx%d" % (a % 2): a}))
    if op == "params":
        return st.params(**{"b%d" % (a % 3): a})
    if op == "having":
        return st.having(sa.func.count(t.c.id) > a)
    if op == "group_by":
        return st.group_by(col)
    if op == "group_by_none":
        return st.group_by(None)
    if op == "order_by":
        return st.order_by(col)
    if op == "order_desc":
        return st.order_by(col.desc())
    if op == "order_by_none":
        return st.order_by(None)
    if op == "limit":
        return st.limit(a % 9)
    if op == "offset":
        return st.offset(a % 5)
    if op == "fetch":
        return st.fetch(a % 6 + 1)
    if op == "slice":
        return st.slice(a % 3, a % 3 + 4)
    if op == "distinct":
        return st.distinct()
    if op == "add_columns":
        return st.add_columns((col + a).label("ac%d" % (a % 3)))
    if op == "with_only_columns":
        return st.with_only_columns(t.c.id, col)
    if op == "label_col":
        return st.add_columns(sa.literal(a).label("lit%d" % (a % 3)))
    if op == "reduce_columns":
        return st.reduce_columns()
    if op == "join":
        ua = u.alias("uj%d" % (a % 3))
        return st.join(ua, ua.c.tid == t.c.id)
    if op == "outerjoin":
        ua = u.alias("uo%d" % (a % 3))
        return st.outerjoin(ua, ua.c.tid == t.c.id)
    if op == "select_from":
        return st.select_from(t)
    if op == "correlate":
        return st.correlate(u)
    if op == "prefix_with":
        return st.prefix_with("PFX%d" % (a % 3))
    if op == "suffix_with":
        return st.suffix_with("SFX%d" % (a % 3))
    if op == "with_for_update":
        return st.with_for_update(nowait=bool(a % 2))
    if op == "with_hint":
        return st.with_hint(t, "HINT%d" % (a % 3), "*") if kind not in ("update", "delete") else st.with_hint("UH%d" % (a % 3))
    if op == "with_statement_hint":
        return st.with_statement_hint("SH%d" % (a % 3))
    if op == "execution_options":
        return st.execution_options(**{"k%d" % (a % 2): a})
    if op == "filter_by":
        return st.filter_by(x=a)
    if op == "values":
        return st.values(x=a) if kind == "insert" else st.values(y=t.c.y + a)
    if op == "values_more":
        return st.values(s=str(a))
    if op == "ordered":
        return st.ordered_values((t.c.y, a), (t.c.x, t.c.x + a))
    if op == "returning":
        return st.returning(t.c.id, col)
    if op == "inline":
        return st.inline()
    if op == "return_defaults":
        return st.return_defaults()
    raise ValueError(op)


def snapshot(env, st, observers=False):
    """canonical record of what the statement compiles to on every dialect"""
    out = {}
    if hasattr(st, "session") and hasattr(st, "statement"):
        st = st.statement  # legacy Query
    if observers and type(st).__name__ == "CompoundSelect":
        try:
            sq = env.sa.select(st.subquery("sq_obs"))
            out["__as_subquery__"] = str(sq.compile(dialect=env.dialects["sqlite"]))
        except Exception as ex:
            out["__as_subquery__"] = ("ERR", type(ex).__name__)
    for dn, d in env.dialects.items():
        try:
            c = st.compile(dialect=d)
            out[dn] = (str(c), sorted((str(k), repr(v)) for k, v in c.params.items()))
        except Exception as ex:
            out[dn] = ("ERR", type(ex).__name__)
    try:
        ck = st._generate_cache_key()
        out["__key__"] = None if ck is None else [repr(b.value) for b in ck.bindparams]
    except Exception as ex:
        out["__key__"] = ("ERR", type(ex).__name__)
    return out


def run_tree(ctx, env, spec, record=True):
    """spec = {"kind":…, "nodes":[[parent index, op, arg], …]} ; node 0 is the base"""
    import copy
    import pickle

    from sqlalchemy.sql import visitors

    kind = spec["kind"]
    shared_birth = {k: snapshot(env, v) for k, v in env.shared.items()}
    stmts = [base_stmt(env, kind)]
    isq = kind.startswith("query")
    births = [snapshot(env, stmts[0], True)]
    applied = []
    for parent, op, a in spec["nodes"]:
        try:
            st = apply_op(env, kind, stmts[parent], op, a)
        except Exception as ex:
            # SQLAlchemy rejects the call (e.g. returning() twice): no new node, but the
            # ancestors must still be intact
            if type(ex).__name__ in ("AttributeError", "TypeError", "KeyError", "AssertionError", "IndexError"):
                ctx.violation(
                    classify(spec, "op:" + op, len(stmts)),
                    {"spec": spec, "node": len(stmts), "check": "op:" + op},
                    "generative call %s(%r) on statement #%d raises %s: %s" % (op, a, parent, type(ex).__name__, str(ex)[:200]),
                )
                return 1
            if record:
                ctx.count("op-rejected")
            applied.append(None)
            stmts.append(stmts[parent])
            births.append(births[parent])
            continue
        applied.append(op)
        stmts.append(st)
        births.append(snapshot(env, st, True))
    nviol = 0

    reported = set()

    def check(label, getter):
        nonlocal nviol
        for i, st in enumerate(stmts):
            try:
                now = snapshot(env, getter(st), True)
            except Exception as ex:
                if label in ("pickle",):
                    continue
                now = {"__exc__": type(ex).__name__}
            if now != births[i]:
                diff = [k for k in births[i] if now.get(k) != births[i][k]]
                key = classify(spec, label, i)
                if key in reported:
                    continue
                reported.add(key)
                nviol += 1
                ctx.violation(
                    key,
                    {"spec": spec, "node": i, "check": label},
                    "statement #%d (%s) changed after %s: %s: birth %s | now %s" % (i, [None] + applied and ([None] + applied)[i], label, diff[:3], str(births[i].get(diff[0]))[:400] if diff else "", str(now.get(diff[0]))[:400] if diff else ""),
                )
        return True

    check("after-descendants-built", lambda s: s)
    for k_, v_ in env.shared.items():
        now_ = snapshot(env, v_)
        if now_ != shared_birth[k_] and "shared" not in reported:
            reported.add("shared")
            nviol += 1
            diff = [d for d in now_ if now_[d] != shared_birth[k_].get(d)]
            ctx.violation(
                "c03:shared-template-changed",
                {"spec": spec, "node": -1, "check": "shared:" + k_},
                "shared building block %s changed after statements were derived from it: %s: birth %s | now %s" % (k_, diff[:2], str(shared_birth[k_].get(diff[0]))[:300], str(now_.get(diff[0]))[:300]),
            )
    check("recompile", lambda s: s)
    if isq:
        check("cloned_traverse", lambda s: visitors.cloned_traverse(s.statement, {}, {}))
        check("after-clone-ops", lambda s: s)
        return nviol if not record else _rec(ctx, spec, kind, applied, nviol)
    check("copy.copy", lambda s: copy.copy(s))
    check("_clone", lambda s: s._clone())
    check("cloned_traverse", lambda s: visitors.cloned_traverse(s, {}, {}))
    check("after-clone-ops", lambda s: s)
    if kind not in ("orm", "orm_cols"):
        check("pickle", lambda s: pickle.loads(pickle.dumps(s)))
        check("after-pickle", lambda s: s)
    if record:
        ctx.case(json.dumps(spec, sort_keys=True), nontrivial=len(spec["nodes"]) >= 2)
        ctx.count("kind=" + kind)
        ctx.count("nodes=%d" % min(len(spec["nodes"]), 40))
        for o in applied:
            if o:
                ctx.count("op=" + o)
    return nviol


def _rec(ctx, spec, kind, applied, nviol):
    ctx.case(json.dumps(spec, sort_keys=True), nontrivial=len(spec["nodes"]) >= 2)
    ctx.count("kind=" + kind)
    ctx.count("nodes=%d" % min(len(spec["nodes"]), 40))
    for o in applied:
        if o:
            ctx.count("op=" + o)
    return nviol


def classify(spec, label, node):
    """key from the input: the operations on the path to `node` + which check failed"""
    ops = set()
    i = node
    nodes = spec["nodes"]
    while i > 0 and i - 1 < len(nodes):
        parent, op, _ = nodes[i - 1]
        ops.add(op)
        i = parent
    if label in ("pickle", "after-pickle") and len(ops & {"limit", "offset", "slice", "fetch"}) >= 1 and ({"offset", "slice"} & ops or len(ops & {"limit", "fetch"}) >= 1):
        return KEY_PICKLE_CMP
    if "options_criteria" in ops and (label in ("cloned_traverse", "_clone", "after-clone-ops") or label.startswith("op:")):
        return KEY_CLONE_LC
    return "c03:%s" % label


def gen_tree(rng, maxlen):
    kind = rng.choice(["select"] * 4 + ["select_join", "compound", "compound_union", "compound_intersect", "compound_except", "compound_nested", "insert", "update", "delete", "orm", "orm", "orm_cols", "query", "query", "query_cols", "text", "text", "shared_select"])
    ops = ops_for(kind)
    n = rng.randint(2, maxlen)
    nodes = []
    branchy = rng.random() < 0.5
    for i in range(n):
        parent = rng.randint(0, i) if (branchy and rng.random() < 0.4) else i
        nodes.append([parent, rng.choice(ops), rng.randint(1, 2000)])
    return {"kind": kind, "nodes": nodes}


def run(ctx, deep=False):
    import warnings

    warnings.simplefilter("ignore")
    ctx.rule = (
        "random trees of generative calls (chains with 40% branching from an earlier ancestor) over Core select / joined select / compound / insert / update / delete and ORM select; "
        "33 select operations, 7 insert, 9 update, 6 delete, 17 ORM; arguments drawn at random; every node compiled on sqlite, postgresql, mysql, mssql, oracle and the default dialect at birth and again after: "
        "the whole tree exists, recompilation, copy.copy, _clone, cloned_traverse, pickle; a case = one tree; non-trivial = >= 2 calls"
    )
    ctx.trusted += ["the in-place-mutation scan of the translator is syntactic (ast); harness/c03_baseline.json is the reviewed residual of the unchanged tree"]
    thorough = ctx.tier == "thorough" or deep
    env = Env()
    n = 1200 if thorough else 130
    maxlen = 40 if thorough else 12
    for i in range(n):
        spec = gen_tree(ctx.rng, maxlen)
        run_tree(ctx, env, spec)
        if i < 3:
            ctx.sample(spec)
    ctx.exhaustive = False
    # correspondence of the shallow-copy model with Generative._generate on real objects
    model_corr(ctx, env)


def model_corr(ctx, env):
    """the Lean model's `observe` after chains of rebuild steps vs real statements:
    attribute `_where_criteria` of each ancestor after a chain of .where() calls"""
    if not ctx.driver_ok():
        return
    sa, t = env.sa, env.fx.t
    cases, impl, req = [], [], []
    for _ in range(60):
        n = ctx.rng.randint(1, 8)
        args = [ctx.rng.randint(1, 99) for _ in range(n)]
        st = sa.select(t.c.id)
        chain = [st]
        for a in args:
            st = st.where(t.c.x > a)
            chain.append(st)
        obs = []
        for s in chain:
            obs.append(",".join(str(c.right.value) for c in s._where_criteria) or "-")
        cases.append({"args": args})
        impl.append(";".join(obs))
        req.append("generative chain %s" % ",".join(str(a) for a in args))
    ctx.correspond("corr/c03:_generate-shallow-copy-vs-Model.Generative", cases, impl, ctx.driver(req))


def search(ctx, broken):
    from harness import vlib

    env = Env()
    sub = vlib.Ctx(ctx.pid, "thorough", ctx.seed + 1, ctx.level)
    for i in range(1500):
        if run_tree(sub, env, gen_tree(sub.rng, 30), record=False):
            break
    ctx.violations.extend(sub.violations)


def replay(ctx, obj):
    import warnings

    warnings.simplefilter("ignore")
    bad = run_tree(ctx, Env(), obj["case"]["spec"], record=False) > 0
    for v in ctx.violations:
        print("replay C03: %s — %s" % (v["key"], v["detail"][:700]))
    if not bad:
        print("replay C03: no violation")
    return bad
