"""C14 — DDL is emitted in dependency order for any foreign-key graph.

Model: lean/SaVerif/Model/Ddl.lean (transcription of sql/ddl.py sort_tables_and_constraints,
SchemaGenerator/SchemaDropper.visit_metadata, the inline-FK decision of
DDLCompiler.create_table_constraints, and a strict backend), on top of M-TOPO.
Theorems: lean/SaVerif/Props/C14.lean.

Check = (1) correspondence of sort_tables_and_constraints (three filter_fn modes) and
MetaData.sorted_tables with the model; (2) correspondence of the DDL captured from
create_all/drop_all *scripts* (sequences of create_all/drop_all calls with `tables=` subsets
on one MetaData) on postgresql/mysql/mariadb/mssql/oracle mock engines and on a real SQLite
engine (checkfirst on/off, foreign_keys=ON) with the model's emission; (3) the direct oracle:
the captured DDL is executed on an independent strict backend written here (CREATE TABLE
needs every referenced table, ALTER ADD needs both, DROP TABLE needs no inbound constraint,
DROP CONSTRAINT needs a name) and the catalog afterwards must contain exactly what the
MetaData declares; on SQLite the real catalog is inspected.
"""
import itertools
import re
import warnings

import random

PID = "C14"
LEVEL = "proof"
LEAN = ["SaVerif.Props.C14"]
META = {
    "text": "Lean theorems for every schema (any number of tables, any FK graph incl. self references, cycles, use_alter, several constraints to one target, add_is_dependent_on edges, any pre-existing backend content): create_all's DDL is accepted by a strict backend (CREATE TABLE only references tables that exist, ALTER ADD last) and leaves every table, index and FK constraint present; drop_all's DDL is accepted and removes them (under the guard the proof forces, see note); sorted_tables puts the referred table first for every FK whose owner is not on a cycle; the second sort after cycle breaking cannot fail when there are no add_is_dependent_on edges (unconditional for the real find_cycles, via C19's find_cycles_exact and a pigeonhole lemma). The model is a hand transcription of sql/ddl.py tied to it by differential runs of sort_tables_and_constraints and of captured create_all/drop_all DDL scripts on five ALTER-capable dialects and on real SQLite; the property itself is re-checked on the captured DDL by an independent strict-backend simulator and on the SQLite catalog; one MetaData that keeps changing (tables, foreign keys added to existing tables, removals) is re-sorted after every change and checked by a direct oracle (outside the Lean model, which sorts one fixed schema).",
    "note": "Partial: drop_all_accepted_partial needs (a) named constraints for use_alter/cycle members (documented: CircularDependencyError / CompileError otherwise) and (b) no table on a cycle owning both a named and an unnamed constraint to the same target - drop_all_counterexample_shared_target is a genuine defect (known finding drop-shared-target-named-unnamed-cycle). create_all_accepted needs the constraints ALTERed by an earlier create_all not to be needed inline later: AddConstraint(isolate_from_table=True) in SchemaGenerator permanently disables them (create_all_counterexample_isolated, known finding create-after-alter-isolated-constraint). second_sort_total_unconditional discharges the find_cycles hypothesis with C19's find_cycles_exact (the generic versions for any cycle oracle are kept). Strict backend = model of PostgreSQL's rule, not PostgreSQL. Sequences, views, comments, schemas are not modelled.",
    "technique": "Lean 4 proof (induction over the emitted DDL list using C19's sort_respects/sort_perm; loop invariant over the cycle-breaking fold) + differential correspondence on captured DDL + strict-backend oracle",
    "design_ref": "DESIGN.md §3 C14",
}

ALTER_DIALECTS = ["postgresql", "mysql", "mariadb", "mssql", "oracle"]


# ------------------------------------------------------------------ translator
def gen(ctx):
    """Gen/DdlCfg.lean: does SchemaGenerator hand its ALTERed constraints to
    AddConstraint(isolate_from_table=True)?  Read from the working tree by ast."""
    import ast
    import os

    from harness import vlib

    src = open(os.path.join(vlib.REPO, "lib", "sqlalchemy", "sql", "ddl.py")).read()
    tree = ast.parse(src)
    default = None
    value = None
    found_call = False
    for cls in [n for n in tree.body if isinstance(n, ast.ClassDef)]:
        if cls.name == "AddConstraint":
            for fn in [n for n in cls.body if isinstance(n, ast.FunctionDef) and n.name == "__init__"]:
                names = [a.arg for a in fn.args.kwonlyargs]
                if "isolate_from_table" in names:
                    d = fn.args.kw_defaults[names.index("isolate_from_table")]
                    if isinstance(d, ast.Constant):
                        default = bool(d.value)
                pos = [a.arg for a in fn.args.args]
                if "isolate_from_table" in pos:
                    k = pos.index("isolate_from_table") - (len(pos) - len(fn.args.defaults))
                    if k >= 0 and isinstance(fn.args.defaults[k], ast.Constant):
                        default = bool(fn.args.defaults[k].value)
        if cls.name == "SchemaGenerator":
            for fn in [n for n in cls.body if isinstance(n, ast.FunctionDef) and n.name == "visit_foreign_key_constraint"]:
                for call in [n for n in ast.walk(fn) if isinstance(n, ast.Call)]:
                    if isinstance(call.func, ast.Name) and call.func.id == "AddConstraint":
                        found_call = True
                        for kw in call.keywords:
                            if kw.arg == "isolate_from_table" and isinstance(kw.value, ast.Constant):
                                value = bool(kw.value.value)
    if value is None:
        value = default
    ok = found_call and value is not None
    ctx.obligation(
        "translator:sql/ddl.py SchemaGenerator.visit_foreign_key_constraint -> Gen.DdlCfg.generatorIsolates",
        ok,
        "AddConstraint call found=%s isolate_from_table=%s" % (found_call, value),
    )
    if ok:
        ctx.write_gen(
            "DdlCfg",
            "namespace SaVerif.Gen.DdlCfg\ndef generatorIsolates : Bool := %s\nend SaVerif.Gen.DdlCfg\n" % ("true" if value else "false"),
        )


# ------------------------------------------------------------------ spec helpers
def enc_tables(tables):
    if not tables:
        return "-"
    out = []
    for t in tables:
        fk = ",".join("%d.%d.%d.%d" % (f["id"], f["ref"], int(f["ua"]), int(f["named"])) for f in t["fkcs"]) or "-"
        ex = ",".join(map(str, t["extra"])) or "-"
        ix = ",".join(map(str, t["idx"])) or "-"
        out.append("%d/%s/%s/%s" % (t["id"], fk, ex, ix))
    return ";".join(out)


def enc_steps(steps):
    out = []
    for kind, cf, sub in steps:
        if kind == "X":
            out.append("X:%d" % sub[0])
            continue
        out.append("%s%d:%s" % (kind, int(cf), "*" if sub is None else (",".join(map(str, sub)) or "-")))
    return ";".join(out)


def tname(i):
    """real table name: ids >= 1000 are `twins` living in schema s1 with the NAME of table id-1000"""
    return "t%d" % (i % 1000)


def tschema(i):
    return "s1" if i >= 1000 else None


def tkey(i):
    return ("s1." if i >= 1000 else "") + tname(i)


def build_metadata(tables):
    """real MetaData for a spec; returns (metadata, {id: Table})"""
    from sqlalchemy import Column, ForeignKey, ForeignKeyConstraint, Index, Integer, MetaData, Table, UniqueConstraint

    m = MetaData()
    objs = {}
    for t in tables:
        cols = [Column("id", Integer, primary_key=True), Column("id2", Integer)]
        cons = [UniqueConstraint("id", "id2")]
        for f in t["fkcs"]:
            name = "fk%d" % f["id"] if f["named"] else None
            if f.get("via") == "col":
                cols.append(Column("c%d" % f["id"], Integer, ForeignKey("%s.id" % tkey(f["ref"]), name=name, use_alter=f["ua"])))
            elif f.get("ncols", 1) == 2:
                cols.append(Column("c%d" % f["id"], Integer))
                cols.append(Column("d%d" % f["id"], Integer))
                cons.append(
                    ForeignKeyConstraint(
                        ["c%d" % f["id"], "d%d" % f["id"]],
                        ["%s.id" % tkey(f["ref"]), "%s.id2" % tkey(f["ref"])],
                        name=name,
                        use_alter=f["ua"],
                    )
                )
            else:
                cols.append(Column("c%d" % f["id"], Integer))
                cons.append(ForeignKeyConstraint(["c%d" % f["id"]], ["%s.id" % tkey(f["ref"])], name=name, use_alter=f["ua"]))
        tb = Table(tname(t["id"]), m, *(cols + cons), schema=tschema(t["id"]))
        for ix in t["idx"]:
            Index("ix%d" % ix, tb.c.id2)
        objs[t["id"]] = tb
    for t in tables:
        for p in t["extra"]:
            objs[t["id"]].add_is_dependent_on(objs[p])
    return m, objs


TBL = r"(s1\.)?t(\d+)"
STMT = [
    (re.compile(r"^CREATE TABLE %s \(" % TBL), "CT"),
    (re.compile(r"^CREATE INDEX ix(\d+) ON %s " % TBL), "CI"),
    (re.compile(r"^ALTER TABLE %s ADD (?:CONSTRAINT \w+ )?FOREIGN KEY\(c(\d+)" % TBL), "AC"),
    (re.compile(r"^ALTER TABLE %s DROP (?:CONSTRAINT|FOREIGN KEY) fk(\d+)$" % TBL), "DC"),
    (re.compile(r"^DROP TABLE %s$" % TBL), "DT"),
]


def _tid(prefix, num):
    return int(num) + (1000 if prefix else 0)


def tokenize(sql):
    """one DDL statement -> abstract op token (same syntax as the Lean driver)"""
    s = " ".join(sql.split())
    for rx, kind in STMT:
        mm = rx.match(s)
        if not mm:
            continue
        if kind == "CT":
            fids = sorted(int(x) for x in re.findall(r"FOREIGN KEY\(c(\d+)", s))
            return "CT%d[%s]" % (_tid(mm.group(1), mm.group(2)), ",".join(map(str, fids)) or "-")
        if kind == "CI":
            return "CI%d.%s" % (_tid(mm.group(2), mm.group(3)), mm.group(1))
        if kind in ("AC", "DC"):
            return "%s%d.%s" % (kind, _tid(mm.group(1), mm.group(2)), mm.group(3))
        return "DT%d" % _tid(mm.group(1), mm.group(2))
    return "??" + s[:60].replace(" ", "_")


def canon_ops(tokens):
    """sort maximal runs of AC / DC / CI tokens (their order comes from Python set iteration)"""
    out, i = [], 0
    while i < len(tokens):
        k = tokens[i][:2]
        if k in ("AC", "DC", "CI"):
            j = i
            while j < len(tokens) and tokens[j][:2] == k:
                j += 1
            out += sorted(tokens[i:j], key=lambda x: [int(y) for y in x[2:].split(".")])
            i = j
        else:
            out.append(tokens[i])
            i += 1
    return out


def canon_line(tokens, failed=None):
    s = " ".join(canon_ops(tokens)) if tokens else "-"
    if failed is not None:
        s += " !%d" % failed
    return s


def canon_model_step(s):
    """the model prints ops in its own list order; canonicalise the same way"""
    if s == "circular" or s.startswith("#"):
        return s
    failed = None
    toks = s.split(" ")
    if toks and toks[-1].startswith("!"):
        failed = int(toks[-1][1:])
        toks = toks[:-1]
    if toks == ["-"]:
        toks = []
    if failed is not None:
        # canonicalisation may move the failing op inside a run; keep only the prefix + marker
        return canon_line(toks[:failed]) + " !"
    return canon_line(toks)


# ------------------------------------------------------------------ independent strict backend (oracle)
class Strict:
    def __init__(self, spec_tables):
        self.fk = {}
        for t in spec_tables:
            for f in t["fkcs"]:
                self.fk[(t["id"], f["id"])] = f
        self.tables, self.fks, self.idx = set(), set(), set()

    def apply(self, tok):
        """returns None if accepted else a reason"""
        k = tok[:2]
        if k == "CT":
            mm = re.match(r"CT(\d+)\[(.*)\]", tok)
            t = int(mm.group(1))
            fids = [] if mm.group(2) == "-" else [int(x) for x in mm.group(2).split(",")]
            if t in self.tables:
                return "table t%d already exists" % t
            for fid in fids:
                r = self.fk[(t, fid)]["ref"]
                if r != t and r not in self.tables:
                    return "CREATE TABLE t%d: referenced table t%d does not exist (fk %d)" % (t, r, fid)
            self.tables.add(t)
            self.fks |= {(t, fid) for fid in fids}
            return None
        a, b = (int(x) for x in (tok[2:].split(".") + ["0"])[:2])
        if k == "CI":
            if a not in self.tables:
                return "CREATE INDEX on missing table t%d" % a
            self.idx.add((a, b))
            return None
        if k == "AC":
            r = self.fk[(a, b)]["ref"]
            if a not in self.tables or r not in self.tables:
                return "ALTER TABLE t%d ADD fk %d: table t%d or t%d missing" % (a, b, a, r)
            if (a, b) in self.fks:
                return "ALTER TABLE t%d ADD fk %d: the constraint already exists" % (a, b)
            self.fks.add((a, b))
            return None
        if k == "DC":
            if (a, b) not in self.fks:
                return "ALTER TABLE t%d DROP fk %d: no such constraint" % (a, b)
            self.fks.discard((a, b))
            return None
        if k == "DT":
            if a not in self.tables:
                return "DROP TABLE t%d: no such table" % a
            for t2, fid in self.fks:
                if t2 != a and self.fk[(t2, fid)]["ref"] == a:
                    return "DROP TABLE t%d: constraint %d of t%d still references it" % (a, fid, t2)
            self.tables.discard(a)
            self.fks = {x for x in self.fks if x[0] != a}
            self.idx = {x for x in self.idx if x[0] != a}
            return None
        return "unparsed statement " + tok


def has_cycle(nodes, edges):
    nodes = set(nodes)
    adj = {n: set() for n in nodes}
    for p, c in edges:
        if p in nodes and c in nodes:
            adj[p].add(c)
    color = {}

    def dfs(n):
        color[n] = 1
        for m in adj[n]:
            if color.get(m) == 1 or (m not in color and dfs(m)):
                return True
        color[n] = 2
        return False

    return any(n not in color and dfs(n) for n in nodes)


def on_cycle(nodes, edges):
    nodes = set(nodes)
    reach = {n: set() for n in nodes}
    for p, c in edges:
        if p in nodes and c in nodes:
            reach[p].add(c)
    ch = True
    while ch:
        ch = False
        for n in nodes:
            new = set()
            for m in reach[n]:
                new |= reach[m]
            if not new <= reach[n]:
                reach[n] |= new
                ch = True
    return {n for n in nodes if n in reach[n]}


def shared_target_hazard(tables, cand_ids):
    """input predicate of known finding F20: a candidate table on a cycle owns both a named
    constraint (use_alter or not) and an unnamed non-use_alter constraint to the same other table"""
    cand = [t for t in tables if t["id"] in cand_ids]
    edges = [(f["ref"], t["id"]) for t in cand for f in t["fkcs"] if not f["ua"] and f["ref"] != t["id"]]
    edges += [(p, t["id"]) for t in cand for p in t["extra"]]
    cyc = on_cycle(cand_ids, edges)
    for t in cand:
        if t["id"] not in cyc:
            continue
        named = {f["ref"] for f in t["fkcs"] if f["named"] and f["ref"] != t["id"]}  # use_alter ones count too
        unnamed = {f["ref"] for f in t["fkcs"] if not f["ua"] and not f["named"] and f["ref"] != t["id"]}
        if named & unnamed:
            return True
    return False


# ------------------------------------------------------------------ running the real code
def exc_kind(e):
    from sqlalchemy import exc

    if isinstance(e, exc.CircularDependencyError):
        return "circular"
    if isinstance(e, exc.CompileError):
        return "compile-error"
    if isinstance(e, exc.OperationalError):
        return "operational"
    return "internal:" + type(e).__name__


def run_script_mock(spec, dialect):
    """create_all/drop_all script on a mock engine; returns list of (tokens, exception-kind|None).

    checkfirst: MockConnection forces checkfirst=False, so for a checkfirst step the
    SchemaGenerator / SchemaDropper visitor is invoked directly on the mock connection, with the
    dialect's has_table / has_multi_table / has_index answering from the tables the emitted DDL has
    created so far (the catalog of the simulated backend)."""
    from sqlalchemy import create_mock_engine
    from sqlalchemy.sql import ddl as sqlddl

    m, objs = build_metadata(spec["tables"])
    out = []
    present = set()

    def ex(sql, *a, **k):
        out.append(str(sql.compile(dialect=eng.dialect)))

    eng = create_mock_engine(dialect + "://", ex)
    d = eng.dialect
    def _has(n, schema):
        return (int(n[1:]) + (1000 if schema == "s1" else 0)) in present

    d.has_table = lambda conn, name, schema=None, **kw: _has(name, schema)
    d.has_multi_table = lambda conn, names, schema=None, **kw: {(schema, n): _has(n, schema) for n in names}
    d.has_index = lambda conn, tname, iname, schema=None, **kw: False
    d.has_sequence = lambda conn, name, schema=None, **kw: False
    res = []
    with warnings.catch_warnings():
        warnings.simplefilter("ignore")
        for kind, cf, sub in spec["steps"]:
            del out[:]
            if kind == "X":  # out-of-band DROP TABLE .. CASCADE: nothing goes through SQLAlchemy
                present.discard(sub[0])
                res.append((["X"], None))
                continue
            tbls = None if sub is None else [objs[i] for i in sub]
            err = None
            try:
                if not cf:
                    if kind == "C":
                        m.create_all(eng, tables=tbls, checkfirst=False)
                    else:
                        m.drop_all(eng, tables=tbls, checkfirst=False)
                else:
                    cls = sqlddl.SchemaGenerator if kind == "C" else sqlddl.SchemaDropper
                    cls(d, eng, checkfirst=True, tables=tbls).traverse_single(m)
            except Exception as e:  # classified below
                err = exc_kind(e)
            toks = [tokenize(s) for s in out]
            for t in toks:
                if t.startswith("CT"):
                    present.add(int(t[2:].split("[")[0]))
                elif t.startswith("DT"):
                    present.discard(int(t[2:]))
            res.append((toks, err))
    return res


def run_script_sqlite(spec):
    """same on a real in-memory SQLite with foreign_keys=ON; checkfirst honoured.
    returns list of (tokens, exception-kind|None, catalog)"""
    from sqlalchemy import create_engine, event
    from sqlalchemy.pool import StaticPool

    m, objs = build_metadata(spec["tables"])
    eng = create_engine("sqlite://", poolclass=StaticPool)
    stmts = []

    @event.listens_for(eng, "connect")
    def _c(dbapi, rec):
        dbapi.execute("PRAGMA foreign_keys=ON")

    @event.listens_for(eng, "before_cursor_execute")
    def _b(conn, cur, statement, params, context, executemany):
        s = statement.strip()
        if s.split(None, 1)[0].upper() in ("CREATE", "ALTER", "DROP"):
            stmts.append(s)

    res = []
    with warnings.catch_warnings():
        warnings.simplefilter("ignore")
        for kind, cf, sub in spec["steps"]:
            del stmts[:]
            if kind == "X":
                with eng.connect() as c:
                    try:
                        c.connection.dbapi_connection.execute('DROP TABLE IF EXISTS "t%d"' % sub[0])
                    finally:
                        del stmts[:]
                res.append((["X"], None, sqlite_catalog(eng)))
                continue
            tbls = None if sub is None else [objs[i] for i in sub]
            err = None
            try:
                if kind == "C":
                    m.create_all(eng, tables=tbls, checkfirst=bool(cf))
                else:
                    m.drop_all(eng, tables=tbls, checkfirst=bool(cf))
            except Exception as e:
                err = exc_kind(e)
            res.append(([tokenize(s) for s in stmts], err, sqlite_catalog(eng)))
    eng.dispose()
    return res


def sqlite_catalog(eng):
    with eng.connect() as c:
        raw = c.connection.dbapi_connection
        tabs = sorted(int(r[0][1:]) for r in raw.execute("select name from sqlite_master where type='table' and name like 't%'"))
        idx = sorted((int(r[1][1:]), int(r[0][2:])) for r in raw.execute("select name, tbl_name from sqlite_master where type='index' and name like 'ix%'"))
        fks = set()
        for t in tabs:
            for r in raw.execute('PRAGMA foreign_key_list("t%d")' % t):
                fks.add((t, int(r[3][1:]), int(r[2][1:])))  # (table, fid (from column c<fid>), referred table)
        return {"tables": tabs, "idx": idx, "fks": sorted(x for x in fks if True)}


# ------------------------------------------------------------------ direct oracles
def fixed_cycle(tables, cand_ids, unnamed_fixed):
    """is there a cycle the code cannot legally break: add_is_dependent_on edges (+ for DROP the
    unnamed non-use_alter FK edges) among the candidates"""
    cand = [t for t in tables if t["id"] in cand_ids]
    edges = [(p, t["id"]) for t in cand for p in t["extra"]]
    if unnamed_fixed:
        edges += [(f["ref"], t["id"]) for t in cand for f in t["fkcs"] if not f["ua"] and not f["named"] and f["ref"] != t["id"]]
    return has_cycle(cand_ids, edges)


def oracle_mock(spec, res, dialect):
    """run the captured DDL of an ALTER-capable dialect on the strict backend.
    returns list of (key, detail)"""
    bad = []
    tables = spec["tables"]
    byid = {t["id"]: t for t in tables}
    st = Strict(tables)
    altered = set()
    for n, ((kind, cf, sub), (toks, err)) in enumerate(zip(spec["steps"], res)):
        cand = [t["id"] for t in tables] if sub is None else list(sub)
        where = "%s step %d (%s %s)" % (dialect, n, kind, sub)
        if kind != "X" and cf:
            # checkfirst: tables already present are skipped by create_all, absent ones by drop_all
            cand = [i for i in cand if (i not in st.tables) == (kind == "C")]
        if kind == "X":
            x = sub[0]
            st.tables.discard(x)
            st.fks = {r for r in st.fks if r[0] != x and st.fk[r]["ref"] != x}
            st.idx = {r for r in st.idx if r[0] != x}
            continue
        if (err == "internal:AssertionError" and kind == "D" and dialect in ("mysql", "mariadb")
                and any(f["ua"] and not f["named"] for t in tables if t["id"] in cand for f in t["fkcs"])):
            return bad  # see below (C22 finding mysql-drop-unnamed-constraint-assertion)
        if err is not None and err.startswith("internal"):
            bad.append(("internal-exception", "%s raised %s" % (where, err)))
            return bad
        if any(t.startswith("??") for t in toks):
            bad.append(("unparsed-ddl", "%s emitted %s" % (where, [t for t in toks if t.startswith("??")])))
            return bad
        if kind == "C":
            if err == "circular":
                if not fixed_cycle(tables, cand, False):
                    bad.append(("create-spurious-circular", "%s raised CircularDependencyError without an add_is_dependent_on cycle" % where))
                return bad  # documented error; the rest of the script assumed success
            if err is not None:
                bad.append(("create-error", "%s raised %s" % (where, err)))
                return bad
            if fixed_cycle(tables, cand, False):
                bad.append(("create-missed-circular", "%s: add_is_dependent_on cycle not reported" % where))
                return bad
            for k, tok in enumerate(toks):
                why = st.apply(tok)
                if why:
                    bad.append(("create-rejected", "%s op %d %s: %s" % (where, k, tok, why)))
                    return bad
                if tok.startswith("AC"):
                    altered.add(tuple(int(x) for x in tok[2:].split(".")))
            for i in cand:
                if i not in st.tables:
                    bad.append(("create-missing-table", "%s: t%d not created" % (where, i)))
                    return bad
                for f in byid[i]["fkcs"]:
                    if (i, f["id"]) not in st.fks:
                        key = "create-after-alter-isolated-constraint" if (i, f["id"]) in altered else "create-missing-constraint"
                        bad.append((key, "%s: constraint %d of t%d never created (DDL: %s)" % (where, f["id"], i, " ".join(toks))))
                        return bad
                for ix in byid[i]["idx"]:
                    if (i, ix) not in st.idx:
                        bad.append(("create-missing-index", "%s: index %d of t%d never created" % (where, ix, i)))
                        return bad
        else:
            unnamed_ua = [(t["id"], f["id"]) for t in tables if t["id"] in cand for f in t["fkcs"] if f["ua"] and not f["named"]]
            if err == "circular":
                if not fixed_cycle(tables, cand, True):
                    bad.append(("drop-spurious-circular", "%s raised CircularDependencyError but every cycle has a named constraint" % where))
                return bad  # documented error; the rest of the script assumed success
            if err == "internal:AssertionError" and unnamed_ua and dialect in ("mysql", "mariadb"):
                # MySQLDDLCompiler.visit_drop_constraint asserts instead of raising CompileError for an
                # unnamed constraint: an internal-error finding of C22, not an ordering matter
                return bad
            if err == "compile-error":
                if not unnamed_ua:
                    bad.append(("drop-spurious-compile-error", "%s raised CompileError without an unnamed use_alter constraint" % where))
                return bad  # documented: cannot DROP CONSTRAINT without a name; state unknown afterwards
            if err is not None:
                bad.append(("drop-error", "%s raised %s" % (where, err)))
                return bad
            for k, tok in enumerate(toks):
                why = st.apply(tok)
                if why:
                    key = "drop-rejected"
                    if tok.startswith("DT") and shared_target_hazard(tables, cand):
                        key = "drop-shared-target-named-unnamed-cycle"
                    elif fixed_cycle(tables, cand, True):
                        key = "drop-missed-circular"
                    bad.append((key, "%s op %d %s: %s (DDL: %s)" % (where, k, tok, why, " ".join(toks))))
                    return bad
            for i in cand:
                if i in st.tables:
                    bad.append(("drop-left-table", "%s: t%d not dropped" % (where, i)))
                    return bad
    return bad


def oracle_sqlite(spec, res):
    """SQLite (no ALTER, not strict): the real catalog must agree with the MetaData"""
    bad = []
    tables = spec["tables"]
    byid = {t["id"]: t for t in tables}
    present = set()
    for n, ((kind, cf, sub), (toks, err, cat)) in enumerate(zip(spec["steps"], res)):
        cand = [t["id"] for t in tables] if sub is None else list(sub)
        where = "sqlite step %d (%s cf=%s %s)" % (n, kind, cf, sub)
        if kind == "X":
            present.discard(sub[0])
            if sub[0] in cat["tables"]:
                bad.append(("harness-manual-drop", where))
            continue
        if err is not None and err.startswith("internal"):
            bad.append(("internal-exception", "%s raised %s" % (where, err)))
            return bad
        if kind == "C":
            if err == "circular":
                if not fixed_cycle(tables, [i for i in cand if not (cf and i in present)], False):
                    bad.append(("create-spurious-circular", where))
                continue
            if err == "operational":
                if cf or not (set(cand) & present):
                    bad.append(("create-error", "%s raised OperationalError although no table pre-exists / checkfirst" % where))
                return bad
            if err is not None:
                bad.append(("create-error", "%s raised %s" % (where, err)))
                return bad
            present |= set(cand)
            for i in cand:
                if i not in cat["tables"]:
                    bad.append(("create-missing-table", "%s: t%d not in catalog" % (where, i)))
                    return bad
        else:
            if err == "operational":
                if cf or set(cand) <= present:
                    bad.append(("drop-error", "%s raised OperationalError although all tables exist / checkfirst" % where))
                return bad
            if err is not None:
                bad.append(("drop-error", "%s raised %s" % (where, err)))
                return bad
            present -= set(cand)
            for i in cand:
                if i in cat["tables"]:
                    bad.append(("drop-left-table", "%s: t%d still in catalog" % (where, i)))
                    return bad
        if sorted(present) != cat["tables"]:
            bad.append(("catalog-tables", "%s: catalog %s expected %s" % (where, cat["tables"], sorted(present))))
            return bad
        # every table created by this MetaData carries all its constraints and indexes
        want_fk = sorted((i, f["id"], f["ref"]) for i in present for f in byid[i]["fkcs"])
        want_ix = sorted((i, ix) for i in present for ix in byid[i]["idx"])
        if cat["fks"] != want_fk:
            bad.append(("create-missing-constraint", "%s: catalog fks %s expected %s" % (where, cat["fks"], want_fk)))
            return bad
        if cat["idx"] != want_ix:
            bad.append(("create-missing-index", "%s: catalog idx %s expected %s" % (where, cat["idx"], want_ix)))
            return bad
    return bad


def run_sorts(spec):
    """sort_tables_and_constraints in the three filter modes + sorted_tables on the real code.
    returns (impl lines, request lines, oracle problems)"""
    from sqlalchemy import exc
    from sqlalchemy.sql.ddl import sort_tables_and_constraints

    tables = spec["tables"]
    m, objs = build_metadata(tables)
    rev = {v: k for k, v in objs.items()}
    fid = {}
    for t in tables:
        for fkc in objs[t["id"]].foreign_key_constraints:
            fid[fkc] = int(fkc.column_keys[0][1:])
    tl = [objs[t["id"]] for t in tables]
    impl, reqs, bad = [], [], []
    filters = {
        "create": None,
        "drop1": lambda c: False if c.name is None else None,
        "drop0": lambda c: False,
    }
    byid = {t["id"]: t for t in tables}
    ids = [t["id"] for t in tables]
    for name, fn in filters.items():
        reqs.append("ddl sort %s %s" % (name, enc_tables(tables)))
        try:
            coll = sort_tables_and_constraints(tl, filter_fn=fn)
        except exc.CircularDependencyError:
            impl.append("circular")
            continue
        order = [rev[t] for t, _ in coll[:-1]]
        rem = sorted((rev[f.table], fid[f]) for f in coll[-1][1])
        impl.append("ok %s | %s" % (",".join(map(str, order)) or "-", ",".join("%d.%d" % r for r in rem) or "-"))
        # direct oracle on the returned collection
        if coll[-1][0] is not None or sorted(order) != sorted(ids):
            bad.append(("sort-not-permutation", "%s: %s" % (name, order)))
            continue
        pos = {t: i for i, t in enumerate(order)}
        remset = set(rem)
        for t, fks in coll[:-1]:
            i = rev[t]
            inline = {fid[f] for f in fks}
            allf = {f["id"] for f in byid[i]["fkcs"]}
            if inline | {b for a, b in remset if a == i} != allf or inline & {b for a, b in remset if a == i}:
                bad.append(("sort-constraint-lost", "%s: table %d inline %s remaining %s all %s" % (name, i, inline, remset, allf)))
            for f in byid[i]["fkcs"]:
                if f["id"] in inline and f["ref"] != i and f["ref"] in pos and not pos[f["ref"]] < pos[i]:
                    key = "sort-inline-before-referred"
                    if name == "drop1" and shared_target_hazard(tables, ids):
                        key = "drop-shared-target-named-unnamed-cycle"
                    bad.append((key, "%s: constraint %d of t%d is inline but t%d is not sorted before it: %s" % (name, f["id"], i, f["ref"], order)))
                if f["ua"] and f["id"] in inline:
                    bad.append(("sort-use-alter-inline", "%s: use_alter constraint %d inline" % (name, f["id"])))
            for p in byid[i]["extra"]:
                if not pos[p] < pos[i]:
                    bad.append(("sort-extra-dependency", "%s: t%d depends on t%d: %s" % (name, i, p, order)))
    # sorted_tables
    key_sorted = sorted(tables, key=lambda t: tkey(t["id"]))
    reqs.append("ddl sortedtables %s" % enc_tables(key_sorted))
    with warnings.catch_warnings():
        warnings.simplefilter("ignore")
        try:
            st = [rev[t] for t in m.sorted_tables]
            impl.append("ok " + (",".join(map(str, st)) or "-"))
        except exc.CircularDependencyError:
            st = None
            impl.append("circular")
    edges = [(f["ref"], t["id"]) for t in tables for f in t["fkcs"] if not f["ua"] and f["ref"] != t["id"]]
    xedges = [(p, t["id"]) for t in tables for p in t["extra"]]
    if st is None:
        if not has_cycle(ids, xedges):
            bad.append(("sorted-tables-spurious-circular", "no add_is_dependent_on cycle"))
    else:
        if sorted(st) != sorted(ids):
            bad.append(("sorted-tables-not-permutation", str(st)))
        else:
            pos = {t: i for i, t in enumerate(st)}
            cyc = on_cycle(ids, edges + xedges)
            for p, c in edges:
                if c not in cyc and not pos[p] < pos[c]:
                    bad.append(("sorted-tables-order", "t%d references t%d and is on no cycle, but order is %s" % (c, p, st)))
            for p, c in xedges:
                if not pos[p] < pos[c]:
                    bad.append(("sorted-tables-order", "t%d add_is_dependent_on t%d, order %s" % (c, p, st)))
    return impl, reqs, bad


# ------------------------------------------------------------------ generators
def mk_fk(rng, fid, ref, ua=None, named=None):
    return {
        "id": fid,
        "ref": ref,
        "ua": (rng.random() < 0.15) if ua is None else ua,
        "named": (rng.random() < 0.75) if named is None else named,
        "via": rng.choice(["col", "fkc", "fkc"]),
        "ncols": rng.choice([1, 1, 2]),
    }


def add_twins(rng, tables):
    """a table in schema s1 with the same NAME as a table of the default schema (mock dialects only)"""
    base = rng.choice(tables)
    ids = [t["id"] for t in tables]
    twin = {"id": base["id"] + 1000, "fkcs": [], "extra": [], "idx": []}
    fid = max([f["id"] for t in tables for f in t["fkcs"]] + [100]) + 50
    for _ in range(rng.randint(0, 2)):
        fid += 1
        twin["fkcs"].append(mk_fk(rng, fid, rng.choice(ids + [twin["id"]])))
    for t in tables:
        if rng.random() < 0.3:
            fid += 1
            t["fkcs"].append(mk_fk(rng, fid, twin["id"]))
    pos = rng.randint(0, len(tables))
    return tables[:pos] + [twin] + tables[pos:]


def gen_schema(rng, maxn):
    n = rng.randint(1, maxn)
    idpool = rng.sample(range(1, 3 * maxn + 2), n)
    shape = rng.choice(["random", "random", "dag", "cycle", "dense", "twins"])
    tables = [{"id": i, "fkcs": [], "extra": [], "idx": []} for i in idpool]
    fid = [100]

    def add(ti, ref, **kw):
        fid[0] += 1
        tables[ti]["fkcs"].append(mk_fk(rng, fid[0], idpool[ref], **kw))

    if shape == "dag":
        for a in range(n):
            for b in range(a):
                if rng.random() < 0.4:
                    add(a, b)
    elif shape == "cycle" and n >= 2:
        k = rng.randint(2, n)
        ring = rng.sample(range(n), k)
        for j in range(k):
            add(ring[j], ring[(j + 1) % k], ua=rng.random() < 0.2)
        for _ in range(rng.randint(0, n)):
            add(rng.randrange(n), rng.randrange(n))
    elif shape == "twins" and n >= 2:
        # several constraints to one target with mixed named / unnamed / use_alter flags
        for _ in range(rng.randint(1, n)):
            a, b = rng.randrange(n), rng.randrange(n)
            for _ in range(rng.randint(2, 3)):
                add(a, b, ua=rng.random() < 0.2, named=rng.random() < 0.5)
        for _ in range(rng.randint(0, n)):
            add(rng.randrange(n), rng.randrange(n))
    else:
        dens = {"random": rng.choice([0.5, 1.0, 1.5]), "dense": 2.5}.get(shape, 1.0)
        for _ in range(int(n * dens + rng.random())):
            add(rng.randrange(n), rng.randrange(n))
    if rng.random() < 0.15:  # self reference
        a = rng.randrange(n)
        add(a, a)
    if rng.random() < 0.12 and n >= 2:  # add_is_dependent_on
        for _ in range(rng.randint(1, 2)):
            a, b = rng.sample(range(n), 2)
            if idpool[b] not in tables[a]["extra"]:
                tables[a]["extra"].append(idpool[b])
    ix = 0
    for t in tables:
        for _ in range(rng.choice([0, 0, 1, 2])):
            ix += 1
            t["idx"].append(ix)
    return tables


def closed_subset(rng, tables, present, want_create):
    """a `tables=` argument that is legal on a strict backend"""
    ids = [t["id"] for t in tables]
    byid = {t["id"]: t for t in tables}
    if want_create:
        pool = [i for i in ids if i not in present]
        if not pool:
            return None
        sub = set(rng.sample(pool, rng.randint(1, len(pool))))
        ch = True
        while ch:  # close under references (present ones are fine)
            ch = False
            for i in list(sub):
                for f in byid[i]["fkcs"]:
                    if f["ref"] not in sub and f["ref"] not in present:
                        sub.add(f["ref"])
                        ch = True
        sub = [i for i in ids if i in sub]
    else:
        pool = [i for i in ids if i in present]
        if not pool:
            return None
        sub = set(rng.sample(pool, rng.randint(1, len(pool))))
        ch = True
        while ch:  # close under "is referenced by a present table"
            ch = False
            for i in present:
                if i not in sub and any(f["ref"] in sub for f in byid[i]["fkcs"]):
                    sub.add(i)
                    ch = True
        sub = [i for i in ids if i in sub]
    rng.shuffle(sub)
    return sub


def gen_steps_strict(rng, tables):
    """script for the ALTER dialects: histories of create_all / drop_all with tables= subsets, with and
    without checkfirst (pre-existing tables), and out-of-band drops; every step is legal on a strict backend"""
    ids = [t["id"] for t in tables]
    r = rng.random()
    if r < 0.3:
        return [("C", 0, None), ("D", 0, None)]
    if r < 0.4:
        return [("C", 0, None), ("D", 0, None), ("C", 0, None), ("D", 0, None)]
    if r < 0.5:
        # create_all twice (checkfirst): the second one must be a no-op; then drop twice
        return [("C", rng.choice([0, 1]), None), ("C", 1, None), ("D", 1, None), ("D", 1, None)]
    if r < 0.6:
        # part of the schema exists already (created earlier / a table was added to the MetaData later)
        sub = closed_subset(rng, tables, set(), True)
        return [("C", rng.choice([0, 1]), sub), ("C", 1, None), ("D", rng.choice([0, 1]), None)]
    if r < 0.68:
        # partial drop, then create_all restores, then everything goes
        sub = closed_subset(rng, tables, set(ids), False)
        return [("C", 0, None), ("D", rng.choice([0, 1]), sub), ("C", 1, None), ("D", 1, None)]
    if r < 0.78:
        # somebody drops one table by hand (DROP TABLE .. CASCADE) and create_all restores it
        x = rng.choice(ids)
        return [("C", 0, None), ("X", 0, [x]), rng.choice([("C", 0, [x]), ("C", 1, None), ("C", 1, [x])])]
    steps, present = [], set()
    for _ in range(rng.randint(2, 5)):
        cf = 1 if rng.random() < 0.5 else 0
        if present and rng.random() < 0.45:
            if cf and rng.random() < 0.4:
                steps.append(("D", 1, None))
                present = set()
                continue
            sub = closed_subset(rng, tables, present, False)
            if sub is None:
                continue
            arg = list(sub)
            if cf:
                arg += [i for i in ids if i not in present and rng.random() < 0.3]  # absent ones are skipped
                rng.shuffle(arg)
            elif set(sub) == present == set(ids) and rng.random() < 0.5:
                arg = None
            steps.append(("D", cf, arg))
            present -= set(sub)
        else:
            if cf and rng.random() < 0.4:
                steps.append(("C", 1, None))
                present = set(ids)
                continue
            sub = closed_subset(rng, tables, present, True)
            if sub is None:
                continue
            arg = list(sub)
            if cf:
                arg += [i for i in present if rng.random() < 0.3]  # present ones are skipped
                rng.shuffle(arg)
            elif set(sub) == set(ids) and not present and rng.random() < 0.5:
                arg = None
            steps.append(("C", cf, arg))
            present |= set(sub)
    return steps or [("C", 0, None)]


def gen_steps_sqlite(rng, tables):
    ids = [t["id"] for t in tables]
    steps = []
    for _ in range(rng.randint(1, 5)):
        kind = rng.choice("CCDDX")
        if kind == "X":
            steps.append(("X", 0, [rng.choice(ids)]))
            continue
        cf = 1 if rng.random() < 0.8 else 0
        sub = None if rng.random() < 0.5 else rng.sample(ids, rng.randint(1, len(ids)))
        steps.append((kind, cf, sub))
    return steps


def small_schemas(two_flags, three):
    """exhaustive small scope: every FK graph on 2 tables with each ordered pair carrying
    none / named / unnamed / use_alter+named; on 3 tables none / named"""
    kinds = [None, (False, True), (False, False), (True, True)]
    if two_flags:
        pairs = [(0, 0), (0, 1), (1, 0), (1, 1)]
        for combo in itertools.product(kinds, repeat=4):
            tables = [{"id": 1, "fkcs": [], "extra": [], "idx": [1]}, {"id": 2, "fkcs": [], "extra": [], "idx": []}]
            fid = 10
            for (a, b), k in zip(pairs, combo):
                if k is not None:
                    fid += 1
                    tables[a]["fkcs"].append({"id": fid, "ref": b + 1, "ua": k[0], "named": k[1], "via": "fkc", "ncols": 1})
            yield tables
    if three:
        pairs = [(a, b) for a in range(3) for b in range(3)]
        for mask in range(1 << 9):
            tables = [{"id": i + 1, "fkcs": [], "extra": [], "idx": []} for i in range(3)]
            for k, (a, b) in enumerate(pairs):
                if mask >> k & 1:
                    tables[a]["fkcs"].append({"id": 20 + k, "ref": b + 1, "ua": False, "named": True, "via": "col", "ncols": 1})
            yield tables


# ------------------------------------------------------------------ the check
def check_spec(ctx, spec_tables, steps_strict, steps_sqlite, dialects, acc, report=True):
    """runs everything for one schema; appends correspondence rows to acc; returns violations"""
    found = []
    spec = {"tables": spec_tables}
    impl, reqs, bad = run_sorts(spec)
    for k, (i, r) in enumerate(zip(impl, reqs)):
        acc["cases"].append({"tables": spec_tables, "what": r.split(" ")[1] + ":" + r.split(" ")[2]})
        acc["impl"].append(i)
        acc["reqs"].append(r)
        acc["post"].append(None)
    for key, detail in bad:
        found.append((key, {"tables": spec_tables, "mode": "sort"}, detail))
    if steps_strict:
        sp = {"tables": spec_tables, "steps": steps_strict}
        for d in dialects:
            res = run_script_mock(sp, d)
            lines = []
            for toks, err in res:
                if err in ("circular",):
                    lines.append("circular")
                elif err is not None:
                    lines.append(canon_line(toks) + " !" + err)
                else:
                    lines.append(canon_line(toks))
            acc["cases"].append({"tables": spec_tables, "steps": steps_strict, "dialect": d})
            acc["impl"].append(lines)
            acc["reqs"].append("ddl script 1 %s %s" % (enc_tables(spec_tables), enc_steps(steps_strict)))
            acc["post"].append("strict")
            for key, detail in oracle_mock(sp, res, d):
                found.append((key, {"tables": spec_tables, "steps": steps_strict, "mode": "mock", "dialect": d}, detail))
    if steps_sqlite:
        sp = {"tables": spec_tables, "steps": steps_sqlite}
        res = run_script_sqlite(sp)
        lines = []
        for toks, err, cat in res:
            if err == "circular":
                lines.append("circular")
            elif err is not None:
                lines.append(canon_line(toks[:-1] if err == "operational" and toks else toks) + " !")
                break
            else:
                lines.append(canon_line(toks))
        acc["cases"].append({"tables": spec_tables, "steps": steps_sqlite, "dialect": "sqlite"})
        acc["impl"].append(lines)
        acc["reqs"].append("ddl script 0 %s %s" % (enc_tables(spec_tables), enc_steps(steps_sqlite)))
        acc["post"].append("sqlite")
        for key, detail in oracle_sqlite(sp, res):
            found.append((key, {"tables": spec_tables, "steps": steps_sqlite, "mode": "sqlite"}, detail))
    if report:
        for key, case, detail in found:
            ctx.violation(key, case, detail)
    return found


def post_model(kind, line, impl_lines):
    """bring the model's script output to the shape of the implementation's"""
    if kind is None:
        return line
    parts = line.split(" ## ")
    steps = [canon_model_step(p) for p in parts if not p.startswith("#")]
    if kind == "strict":
        # the mock engine does not execute: the implementation lines carry no backend verdict.
        # A strict rejection in the model is reported by the oracle on the implementation side
        # (same DDL); here only the emitted DDL is compared, so drop the verdict and the cut.
        return steps
    return steps


def flush(ctx, acc, name):
    if not acc["reqs"] or not ctx.driver_ok():
        return
    outs = ctx.driver(acc["reqs"])
    impl_c, model_c = [], []
    for kind, i, o in zip(acc["post"], acc["impl"], outs):
        if kind is None:
            impl_c.append(i)
            model_c.append(o)
            continue
        steps = post_model(kind, o, i)
        if kind == "strict":
            # compare step by step up to the first strict rejection in the model (after a
            # rejection the model stops, the mock engine keeps emitting)
            cut = len(steps)
            for k, s in enumerate(steps):
                if s.endswith("!"):
                    cut = k
                    break
            ii = [x for x in i[:cut]]
            mm = steps[:cut]
            # a compile error in the implementation (unnamed DROP CONSTRAINT) is `none` in the
            # model's exec, i.e. a rejection: both sides are cut there
            ii2 = []
            for x in ii:
                if " !" in x:
                    break
                ii2.append(x)
            if len(ii2) < len(ii):
                mm = mm[: len(ii2)]
            impl_c.append(" ## ".join(ii2))
            model_c.append(" ## ".join(mm))
        else:
            impl_c.append(" ## ".join(i))
            model_c.append(" ## ".join(steps))
    ctx.correspond(name, acc["cases"], impl_c, model_c)
    for k in acc:
        del acc[k][:]


def new_acc():
    return {"cases": [], "impl": [], "reqs": [], "post": []}


# ---- one MetaData that keeps changing (direct oracle) -------------------------------------------
# ops: ("T", i) add table ti   ("F", i, j, how) add a foreign key ti -> tj to the EXISTING table ti
#      (how: 0 append_constraint, 1 append_column(Column(ForeignKey)), 2 Table(extend_existing))
#      ("X", i) metadata.remove(ti)   ("S",) read sorted_tables / sort_tables_and_constraints
# Only acyclic graphs; after every op sorted_tables and the CREATE order must be a permutation of the
# tables that puts the referred table first for EVERY foreign key present at that moment.
EVOLVE_DIRECTED = [
    [("T", 0), ("T", 1), ("S",), ("F", 0, 1, 0), ("S",)],
    [("T", 0), ("T", 1), ("T", 2), ("S",), ("F", 1, 2, 1), ("S",), ("F", 0, 1, 2), ("S",)],
    [("T", 2), ("T", 1), ("T", 0), ("F", 2, 1, 0), ("S",), ("X", 1), ("S",), ("T", 1), ("F", 0, 1, 1), ("F", 1, 2, 0), ("S",)],
]


def evolve_gen(rng):
    ops, live, edges = [], set(), set()

    def reach(a, b):
        seen, todo = set(), [a]
        while todo:
            x = todo.pop()
            if x == b:
                return True
            if x not in seen:
                seen.add(x)
                todo.extend(d for (c, d) in edges if c == x)
        return False

    for _ in range(rng.randint(4, 14)):
        r = rng.random()
        free = [i for i in range(6) if i not in live]
        if (r < 0.3 or len(live) < 2) and free:
            i = rng.choice(free)
            live.add(i)
            ops.append(("T", i))
        elif r < 0.7 and len(live) >= 2:
            i, j = rng.sample(sorted(live), 2)
            if not reach(j, i):  # ti -> tj keeps the graph acyclic
                edges.add((i, j))
                ops.append(("F", i, j, rng.randrange(3)))
        elif r < 0.78 and live:
            i = rng.choice(sorted(live))
            live.discard(i)
            edges = {(c, d) for (c, d) in edges if c != i and d != i}
            ops.append(("X", i))
        ops.append(("S",))
    return ops


def evolve_run(ops):
    """-> list of (op index, detail) problems"""
    from sqlalchemy import MetaData, Table, Column, Integer, ForeignKey, ForeignKeyConstraint
    from sqlalchemy.sql import ddl

    m = MetaData()
    tabs, nfk, probs = {}, 0, []
    for k, op in enumerate(ops):
        if op[0] == "T":
            tabs[op[1]] = Table("t%d" % op[1], m, Column("id", Integer, primary_key=True))
        elif op[0] == "X":
            t = tabs.pop(op[1], None)
            if t is not None:
                m.remove(t)
                for o in tabs.values():  # an FK to a removed table would be unresolvable: drop it, as an application must
                    for c in [c for c in o.constraints if isinstance(c, ForeignKeyConstraint) and c.elements[0].target_fullname.startswith(t.name + ".")]:
                        o.constraints.discard(c)
                        for e in c.elements:
                            e.parent.foreign_keys.discard(e)
                            o.foreign_keys.discard(e)
        elif op[0] == "F":
            i, j, how = op[1:]
            if i not in tabs or j not in tabs:
                continue
            nfk += 1
            col = "r%d" % nfk
            if how == 0:
                tabs[i].append_column(Column(col, Integer))
                tabs[i].append_constraint(ForeignKeyConstraint([col], ["t%d.id" % j]))
            elif how == 1:
                tabs[i].append_column(Column(col, Integer, ForeignKey("t%d.id" % j)))
            else:
                Table("t%d" % i, m, Column(col, Integer, ForeignKey("t%d.id" % j)), extend_existing=True)
        else:
            want = sorted(t.name for t in tabs.values())
            orders = {"sorted_tables": [t.name for t in m.sorted_tables],
                      "sort_tables_and_constraints": [t.name for t, _ in ddl.sort_tables_and_constraints(list(m.tables.values())) if t is not None]}
            for what, order in orders.items():
                if sorted(order) != want:
                    probs.append((k, "%s is not a permutation of the tables: %s vs %s" % (what, order, want)))
                    continue
                for t in tabs.values():
                    for fk in t.foreign_keys:
                        ref = fk.column.table.name
                        if ref != t.name and order.index(ref) > order.index(t.name):
                            probs.append((k, "%s lists %s before %s although %s.%s references %s: %s" % (what, t.name, ref, t.name, fk.parent.name, ref, order)))
    return probs


def evolve_block(ctx, n):
    seqs = [list(o) for o in EVOLVE_DIRECTED]
    for i in range(n):
        seqs.append(evolve_gen(random.Random("C14:evolve:%d:%d" % (ctx.seed, i))))
    for ops in seqs:
        ops = [tuple(o) for o in ops]
        probs = evolve_run(ops)
        ctx.case(("evolve", repr(ops)), nontrivial=sum(1 for o in ops if o[0] == "F") > 0)
        ctx.count("evolving-metadata")
        if probs:
            k, detail = probs[0]
            ctx.violation("order-stale-after-metadata-change", {"evolve": [list(o) for o in ops[: k + 1]]}, detail)


def run(ctx, deep=False):
    thorough = ctx.tier == "thorough" or deep
    ctx.rule = (
        "exhaustive: all FK graphs on 2 tables with each ordered pair none/named/unnamed/use_alter (256) and on 3 tables "
        "none/named (512; thorough adds scripts on all five ALTER dialects); random schemas <=6 (quick) / <=9 (thorough) tables of shapes "
        "random/dag/cycle/dense/twins (several constraints to one target) with self references, use_alter, unnamed constraints, "
        "1- and 2-column FKs, column- and table-level construction, add_is_dependent_on, indexes; scripts of create_all/drop_all with "
        "tables= subsets (ALTER dialects) and checkfirst on/off on real SQLite; a case is non-trivial when the schema has >=1 FK"
    )
    ctx.trusted.append("strict backend = model of PostgreSQL's referenced-table-existence rule (PostgreSQL itself cannot run here)")
    ctx.trusted.append("DDL text -> abstract op tokenizer in harness/props/c14.py (regex over the compiled statements)")
    ctx.assumptions.append("sequences, views, comments and schemas are outside the model")
    acc = new_acc()
    rng = ctx.rng
    n_small = 0
    for tables in small_schemas(True, True):
        n_small += 1
        nfk = sum(len(t["fkcs"]) for t in tables)
        ctx.case(("small", enc_tables(tables)), nontrivial=nfk > 0)
        ctx.count("small-scope")
        dialects = ALTER_DIALECTS if thorough else [ALTER_DIALECTS[n_small % len(ALTER_DIALECTS)]]
        steps = [("C", 0, None), ("D", 0, None)]
        if n_small % 3 == 1:
            steps = [("C", 0, None), ("C", 1, None), ("D", 1, None), ("D", 1, None)]
        if n_small % 3 == 0:
            sub = closed_subset(rng, tables, set(), True)
            rest = [t["id"] for t in tables if t["id"] not in sub]
            steps = steps + [("C", 0, sub)] + ([("C", 0, rest)] if rest else []) + [("D", 0, None)]
        check_spec(ctx, tables, steps, [("C", 1, None), ("D", 1, None)] if (thorough or n_small % 4 == 0) else None, dialects, acc)
    flush(ctx, acc, "corr/c14:small-scope-vs-Model.Ddl")
    nrand = 6000 if thorough else 700
    maxn = 9 if thorough else 6
    for k in range(nrand):
        tables = gen_schema(rng, maxn)
        with_sqlite = (k % 2 == 0) if not thorough else (k % 3 != 0)
        if not with_sqlite and rng.random() < 0.35:
            tables = add_twins(rng, tables)
            ctx.count("schema-twin")
        nfk = sum(len(t["fkcs"]) for t in tables)
        ss = gen_steps_strict(rng, tables)
        sq = gen_steps_sqlite(rng, tables) if with_sqlite else None
        dialects = ALTER_DIALECTS if (thorough and k % 4 == 0) else [rng.choice(ALTER_DIALECTS)]
        ctx.case(("rand", enc_tables(tables), enc_steps(ss)), nontrivial=nfk > 0)
        ctx.count("tables=%d" % len(tables))
        ctx.count("fks=%s" % (nfk if nfk < 8 else ">=8"))
        cyc = on_cycle([t["id"] for t in tables], [(f["ref"], t["id"]) for t in tables for f in t["fkcs"] if f["ref"] != t["id"]])
        ctx.count("cyclic" if cyc else "acyclic")
        ctx.count("steps=%d" % len(ss))
        found = check_spec(ctx, tables, ss, sq, dialects, acc)
        if nfk >= 3 and cyc and not found:
            ctx.sample({"tables": enc_tables(tables), "steps": enc_steps(ss)})
        if len(acc["reqs"]) > 4000:
            flush(ctx, acc, "corr/c14:random-scripts-vs-Model.Ddl")
    flush(ctx, acc, "corr/c14:random-scripts-vs-Model.Ddl")
    evolve_block(ctx, 4000 if thorough else 600)
    ctx.exhaustive = False


def search(ctx, broken):
    sub = type(ctx)(ctx.pid, "thorough", ctx.seed + 1, ctx.level)
    # first the disagreeing correspondence cases themselves
    acc = new_acc()
    for d in ctx.disagreements:
        c = d["case"]
        if "tables" in c:
            for key, case, detail in check_spec(sub, c["tables"], c.get("steps") if c.get("dialect") != "sqlite" else None,
                                                c.get("steps") if c.get("dialect") == "sqlite" else None,
                                                ALTER_DIALECTS, acc, report=False):
                ctx.violation(key, case, detail)
    if ctx.violations:
        return
    run(sub, deep=True)
    ctx.violations.extend(sub.violations)


def replay(ctx, obj):
    c = obj["case"]
    if "evolve" in c:
        probs = evolve_run([tuple(o) for o in c["evolve"]])
        print("replay C14 evolving metadata %s -> %s" % (c["evolve"], probs or "no violation"))
        return bool(probs)
    tables = c["tables"]
    steps = [tuple(s) for s in c.get("steps", [])] or None
    acc = new_acc()
    mode = c.get("mode")
    found = check_spec(
        ctx,
        tables,
        steps if mode == "mock" else ([("C", 0, None), ("D", 0, None)] if mode == "sort" else None),
        steps if mode == "sqlite" else None,
        [c["dialect"]] if c.get("dialect") and c.get("dialect") != "sqlite" else ALTER_DIALECTS,
        acc,
        report=False,
    )
    for key, case, detail in found:
        print("replay C14: %s: %s" % (key, detail))
    want = obj.get("key")
    return any(k == want for k, _, _ in found) if want and want != "broken-obligation" else bool(found)
