"""C11 — Row lookup by column expression returns that expression's value.

Model:    lean/SaVerif/Model/RowKeys.lean (CursorResultMetaData keymap construction, duplicate
          detection, the four _merge_cursor_description strategies, _index_for_key)
Theorems: lean/SaVerif/Props/C11.lean
Check:    generated SELECTs over joined single-row tables with colliding column names, labels,
          expressions, repeated columns, text columns, label styles, subquery / CTE / union
          wrappers, label_length truncation, textual selects and raw SQL, executed on SQLite
          with a distinct value per expression; plus sequences of statements built from ONE shared
          pool of expression objects (anonymous expressions differing only in bound literals, labels,
          columns of anonymous aliases, bound literals, objects selected twice) at permuted positions /
          subsets, executed through one compiled cache (cache hits re-target the cached metadata);
          (1) direct oracle: every probe key (selected objects, result keys, labels, legacy
              table_column keys, attribute access, garbage) must return the value of a position
              it denotes, raise when it denotes positions with different values, and succeed
              when it denotes exactly one;
          (2) correspondence: compiled._result_columns + cursor.description + flags fed to the
              Lean model, compared with the real _keys and _index_for_key on every key of the
              real keymap.
"""
import json
import warnings

PID = "C11"
LEVEL = "proof"
LEAN = ["SaVerif.Props.C11"]
META = {
    "text": "Lean theorems about the transcribed keymap construction of CursorResultMetaData, for any list of result-column records: a successful lookup lands on a record that carries the key (found_carries); when duplicate names force the duplicate scan, a key carried by two positions is reported ambiguous and a found key is carried by no other position (ambiguous_raises, dupes_sound); on the common no-duplicate-names path the same holds when the records' keys are disjoint (nodupes_sound_partial; counterexample = finding: a legacy table_column string key shared by two columns silently resolves to the last one); a key carried by exactly one position is found there (unique_key_found); positional merge keeps positions. The model is tied to the code by a differential run over generated SELECTs executed on SQLite (all four merge strategies), and the property itself is checked on the rows by an independent oracle with per-expression distinguishable values.",
    "note": "Trusted: Lean kernel; the correspondence harness; SQLite's cursor.description names. Modelled-not-verified: the compiler's population of _result_columns (taken as input from the real compiler on every generated statement), result processors, driver_column_names / translate_colname, pickled metadata (C51). By-name matching is exercised on SQLite only. _partial: nodupes_sound_partial (needs disjoint record keys).",
    "technique": "Lean 4 proofs over a transcription of the keymap algorithm + differential correspondence on generated statements + value-level oracle on SQLite",
    "design_ref": "DESIGN.md §3 C11",
}

TABLES = {
    "t": ["a", "b", "a_b", "long_column_name_number_one"],
    "u": ["a", "b", "d", "long_column_name_number_one"],
    "t_a": ["b", "c"],
}
TVAL = {"t": 100, "u": 200, "t_a": 300}
LABELS = ["a", "b", "x", "a_1", "t_a", "c", "t_a_b", "long_label_name_for_truncation_x", "long_label_name_for_truncation_y"]


def colval(t, c):
    return TVAL[t] + TABLES[t].index(c) + 1


class Env:
    def __init__(self):
        import sqlalchemy as sa

        self.sa = sa
        self.engines = {}
        self.md = sa.MetaData()
        self.tables = {
            name: sa.Table(name, self.md, *[sa.Column(c, sa.Integer) for c in cols]) for name, cols in TABLES.items()
        }

    def conn(self, label_length):
        sa = self.sa
        if label_length not in self.engines:
            kw = {} if label_length is None else {"label_length": label_length}
            e = sa.create_engine("sqlite://", **kw)
            c = e.connect()
            self.md.create_all(c)
            for name, cols in TABLES.items():
                c.execute(self.tables[name].insert(), {col: colval(name, col) for col in cols})
            self.engines[label_length] = (e, c)
        return self.engines[label_length][1]

    def close(self):
        for e, c in self.engines.values():
            c.close()
            e.dispose()


# ------------------------------------------------------------------ statement construction
def build_elems(env, specs):
    """-> (elements, values, used tables, expected primary string key or None)"""
    sa = env.sa
    elems, vals, used = [], [], []
    for s in specs:
        k = s["kind"]
        if k == "rep":
            elems.append(elems[s["of"]])
            vals.append(vals[s["of"]])
            continue
        if k == "lit":
            elems.append(sa.literal_column(str(s["v"])).label(s["name"]))
            vals.append(s["v"])
            continue
        t, c = s["t"], s["c"]
        col = env.tables[t].c[c]
        if t not in used:
            used.append(t)
        if k == "col":
            elems.append(col)
            vals.append(colval(t, c))
        elif k == "lab":
            elems.append(col.label(s["name"]))
            vals.append(colval(t, c))
        elif k == "expr":
            e = col + s["k"]
            elems.append(e if s.get("name") is None else e.label(s["name"]))
            vals.append(colval(t, c) + s["k"])
        elif k == "text":
            elems.append(sa.text("%s.%s" % (t, c)))
            vals.append(colval(t, c))
        else:
            raise ValueError(k)
    return elems, vals, used


def build_select(env, case):
    """-> (statement, elements whose identity denotes positions, expected values)"""
    sa = env.sa
    styles = {
        "none": sa.LABEL_STYLE_NONE,
        "dis": sa.LABEL_STYLE_DISAMBIGUATE_ONLY,
        "tq": sa.LABEL_STYLE_TABLENAME_PLUS_COL,
    }
    elems, vals, used = build_elems(env, case["elems"])

    def sel(elems, used):
        st = sa.select(*elems)
        if used:
            st = st.select_from(env.tables[used[0]])
            for t in used[1:]:
                st = st.join(env.tables[t], sa.true())
        return st

    stmt = sel(elems, used).set_label_style(styles[case["style"]])
    wrap = case.get("wrap")
    if wrap in ("subq", "cte"):
        inner = stmt.subquery("sq") if wrap == "subq" else stmt.cte("ct")
        cols = list(inner.c)
        if len(cols) != len(elems):
            return None
        pick = case["outer"]
        oelems = [cols[i] for i in pick]
        ovals = [vals[i] for i in pick]
        ostmt = sa.select(*oelems).set_label_style(styles[case.get("ostyle", "dis")])
        return ostmt, oelems, ovals
    if wrap == "union":
        elems2, vals2, used2 = build_elems(env, case["elems2"])
        stmt2 = sel(elems2, used2).where(sa.false())
        un = sa.union_all(stmt.set_label_style(sa.LABEL_STYLE_DISAMBIGUATE_ONLY), stmt2)
        return un, list(un.selected_columns), vals
    return stmt, elems, vals


def build_textual(env, case):
    sa = env.sa
    cols = case["cols"]  # [(t, c)] selected by the SQL text, in order
    sql = "select %s from %s" % (
        ", ".join("%s.%s" % (t, c) + (" as %s" % al if al else "") for t, c, al in cols),
        " cross join ".join(sorted({t for t, _, _ in cols})))
    vals = [colval(t, c) for t, c, _ in cols]
    mode = case["mode"]
    if mode == "raw":
        return sql, [], vals
    txt = sa.text(sql)
    if mode == "positional":
        objs = [env.tables[t].c[c] for t, c, _ in cols[: case["ncols"]]]
        return txt.columns(*objs), objs, vals
    if mode == "adhoc":
        objs = [sa.column(al or c) for t, c, al in cols[: case["ncols"]]]
        return txt.columns(*objs), objs, vals
    if mode == "mixed":
        # column objects plus a keyword type: not positional -> name matching ("loose")
        objs = [env.tables[t].c[c] for t, c, _ in cols[: case["ncols"]]]
        return txt.columns(*objs, zz_unused=sa.Integer), objs, vals
    if mode == "named":
        names = [al or c for t, c, al in cols[: case["ncols"]]]
        if len(set(names)) != len(names):
            return None
        order = case.get("order") or list(range(len(names)))
        return txt.columns(**{names[i]: sa.Integer for i in order}), [], vals
    raise ValueError(mode)


# ------------------------------------------------------------------ execution and probes
def classify_exc(e):
    from sqlalchemy import exc

    if isinstance(e, exc.InvalidRequestError) and "Ambiguous" in str(e):
        return "A"
    if isinstance(e, (exc.NoSuchColumnError, KeyError, AttributeError)):
        return "M"
    return "X:%s:%s" % (type(e).__name__, str(e)[:80])


def lookup_row(row, k):
    try:
        return ("V", row._mapping[k])
    except Exception as e:  # noqa: BLE001
        return (classify_exc(e), None)


def execute(env, case):
    """-> dict with everything observed, or None when the case is not constructible"""
    conn = env.conn(case.get("label_length"))
    try:
        with warnings.catch_warnings():
            warnings.simplefilter("ignore")
            if case["family"] == "select":
                built = build_select(env, case)
            else:
                built = build_textual(env, case)
    except Exception as e:  # noqa: BLE001 - construction-time rejection
        return {"error": "%s: %s" % (type(e).__name__, str(e)[:200])}
    if built is None:
        return None
    stmt, elems, vals = built
    with warnings.catch_warnings():
        warnings.simplefilter("ignore")
        try:
            res = conn.exec_driver_sql(stmt) if isinstance(stmt, str) else conn.execute(stmt)
        except Exception as e:  # noqa: BLE001
            return {"error": "%s: %s" % (type(e).__name__, str(e)[:200])}
        md = res._metadata
        ectx = res.context
        adapted = None
        if (ectx.compiled is not None and getattr(ectx.compiled, "_result_columns", None)
                and not ectx.execution_options.get("_result_disable_adapt_to_context", False)
                and ectx.cache_hit is ectx.dialect.CACHE_HIT
                and ectx.compiled.statement is not ectx.invoked_statement):
            # CursorResult._init_metadata ran _adapt_to_context for this execution
            adapted = list(ectx.invoked_statement._all_selected_columns)
        desc = [d[0] for d in res.cursor.description]
        struct = res.context.result_column_struct
        keys = list(res.keys())
        row = res.first()
        # Result.columns(<int>) must keep the key and the value of that position
        colproj = []
        if not isinstance(stmt, str):
            for i in sorted({0, len(keys) // 2, len(keys) - 1}):
                try:
                    r2 = conn.execute(stmt).columns(i)
                    k2 = list(r2.keys())
                    v2 = r2.first()
                    colproj.append((i, k2, tuple(v2) if v2 is not None else None))
                except Exception as e:  # noqa: BLE001
                    colproj.append((i, classify_exc(e), None))
    return {"colproj": colproj, "stmt": stmt, "elems": elems, "vals": vals, "md": md, "desc": desc, "struct": struct,
            "keys": keys, "row": row, "conn": conn, "adapted": adapted}


def shared_without_scan(ob, k):
    """classification only: the statement went through the positional merge with pairwise
    distinct primary names (so CursorResultMetaData skipped its duplicate scan) and key k is
    carried — as rendered name or MD_OBJECTS entry — by two different positions.  This is
    exactly the negation of the hypothesis of Props.C11.nodupes_sound_partial."""
    st = ob["struct"]
    if not st:
        return False
    rcs, ordered, tord, adhoc, _loose = st
    desc = ob["desc"]
    if len(desc) != len(rcs):
        return False
    if ordered and not tord:
        names = [rc.name for rc in rcs]           # positional merge: MD_LOOKUP_KEY = RM_NAME
    elif tord or adhoc:
        names = list(desc)                        # textual positional: names from cursor.description
    else:
        return False
    if len(set(names)) != len(rcs):
        return False                              # duplicate primary names: the scan runs

    def same(a, b):
        return (a == b) if (isinstance(a, str) and isinstance(b, str)) else (a is b)

    n = 0
    for i, rc in enumerate(rcs):
        rendered = rc.keyname if (ordered and not tord) else desc[i]
        if same(k, rendered) or any(same(k, o) for o in rc.objects):
            n += 1
    return n >= 2


def oracle(case, ob):
    """the property on the real row; returns list of (key-classification, detail)"""
    bad = []
    row, vals, elems, keys = ob["row"], ob["vals"], ob["elems"], ob["keys"]
    if row is None:
        return [("c11-oracle:no-row", "statement returned no row")]
    if list(row) != list(vals):
        bad.append(("c11-oracle:positional-values", "row %r, expected %r" % (tuple(row), vals)))
        return bad
    if len(keys) != len(vals):
        bad.append(("c11-oracle:keys-length", "keys %r for %d columns" % (keys, len(vals))))
        return bad
    n = len(vals)
    for i, k2, v2 in ob.get("colproj", []):
        dup_name = keys.count(keys[i]) > 1
        via_name = "columns-by-integer-index-resolved-through-ambiguous-name"
        if isinstance(k2, str):
            key = via_name if k2 == "A" else "c11-oracle:columns-int-index-raised"
            bad.append((key, "result.columns(%d) raised (%s) although an integer index is unambiguous; keys %r" % (i, k2, keys)))
        elif v2 != (vals[i],):
            key = via_name if (dup_name or shared_without_scan(ob, keys[i])) else "c11-oracle:columns-int-index-wrong-value"
            bad.append((key, "result.columns(%d) -> %r, expected %r; keys %r" % (i, v2, (vals[i],), keys)))
        elif k2 != [keys[i]]:
            # right value, other key: _reduce takes the key from MD_LOOKUP_KEY (anonymous / untruncated name)
            bad.append(("columns-projection-renames-key-to-lookup-name",
                        "result.columns(%d).keys() -> %r, result.keys()[%d] is %r" % (i, k2, i, keys[i])))
    probes = []  # (kind, key, denoted positions, primary?)
    seen_obj = []
    for p, e in enumerate(elems):
        if any(e is o for o in seen_obj):
            continue
        seen_obj.append(e)
        den = [q for q in range(len(elems)) if elems[q] is e]
        if case.get("mode") == "mixed":
            # name matching: the object stands for the result column(s) bearing its name
            den = [q for q in range(n) if keys[q] == e.name]
        # text() elements carry no addressable identity in the row
        # and by-name matching of a textual select cannot tell equally named columns apart
        primary = type(e).__name__ != "TextClause" and case.get("mode") != "mixed"
        probes.append(("object", e, den, primary))
    for k in dict.fromkeys(keys):
        if k is None:
            continue
        probes.append(("string", k, [q for q in range(n) if keys[q] == k], True))
    # legacy "<table>_<column>" keys of plain table columns
    tq = {}
    if case["family"] == "select" and not case.get("wrap"):
        for p, s in enumerate(case["elems"]):
            src = case["elems"][s["of"]] if s["kind"] == "rep" else s
            if src["kind"] == "col":
                tq.setdefault("%s_%s" % (src["t"], src["c"]), []).append(p)
        for k, den in tq.items():
            if k not in keys:
                probes.append(("legacy", k, den, False))
    probes.append(("garbage", "zz_no_such_key", [], False))
    # alternative string names SQLAlchemy attaches to a position besides its result key
    alt = {}
    if case["family"] == "text" and case["mode"] in ("positional", "adhoc", "mixed"):
        for p, (t, c, al) in enumerate(case["cols"][: case["ncols"]]):
            for nm in ([c, "%s_%s" % (t, c)] if case["mode"] in ("positional", "mixed") else [al or c]):
                alt.setdefault(nm, []).append(p)
    for nm, ps in tq.items():
        alt.setdefault(nm, []).extend(ps)
    for e_pos, e in enumerate(elems):
        for attr in ("name", "key", "_tq_label", "_tq_key_label"):
            nm = getattr(e, attr, None)
            if isinstance(nm, str):
                alt.setdefault(str(nm), []).append(e_pos)
    legacy_shared = False
    for kind, k, den, primary in probes:
        out, v = lookup_row(row, k)
        dvals = sorted({vals[q] for q in den})
        ks = k if isinstance(k, str) else "<%s %s>" % (type(k).__name__, getattr(k, "name", ""))
        if out.startswith("X"):
            bad.append(("c11-oracle:unexpected-exception", "%s key %s: %s" % (kind, ks, out)))
            continue
        if out == "V" and v not in dvals:
            key = "c11-oracle:wrong-column:%s" % kind
            if shared_without_scan(ob, k):
                key = "key-shared-by-two-positions-without-duplicate-scan-last-wins"
            bad.append((key,
                        "%s key %s returned %r, the positions it denotes hold %r (row %r)" % (kind, ks, v, dvals, tuple(row))))
        elif out == "V" and len(dvals) >= 2:
            key = "c11-oracle:ambiguous-not-raised:%s" % kind
            if shared_without_scan(ob, k):
                key = "key-shared-by-two-positions-without-duplicate-scan-last-wins"
            if kind == "string" and not ob["struct"]:
                key = "raw-sql-duplicate-column-names-last-wins"
            elif (case["family"] == "text" and ob["struct"] and len(set(ob["desc"])) != len(ob["desc"])
                  and len(set(ob["desc"])) == len(ob["struct"][0])):
                # `len(by_key) != num_ctx_cols`: the distinct description names happen to be as
                # many as the declared columns, so the duplicate goes unnoticed
                key = "textual-extra-columns-duplicate-name-check-uses-num-ctx-cols"
            bad.append((key, "%s key %s denotes positions %r with values %r but returned %r" % (kind, ks, den, dvals, v)))
        elif primary and len(den) == 1 and out == "A" and kind == "string" and (
                any(q not in den for q in alt.get(k, []))
                or (ob["struct"] and any(k in [o for o in rc.objects if isinstance(o, str)]
                                         for i, rc in enumerate(ob["struct"][0]) if i not in den))):
            pass  # the key is also an alternative name of another position: raising is the safe answer
        elif (primary and kind == "object" and len(den) > 1 and len(dvals) == 1 and out != "V"
              and case["family"] == "select" and case["style"] != "none" and not case.get("wrap")):
            # the same object selected twice is de-duplicated by the compiler (#11306): it stays addressable
            bad.append(("c11-oracle:repeated-object-not-addressable",
                        "object key %s selected at positions %r gave %s" % (ks, den, out)))
        elif primary and len(den) == 1 and out != "V":
            bad.append(("c11-oracle:unambiguous-key-failed:%s" % kind,
                        "%s key %s denotes only value %r but lookup gave %s" % (kind, ks, dvals[0], out)))
        elif not den and kind == "garbage" and out != "M":
            bad.append(("c11-oracle:garbage-key", "garbage key gave %s" % out))
        # attribute access follows the same map
        if isinstance(k, str) and k.isidentifier() and not k.startswith("_") and k not in ("count", "index"):
            try:
                av = ("V", getattr(row, k))
            except Exception as e:  # noqa: BLE001
                av = (classify_exc(e), None)
            if (av[0], av[1]) != (out, v):
                bad.append(("c11-oracle:attribute-vs-mapping", "row.%s -> %r but row._mapping[...] -> %r" % (k, av, (out, v))))
    return bad


def model_request(ob):
    """driver line + the probe keys + impl answers for the correspondence"""
    md, struct, desc = ob["md"], ob["struct"], ob["desc"]
    ids = {}

    def kid(k):
        return ids.setdefault(k, len(ids) + 1)

    if struct:
        rcs, ordered, tord, adhoc, loose = struct
    else:
        rcs, ordered, tord, adhoc, loose = [], False, False, False, False
    toks = []
    for rc in rcs:
        toks.append("%d/%d/%s" % (kid(rc.keyname), kid(rc.name), ".".join(str(kid(o)) for o in rc.objects)))
    dtok = ",".join(str(kid(d)) for d in desc) if desc else "-"
    if ob.get("adapted") is None:
        atok = "N"
    else:
        atok = ",".join(str(kid(c)) for c in ob["adapted"]) if ob["adapted"] else "-"
    probes = list(dict.fromkeys(list(md._keymap.keys()) + list(ids.keys())))
    probes = [k for k in probes if not isinstance(k, int)]
    ptok = ",".join(str(kid(k)) for k in probes) if probes else "-"
    flags = "".join("1" if b else "0" for b in (ordered, tord, adhoc, loose))
    line = "rowkeys lookup %s %s %s %s %s" % (flags, ",".join(toks) if toks else "-", dtok, atok, ptok)
    ans = []
    for k in probes:
        try:
            i = md._index_for_key(k, True)
            ans.append("F%d" % i)
        except Exception as e:  # noqa: BLE001
            ans.append(classify_exc(e))
    impl = "K" + ".".join(str(kid(k)) for k in md._keys) + ";" + ",".join(ans)
    if ob.get("adapted") is None:
        impl += ";" + ",".join(ans)   # the model answers twice: declarative lookup and ordered dict
    return line, impl


# ------------------------------------------------------------------ generators
def gen_elem(rng, nprev):
    r = rng.random()
    t = rng.choice(list(TABLES))
    c = rng.choice(TABLES[t])
    if r < 0.40:
        return {"kind": "col", "t": t, "c": c}
    if r < 0.58:
        return {"kind": "lab", "t": t, "c": c, "name": rng.choice(LABELS + [c])}
    if r < 0.70:
        return {"kind": "expr", "t": t, "c": c, "k": rng.choice([1000, 2000, 3000]),
                "name": rng.choice([None, None] + LABELS)}
    if r < 0.78:
        return {"kind": "lit", "v": rng.choice([7, 8, 9]), "name": rng.choice(LABELS)}
    if r < 0.84:
        return {"kind": "text", "t": t, "c": c}
    if nprev:
        return {"kind": "rep", "of": rng.randrange(nprev)}
    return {"kind": "col", "t": t, "c": c}


def gen_case(rng):
    ll = rng.choice([None, None, None, 8, 12, 20])
    if rng.random() < 0.8:
        n = rng.choice([1, 2, 2, 3, 3, 4, 5, 6])
        elems = []
        for _ in range(n):
            elems.append(gen_elem(rng, len(elems)))
        case = {"family": "select", "label_length": ll, "style": rng.choice(["none", "dis", "dis", "dis", "tq", "tq"]),
                "elems": elems}
        nat = [e.get("name") or e.get("c") for e in elems if e["kind"] != "rep"]
        plain = (all(e["kind"] not in ("rep", "text") for e in elems)
                 and len(set(nat)) == len(nat) and all(x is not None for x in nat))
        r = rng.random() if plain else 1.0
        if r < 0.22:
            # text() elements and duplicate names are not meaningful inside a named FROM object
            if all(e["kind"] != "text" for e in elems) and case["style"] != "none":
                case["wrap"] = rng.choice(["subq", "cte"])
                case["outer"] = [rng.randrange(n) for _ in range(rng.randint(1, n + 1))]
                case["ostyle"] = rng.choice(["none", "dis", "tq"])
        elif r < 0.30:
            if all(e["kind"] != "text" for e in elems):
                case["wrap"] = "union"
                case["elems2"] = [{"kind": "lit", "v": 1, "name": "z%d" % i} for i in range(n)]
        return case
    cols = []
    for _ in range(rng.choice([1, 2, 3, 4])):
        t = rng.choice(list(TABLES))
        c = rng.choice(TABLES[t])
        cols.append((t, c, rng.choice([None, None, "x", "a", "b"])))
    mode = rng.choice(["raw", "positional", "adhoc", "named", "mixed"])
    case = {"family": "text", "label_length": ll, "mode": mode, "cols": cols,
            "ncols": rng.randint(1, len(cols))}
    if mode == "named":
        order = list(range(case["ncols"]))
        rng.shuffle(order)
        case["order"] = order
    return case


FIXED = [
    # the legacy "<table>_<column>" key shared by t.a_b and t_a.b (no duplicate names)
    {"family": "select", "label_length": None, "style": "dis",
     "elems": [{"kind": "col", "t": "t", "c": "a_b"}, {"kind": "col", "t": "t_a", "c": "b"}]},
    # duplicate names: ambiguous string key, objects still resolve
    {"family": "select", "label_length": None, "style": "none",
     "elems": [{"kind": "col", "t": "t", "c": "a"}, {"kind": "col", "t": "u", "c": "a"},
               {"kind": "expr", "t": "t", "c": "b", "k": 1000, "name": "a"}]},
    {"family": "text", "label_length": None, "mode": "raw", "cols": [["t", "a", None], ["u", "a", None]], "ncols": 2},
]


def check_one(ctx, env, case, corr):
    ob = execute(env, case)
    if ob is None:
        ctx.count("skipped=unconstructible")
        return
    fam = case["family"] + (":" + case.get("wrap", "") if case.get("wrap") else "") + (":" + case.get("mode", "") if case.get("mode") else "")
    ctx.count("family=" + fam)
    if "error" in ob:
        # statements the compiler / SQLite reject say nothing about row lookup
        ctx.count("rejected=" + ob["error"].split(":")[0])
        ctx.case(json.dumps(case, sort_keys=True), nontrivial=False)
        return
    ncols = len(ob["vals"])
    ctx.case(json.dumps(case, sort_keys=True), nontrivial=ncols >= 2)
    ctx.count("cols=%d" % ncols)
    ctx.count("dupnames=%s" % (len(set(ob["keys"])) != len(ob["keys"])))
    for key, detail in oracle(case, ob):
        ctx.violation(key, case, detail)
    line, impl = model_request(ob)
    if line is not None:
        corr[0].append(case)
        corr[1].append(impl)
        corr[2].append(line)
    else:
        ctx.count("corr-skipped=adapted-by-name")
    if ncols >= 3:
        ctx.sample({"case": case, "sql": str(ob["stmt"]).replace("\n", " ")[:200], "keys": ob["keys"]}, cap=5)


def observe(conn, stmt):
    """execute and capture what model_request / the oracle need"""
    res = conn.execute(stmt)
    md = res._metadata
    ectx = res.context
    adapted = None
    if (ectx.compiled is not None and getattr(ectx.compiled, "_result_columns", None)
            and not ectx.execution_options.get("_result_disable_adapt_to_context", False)
            and ectx.cache_hit is ectx.dialect.CACHE_HIT
            and ectx.compiled.statement is not ectx.invoked_statement):
        adapted = list(ectx.invoked_statement._all_selected_columns)
    ob = {"md": md, "desc": [d[0] for d in res.cursor.description], "struct": res.context.result_column_struct,
          "keys": list(res.keys()), "adapted": adapted, "cache_hit": ectx.cache_hit is ectx.dialect.CACHE_HIT}
    ob["row"] = res.first()
    return ob


def history_cases(ctx, corr):
    """re-execute a cached, name-matched statement after the physical column order behind `*`
    changed: every execution must map names / column objects to the columns of *that* cursor"""
    import sqlalchemy as sa

    rng = ctx.rng
    n = 24 if ctx.tier == "quick" else 200
    for it in range(n):
        kind = rng.choice(["text-named", "text-mixed", "star", "star+label", "star+expr"])
        how = "recreate" if kind.startswith("text") else rng.choice(["recreate", "schema_translate"])
        cols = ["a", "b", "c"][: rng.choice([2, 3])]
        val = {"a": 1, "b": 2, "c": 3}
        orders = []
        for _ in range(rng.choice([2, 3, 4])):
            o = list(cols)
            rng.shuffle(o)
            orders.append(o)
        if len({tuple(o) for o in orders}) == 1:
            orders[-1] = list(reversed(orders[0]))
        eng = sa.create_engine("sqlite://")
        case = {"family": "history", "how": how, "kind": kind, "orders": orders}
        try:
            with eng.connect() as conn:
                md = sa.MetaData()
                if how == "schema_translate":
                    for i, o in enumerate(orders):
                        conn.exec_driver_sql("attach ':memory:' as s%d" % i)
                        conn.exec_driver_sql("create table s%d.h (%s)" % (i, ", ".join("%s integer" % c for c in o)))
                        conn.exec_driver_sql("insert into s%d.h (%s) values (%s)" % (i, ",".join(o), ",".join(str(val[c]) for c in o)))
                    h = sa.Table("h", md, *[sa.Column(c, sa.Integer) for c in cols], schema="per")
                else:
                    h = sa.Table("h", md, *[sa.Column(c, sa.Integer) for c in cols])
                tname = "per.h" if how == "schema_translate" else "h"
                objs = []
                if kind == "text-named":
                    if how == "schema_translate":
                        continue  # plain text is not schema-translated
                    stmt = sa.text("SELECT * FROM h").columns(**{c: sa.Integer for c in cols})
                    objs = list(stmt.selected_columns)
                elif kind == "text-mixed":
                    if how == "schema_translate":
                        continue
                    stmt = sa.text("SELECT * FROM h").columns(*[h.c[c] for c in cols], zz_unused=sa.Integer)
                    objs = [h.c[c] for c in cols]
                elif kind == "star":
                    stmt = sa.select(sa.literal_column("*")).select_from(h)
                elif kind == "star+label":
                    stmt = sa.select(sa.literal_column("*"), h.c.a.label("x")).select_from(h)
                else:
                    stmt = sa.select(sa.literal_column("*"), (h.c.a + 100).label("y")).select_from(h)
                for step, o in enumerate(orders * 2 if how == "schema_translate" else orders):
                    i = step % len(orders)
                    if how == "recreate":
                        conn.exec_driver_sql("drop table if exists h")
                        conn.exec_driver_sql("create table h (%s)" % ", ".join("%s integer" % c for c in o))
                        conn.exec_driver_sql("insert into h (%s) values (%s)" % (",".join(o), ",".join(str(val[c]) for c in o)))
                        c2 = conn
                    else:
                        c2 = conn.execution_options(schema_translate_map={"per": "s%d" % i})
                    with warnings.catch_warnings():
                        warnings.simplefilter("ignore")
                        ob = observe(c2, stmt)
                    row = ob["row"]
                    ctx.case("history:%s:%s:%s:%d" % (how, kind, orders, step), nontrivial=True)
                    ctx.count("history=%s/%s" % (how, kind))
                    ctx.count("history-cache-hit=%s" % ob["cache_hit"])
                    exp_row = [val[c] for c in o] + ([val["a"]] if kind == "star+label" else []) + ([val["a"] + 100] if kind == "star+expr" else [])
                    here = dict(case, step=step, order=o)
                    if row is None or list(row) != exp_row:
                        ctx.violation("c11-oracle:history-positional", here, "row %r, expected %r" % (row, exp_row))
                        continue
                    for c in cols:
                        out, v = lookup_row(row, c)
                        if (out, v) != ("V", val[c]):
                            ctx.violation("c11-oracle:history-stale-metadata:string", here,
                                          "execution #%d (physical order %r, cache hit %s): row._mapping[%r] -> %s %r, expected %r; row %r"
                                          % (step, o, ob["cache_hit"], c, out, v, val[c], tuple(row)))
                    for obj in objs:
                        out, v = lookup_row(row, obj)
                        if (out, v) != ("V", val[obj.name]):
                            ctx.violation("c11-oracle:history-stale-metadata:object", here,
                                          "execution #%d (physical order %r): row._mapping[<column %s>] -> %s %r, expected %r"
                                          % (step, o, obj.name, out, v, val[obj.name]))
                    if ob["keys"][: len(o)] != o:
                        ctx.violation("c11-oracle:history-keys", here, "keys %r for physical order %r" % (ob["keys"], o))
                    line, impl = model_request(ob)
                    if line is not None:
                        corr[0].append(here)
                        corr[1].append(impl)
                        corr[2].append(line)
        finally:
            eng.dispose()

# ------------------------------------------------------------------ shared expression pool, one cache
POOL_KS = [1000, 2000, 3000, 4000, 5000, 6000, 7000, 8000, 9000]


def pval(rowid, col):
    return rowid * 100 + {"id": 0, "a": 1, "b": 2}[col]


def gen_pool_scenario(rng):
    """one template (FROM chain + select list over abstract slots) and a sequence of instantiations:
    the SAME expression objects (anonymous expressions differing only in their bound literal, labels
    of them, columns of anonymous aliases, bound literals, a column / an object selected twice) placed at
    permuted positions / in subsets, anonymous aliases and literals exchanged between slots"""
    nfrom = rng.choice([1, 1, 2, 2, 3])
    chain, left = [], {"anon": 3, "named": 1, "base": 1}
    for _ in range(nfrom):
        c = rng.choice([k for k in ("anon", "anon", "anon", "named", "base") if left[k] > 0])
        left[c] -= 1
        chain.append(c)
    n = rng.choice([2, 2, 3, 3, 4, 5])
    elems = []
    for i in range(n):
        r = rng.random()
        e = {"f": rng.randrange(nfrom), "c": rng.choice(["a", "a", "b"]), "l": rng.randrange(4)}
        if r < 0.30:
            e["kind"] = "bp"
        elif r < 0.45:
            e["kind"] = "col"
        elif r < 0.58:
            e["kind"] = "bplab"
            e["name"] = rng.choice(["x", "y", "a"])
        elif r < 0.66:
            e["kind"] = "collab"
            e["name"] = rng.choice(["x", "y", "a"])
        elif r < 0.76:
            e["kind"] = "fn"
        elif r < 0.84:
            e["kind"] = "lit"
        elif r < 0.90:
            e["kind"] = "sq"
        elif elems:
            e = {"kind": "rep", "of": rng.randrange(len(elems))}
        else:
            e["kind"] = "bp"
        elems.append(e)
    ks = rng.sample(POOL_KS, 4)
    anon_slots = [j for j, c in enumerate(chain) if c == "anon"]
    steps = [{"order": list(range(n)), "anon": list(range(len(anon_slots))), "ks": list(range(4))}]
    for _ in range(rng.choice([2, 3, 4])):
        prev = steps[0] if rng.random() < 0.6 else steps[-1]
        st = {"order": list(prev["order"]), "anon": list(prev["anon"]), "ks": list(prev["ks"])}
        how = rng.choice(["order", "order", "subset", "anon", "ks", "order+anon", "order+ks", "same"])
        if "order" in how:
            rng.shuffle(st["order"])
            if st["order"] == prev["order"]:
                st["order"].reverse()
        if how == "subset":
            st["order"] = [rng.randrange(n) for _ in range(rng.randint(1, n))]
        if "anon" in how and len(anon_slots) > 1:
            st["anon"] = st["anon"][1:] + st["anon"][:1]
        if "ks" in how:
            rng.shuffle(st["ks"])
        steps.append(st)
    if rng.random() < 0.5:
        steps.append(dict(steps[0]))
    return {"family": "pool", "style": rng.choice(["dis", "dis", "dis", "none", "tq"]), "chain": chain,
            "elems": elems, "ks": ks, "steps": steps}


def run_pool_scenario(ctx, scen, corr=None):
    import sqlalchemy as sa

    styles = {"none": sa.LABEL_STYLE_NONE, "dis": sa.LABEL_STYLE_DISAMBIGUATE_ONLY, "tq": sa.LABEL_STYLE_TABLENAME_PLUS_COL}
    eng = sa.create_engine("sqlite://")
    md = sa.MetaData()
    P = sa.Table("p", md, sa.Column("id", sa.Integer, primary_key=True), sa.Column("a", sa.Integer), sa.Column("b", sa.Integer))
    anon = [P.alias(), P.alias(), P.alias()]
    named = P.alias("n1")
    pool = {}

    def obj(key, mk):
        if key not in pool:
            pool[key] = mk()
        return pool[key]

    try:
        with eng.connect() as conn:
            md.create_all(conn)
            conn.execute(P.insert(), [{"id": i, "a": pval(i, "a"), "b": pval(i, "b")} for i in (1, 2, 3, 4)])
            chain = scen["chain"]
            anon_slots = [j for j, c in enumerate(chain) if c == "anon"]
            for step, st in enumerate(scen["steps"]):
                froms = []
                for j, c in enumerate(chain):
                    if c == "anon":
                        froms.append(anon[st["anon"][anon_slots.index(j)]])
                    else:
                        froms.append(named if c == "named" else P)
                ks = [scen["ks"][i] for i in st["ks"]]
                telems, tvals = [], []
                for e in scen["elems"]:
                    if e["kind"] == "rep":
                        telems.append(telems[e["of"]])
                        tvals.append(tvals[e["of"]])
                        continue
                    j, c, k = e["f"], e["c"], ks[e["l"]]
                    F = froms[j]
                    fid = ("f", chain[j], st["anon"][anon_slots.index(j)] if chain[j] == "anon" else 0)
                    col = F.c[c]
                    v = pval(1 + j, c)
                    kind = e["kind"]
                    if kind == "col":
                        telems.append(col)
                        tvals.append(v)
                    elif kind == "collab":
                        telems.append(obj(("collab", fid, c, e["name"]), lambda: col.label(e["name"])))
                        tvals.append(v)
                    elif kind == "bp":
                        telems.append(obj(("bp", fid, c, k), lambda: col + k))
                        tvals.append(v + k)
                    elif kind == "bplab":
                        telems.append(obj(("bplab", fid, c, k, e["name"]), lambda: (col + k).label(e["name"])))
                        tvals.append(v + k)
                    elif kind == "fn":
                        telems.append(obj(("fn", fid, c, k), lambda: sa.func.coalesce(sa.null(), col + k)))
                        tvals.append(v + k)
                    elif kind == "lit":
                        telems.append(obj(("lit", k), lambda: sa.literal(k)))
                        tvals.append(k)
                    elif kind == "sq":
                        telems.append(obj(("sq", k), lambda: sa.select(sa.literal(k) + 1).scalar_subquery()))
                        tvals.append(k + 1)
                    else:
                        raise ValueError(kind)
                elems = [telems[i] for i in st["order"]]
                vals = [tvals[i] for i in st["order"]]
                stmt = sa.select(*elems).select_from(froms[0])
                for j in range(1, len(froms)):
                    stmt = stmt.join(froms[j], froms[j].c.id == froms[j - 1].c.id + 1)
                stmt = stmt.where(froms[0].c.id == 1).set_label_style(styles[scen["style"]])
                here = dict(scen, step=step)
                ctx.case("pool:%s:%d" % (json.dumps(scen, sort_keys=True), step), nontrivial=len(elems) >= 2)
                with warnings.catch_warnings():
                    warnings.simplefilter("ignore")
                    try:
                        ob = observe(conn, stmt)
                    except Exception as ex:  # noqa: BLE001
                        ctx.count("pool-rejected=%s" % type(ex).__name__)
                        continue
                ctx.count("pool-cache-hit=%s adapted=%s" % (ob["cache_hit"], ob["adapted"] is not None))
                row = ob["row"]
                sql = str(stmt).replace("\n", " ")[:300]
                if row is None or list(row) != vals:
                    ctx.violation("c11-oracle:pool-positional", here, "execution #%d: row %r, expected %r; %s" % (step, row, vals, sql))
                    continue
                seen = []
                for e in elems:
                    if any(e is o for o in seen):
                        continue
                    seen.append(e)
                    den = [q for q in range(len(elems)) if elems[q] is e]
                    dvals = sorted({vals[q] for q in den})
                    out, v = lookup_row(row, e)
                    desc = "execution #%d (cache hit %s) of %s: row._mapping[<%s at positions %r>]" % (
                        step, ob["cache_hit"], sql, type(e).__name__, den)
                    if out == "V" and v not in dvals:
                        key = "c11-oracle:pool-wrong-column:object"
                        if shared_without_scan(ob, e):
                            key = "key-shared-by-two-positions-without-duplicate-scan-last-wins"
                        ctx.violation(key, here, "%s -> %r, the value selected there is %r; row %r" % (desc, v, dvals, tuple(row)))
                    elif out.startswith("X"):
                        ctx.violation("c11-oracle:unexpected-exception", here, "%s -> %s" % (desc, out))
                    elif out != "V" and (len(den) == 1 or scen["style"] != "none"):
                        ctx.violation("c11-oracle:pool-object-failed", here, "%s -> %s, expected %r" % (desc, out, dvals))
                if corr is not None:
                    line, impl = model_request(ob)
                    if line is not None:
                        corr[0].append(here)
                        corr[1].append(impl)
                        corr[2].append(line)
    finally:
        eng.dispose()


def pool_cases(ctx, corr):
    n = 150 if ctx.tier == "quick" else 1500
    for _ in range(n):
        run_pool_scenario(ctx, gen_pool_scenario(ctx.rng), corr)


def run(ctx, deep=False):
    ctx.rule = (
        "random SELECT lists of 1..6 elements (table columns of 3 joined single-row tables with colliding names, labels "
        "from a colliding pool, labelled/unlabelled expressions, literal columns, text() columns, repeated objects) x "
        "label styles x subquery/CTE/union wrappers x label_length in {None,8,12,20}, plus textual selects (positional, "
        "ad-hoc, by-name) and raw SQL; cached name-matched statements re-executed after the physical column order "
        "changed; sequences of 3..6 statements over one shared pool of expression objects (permuted positions, subsets, "
        "exchanged anonymous aliases / bound literals) through one engine cache, oracle = the value SELECTed at that "
        "object's position in THIS statement; non-trivial = at least 2 result columns; distinct = distinct case description")
    ctx.trusted.append("SQLite cursor.description names; compiler-populated _result_columns taken from the real compiler per statement")
    ctx.assumptions.append("rows hold a distinct value per expression, so a wrong column is always visible")
    env = Env()
    try:
        n = 1500 if ctx.tier == "quick" else 15000
        if deep:
            n = 25000
        corr = ([], [], [])
        for case in FIXED:
            check_one(ctx, env, case, corr)
        for _ in range(n):
            check_one(ctx, env, gen_case(ctx.rng), corr)
        history_cases(ctx, corr)
        pool_cases(ctx, corr)
        if ctx.driver_ok() and corr[0]:
            ctx.correspond("corr/c11:keymap-vs-Model.RowKeys", corr[0], corr[1], ctx.driver(corr[2]))
    finally:
        env.close()


def search(ctx, broken):
    sub = type(ctx)(ctx.pid, "thorough", ctx.seed + 1, ctx.level)
    env = Env()
    try:
        for d in ctx.disagreements:
            if d["case"].get("family") == "pool":
                run_pool_scenario(ctx, {k: v for k, v in d["case"].items() if k != "step"})
                continue
            if d["case"].get("family") == "history":
                continue
            ob = execute(env, d["case"])
            if ob and "error" not in ob:
                for key, detail in oracle(d["case"], ob):
                    ctx.violation(key, d["case"], detail)
    finally:
        env.close()
    run(sub, deep=True)
    ctx.violations.extend(sub.violations)


def replay(ctx, obj):
    case = obj["case"]
    if case.get("family") == "history":
        sub = type(ctx)(ctx.pid, "thorough", obj.get("seed", 0), ctx.level)
        history_cases(sub, ([], [], []))
        hits = [v for v in sub.violations if v["key"] == obj.get("key")]
        print("replay C11 history key=%s -> %d failing executions; first: %s" % (obj.get("key"), len(hits), hits[0]["detail"] if hits else None))
        return bool(hits)
    if case.get("family") == "pool":
        sub = type(ctx)(ctx.pid, "thorough", obj.get("seed", 0), ctx.level)
        scen = {k: v for k, v in case.items() if k != "step"}
        run_pool_scenario(sub, scen)
        for v in sub.violations:
            print("replay C11 pool key=%s: %s" % (v["key"], v["detail"]))
        return bool(sub.violations)
    env = Env()
    try:
        ob = execute(env, case)
        bad = oracle(case, ob) if ob and "error" not in ob else []
        print("replay C11 case=%s\n sql=%s\n keys=%s row=%s\n oracle: %s" % (
            json.dumps(case), str(ob.get("stmt", "")).replace("\n", " ") if ob else None,
            ob.get("keys") if ob else None, tuple(ob["row"]) if ob and ob.get("row") is not None else None, bad))
    finally:
        env.close()
    return bool(bad)
