"""C22 — compiling a well-formed construct never fails with an internal error.

Translator: every Visitable subclass with a string __visit_name__ (expression, DDL and type
objects, all built-in dialects imported) x every built-in dialect's statement / DDL / type
compiler -> does `visit_<name>` exist, and is the fallback `visit_unsupported_compilation`
one of the implementations that raise UnsupportedCompilationError?  Written to
Gen/VisitTable.lean; Props/C22.lean decides that dispatch never ends in the internal branch.
Check: (1) the dispatch table against real compilation of synthetic elements; (2) a seeded
generator of Core statements (selects with joins / CTEs / set operations / windows / subqueries,
DML with RETURNING / multi-values / upserts, DDL constructs with every generic type, identity,
computed columns, sequences, indexes, constraints) compiled on sqlite, postgresql, mysql, mariadb,
mssql, oracle with option variants (server versions, paramstyles, literal_binds,
render_postcompile); every exception is classified: CompileError / UnsupportedCompilationError /
InvalidRequestError / ArgumentError are documented, anything else is a violation.
"""
import random
import warnings

PID = "C22"
LEVEL = "translation_validation"
LEAN = ["SaVerif.Props.C22"]
META = {
    "text": "Exception-freedom of the whole dynamically typed compiler is not a theorem about any model smaller than the compiler. What is machine-checked: the visitor dispatch table regenerated from the working tree (every Visitable class with a __visit_name__ x the statement, DDL and type compiler of each of the six built-in dialects) never leads to the internal AttributeError branch - either visit_<name> exists or the fallback is an implementation that raises UnsupportedCompilationError (Lean, decide over the regenerated table). Everything else is a seeded compile fuzz of generated Core statements and DDL constructs on all six dialects with option variants, classifying every exception as documented (CompileError, UnsupportedCompilationError, InvalidRequestError, ArgumentError) or internal.",
    "note": "translation_validation: outside the dispatch table the property is tested, not proved. The generator composes features across constructs (row-locking clauses inside scalar subqueries inside upsert SET/WHERE and DML values, DML with multi-table criteria used as CTEs, constraints and indexes over ad-hoc column()/literal_column()/text() members with and without dialect options). A translator-style scan lists every compiler call site passing an explicit keyword next to **kw (TypeError as soon as a caller passes that keyword); a site that is not on the baseline makes the fuzz run with the deep budget. Known findings (keyed exception@module.function): see known_findings.d/C22.json - ten keys, three of them (MySQL FOR UPDATE OF inside ON DUPLICATE KEY UPDATE, MSSQL UPDATE/DELETE..FROM used as a CTE) found through that scan.",
    "technique": "regenerated dispatch table + decide, and a compile fuzz with exception classification on six dialects",
    "design_ref": "DESIGN.md §3 C22",
}

DIALECTS = ["sqlite", "postgresql", "mysql", "mariadb", "mssql", "oracle"]
_state = {"new_kw_sites": []}
KINDS = ["sql", "ddl", "type"]


def get_dialect(name):
    from sqlalchemy.engine import URL

    return URL.create(name).get_dialect()()


def compiler_classes(d):
    return {"sql": d.statement_compiler, "ddl": d.ddl_compiler, "type": d.type_compiler_cls}


def all_visit_names():
    """(kind, visit_name) of every Visitable subclass with a string __visit_name__"""
    import sqlalchemy  # noqa
    import sqlalchemy.ext.compiler  # noqa
    from sqlalchemy.sql import visitors, ddl, type_api, schema
    from sqlalchemy.dialects import sqlite, postgresql, mysql, mssql, oracle  # noqa

    out = set()
    seen = set()
    stack = [visitors.Visitable]
    while stack:
        c = stack.pop()
        for s in c.__subclasses__():
            if s in seen:
                continue
            seen.add(s)
            stack.append(s)
            vn = s.__dict__.get("__visit_name__", getattr(s, "__visit_name__", None))
            if not isinstance(vn, str):
                continue
            if s.__module__.startswith("harness") or s.__module__ == "__main__":
                continue
            if issubclass(s, type_api.TypeEngine):
                kind = "type"
            elif issubclass(s, (ddl.BaseDDLElement, schema.SchemaItem)):
                kind = "ddl"
            else:
                kind = "sql"
            out.add((kind, vn))
    return sorted(out)


def fallback_documented(cls):
    """is cls.visit_unsupported_compilation one of the implementations that raise
    UnsupportedCompilationError (directly or after trying the element's own dialect)?"""
    import inspect

    fn = getattr(cls, "visit_unsupported_compilation", None)
    if fn is None:
        return False
    try:
        src = inspect.getsource(fn)
    except (OSError, TypeError):
        return False
    return "UnsupportedCompilationError" in src or "super().visit_unsupported_compilation" in src


def gen(ctx):
    rows = []
    fb = []
    names = all_visit_names()
    for di, dn in enumerate(DIALECTS):
        cc = compiler_classes(get_dialect(dn))
        for ki, k in enumerate(KINDS):
            fb.append((di, ki, fallback_documented(cc[k])))
            for kind, vn in names:
                if kind == k:
                    rows.append((di, ki, vn, hasattr(cc[k], "visit_" + vn)))
    body = ["namespace SaVerif.Gen.VisitTable",
            "-- dialects: %s ; kinds: %s" % (", ".join("%d=%s" % (i, d) for i, d in enumerate(DIALECTS)), ", ".join("%d=%s" % (i, k) for i, k in enumerate(KINDS))),
            "/-- (dialect, kind, fallback raises UnsupportedCompilationError) -/",
            "def fallback : List (Nat × Nat × Bool) := [" + ", ".join("(%d, %d, %s)" % (a, b, "true" if c else "false") for a, b, c in fb) + "]",
            "/-- (dialect, kind, __visit_name__, compiler has visit_<name>) -/",
            "def rows : List (Nat × Nat × String × Bool) := ["]
    body.append(",\n".join('  (%d, %d, "%s", %s)' % (a, b, vn, "true" if h else "false") for a, b, vn, h in rows))
    body.append("]")
    body.append("end SaVerif.Gen.VisitTable\n")
    ctx.write_gen("VisitTable", "\n".join(body))
    ctx.obligation("translator:visit table covers %d (dialect, kind, name) rows" % len(rows), len(rows) > 1000 and len(fb) == 18, "rows=%d" % len(rows))
    # call sites `f(x, a=..., **kw)` that raise TypeError as soon as a caller passes `a`: compare with the baseline
    import json
    import os

    from harness import vlib
    from harness.lib_c22_kw import kw_sites

    base = set(json.load(open(os.path.join(vlib.VERIF, "harness", "c22_kw_sites.json")))["sites"])
    cur = set(kw_sites(os.path.join(vlib.REPO, "lib")))
    _state["new_kw_sites"] = sorted(cur - base)
    ctx.obligation(
        "translator:compiler call sites passing an explicit keyword next to **kw (%d on the baseline tree; new: %s)" % (len(base), ", ".join(_state["new_kw_sites"]) or "none"),
        True,
        "a new site is not an error by itself: the compile fuzz runs with the deep budget when there is one",
    )


# ------------------------------------------------------------------ construct generator
DOCUMENTED = ("CompileError", "UnsupportedCompilationError", "InvalidRequestError", "ArgumentError")


class Gen:
    """seeded generator of Core constructs; every draw comes from self.r"""

    def __init__(self, seed):
        import sqlalchemy as sa

        self.sa = sa
        self.r = random.Random(seed)
        m = sa.MetaData()
        self.m = m
        self.t1 = sa.Table(
            "t1", m,
            sa.Column("id", sa.Integer, primary_key=True),
            sa.Column("name", sa.String(50)),
            sa.Column("val", sa.Numeric(10, 2)),
            sa.Column("ts", sa.DateTime),
            sa.Column("flag", sa.Boolean),
            sa.Column("data", sa.JSON),
            sa.Column("blob", sa.LargeBinary),
        )
        self.t2 = sa.Table(
            "t2", m,
            sa.Column("id", sa.Integer, primary_key=True),
            sa.Column("t1_id", sa.ForeignKey("t1.id")),
            sa.Column("x", sa.Integer),
            sa.Column("s", sa.Text),
            sa.Column("d", sa.Date),
            schema=self.r.choice([None, None, "sch"]),
        )
        self.tables = [self.t1, self.t2]
        self.froms = [self.t1, self.t2]

    # -- expressions
    def col(self, kind=None):
        cands = [c for f in self.froms for c in f.c]
        if kind == "num":
            cands = [c for c in cands if isinstance(c.type, (self.sa.Integer, self.sa.Numeric))] or cands
        if kind == "str":
            cands = [c for c in cands if isinstance(c.type, self.sa.String)] or cands
        return self.r.choice(cands)

    def lit(self):
        import datetime
        import decimal

        sa = self.sa
        v = self.r.choice([1, 0, -3, 2.5, "x", "it's", "%", "", None, True, False, decimal.Decimal("1.50"), datetime.date(2020, 1, 2),
                           datetime.datetime(2020, 1, 2, 3, 4, 5), b"ab", 10 ** 20])
        k = self.r.random()
        if k < 0.6:
            return sa.literal(v)
        if k < 0.75:
            return sa.bindparam("p%d" % self.r.randint(0, 5), v)
        if k < 0.85:
            return sa.literal(v, literal_execute=True) if v is not None else sa.null()
        if k < 0.93:
            return sa.literal_column(self.r.choice(["1", "'a'", "CURRENT_TIMESTAMP", "x.y"]))
        return sa.text(self.r.choice(["1", ":tp", "a = b"]))

    def num(self, d):
        sa, r = self.sa, self.r
        if d <= 0 or r.random() < 0.3:
            if r.random() < 0.12:
                return self.json_expr(r.choice(["int", "float", "num"]))
            if d > 0 and r.random() < 0.15:
                return self.subq_scalar(d - 1)
            return self.col("num") if r.random() < 0.7 else sa.literal(r.choice([1, 2, -7, 3.5]))
        k = r.randint(0, 13)
        a, b = self.num(d - 1), self.num(d - 1)
        if k == 0: return a + b
        if k == 1: return a - b
        if k == 2: return a * b
        if k == 3: return a / b
        if k == 4: return a % b
        if k == 5: return a // b
        if k == 6: return -a
        if k == 7: return sa.func.coalesce(a, b)
        if k == 8: return sa.func.abs(a)
        if k == 9: return sa.cast(a, r.choice([sa.Integer, sa.Numeric(8, 2), sa.Float, sa.BigInteger, sa.String(10), sa.Date, sa.Boolean, sa.JSON, sa.LargeBinary, sa.Uuid, sa.Interval]))
        if k == 10: return sa.case((self.boolean(d - 1), a), else_=b)
        if k == 11: return self.agg(d - 1)
        if k == 12: return a.op(r.choice(["&", "|", "^", "<<", "#"]))(b)
        return r.choice([a.bitwise_and(b), a.bitwise_or(b), a.bitwise_xor(b), a.bitwise_not(), a.bitwise_lshift(b), sa.func.round(a, 2), sa.type_coerce(a, sa.Integer), sa.try_cast(a, sa.Integer)])

    def string(self, d):
        sa, r = self.sa, self.r
        if d <= 0 or r.random() < 0.3:
            if r.random() < 0.12:
                return self.json_expr("str")
            return self.col("str") if r.random() < 0.7 else sa.literal(r.choice(["a", "b%", "_", "it's"]))
        k = r.randint(0, 8)
        a, b = self.string(d - 1), self.string(d - 1)
        if k == 0: return a + b
        if k == 1: return a.concat(b)
        if k == 2: return sa.func.lower(a)
        if k == 3: return sa.func.substr(a, 1, 2)
        if k == 4: return sa.cast(self.num(d - 1), sa.String)
        if k == 5: return a.collate(r.choice(["NOCASE", "utf8_bin", "C", "en_US"]))
        if k == 6: return a.regexp_replace("a+", "b", flags=r.choice([None, "i", "g"]))
        if k == 7: return sa.func.group_concat(a)
        return sa.func.coalesce(a, b)

    def agg(self, d):
        sa, r = self.sa, self.r
        a = self.num(d)
        k = r.randint(0, 9)
        if k == 0: return sa.func.count()
        if k == 1: return sa.func.sum(a)
        if k == 2: return sa.func.max(a).over(partition_by=self.col(), order_by=self.order(d))
        if k == 3: return sa.func.row_number().over(order_by=self.order(d), rows=r.choice([(None, 0), (-2, 2), (0, None), (1, 3)]))
        if k == 4: return sa.func.avg(a).filter(self.boolean(d - 1))
        if k == 5: return sa.func.percentile_cont(0.5).within_group(self.col("num"))
        if k == 6: return sa.func.rank().over(partition_by=[self.col(), self.col()], range_=r.choice([(None, None), (-1, 1), (None, 0)]))
        if k == 7: return sa.func.count(sa.distinct(a))
        if k == 8: return sa.func.sum(a).over(groups=(None, 0), order_by=self.col())
        return sa.func.lag(a, 1).over(order_by=self.order(d)).label("lg")

    def order(self, d):
        r = self.r
        e = self.col() if r.random() < 0.6 else self.num(d - 1)
        k = r.randint(0, 5)
        if k == 0: return e.desc()
        if k == 1: return e.asc().nulls_first()
        if k == 2: return e.desc().nulls_last()
        if k == 3: return self.sa.text("1")
        return e

    def boolean(self, d):
        sa, r = self.sa, self.r
        if d <= 0:
            return self.col("num") > 1 if r.random() < 0.85 else r.choice([self.json_expr("bool"), self.json_expr("raw") == sa.literal("v"), self.json_expr("int") > 3, self.json_expr("json").is_not(None)])
        k = r.randint(0, 22)
        a, b = self.num(d - 1), self.num(d - 1)
        s, t = self.string(d - 1), self.string(d - 1)
        if k == 0: return a == b
        if k == 1: return a != self.lit()
        if k == 2: return a < b
        if k == 3: return sa.and_(self.boolean(d - 1), self.boolean(d - 1))
        if k == 4: return sa.or_(self.boolean(d - 1), self.boolean(d - 1), self.boolean(d - 1))
        if k == 5: return sa.not_(self.boolean(d - 1))
        if k == 6: return s.like(t, escape=r.choice([None, "/", "\\"]))
        if k == 7: return s.ilike("%a%")
        if k == 8: return s.startswith("a%", autoescape=r.random() < 0.5)
        if k == 9: return s.contains("a_b%", autoescape=True) if r.random() < 0.3 else s.contains(t)
        if k == 10: return a.in_(r.choice([[1, 2, 3], [], [None, 1], (x for x in [4, 5])]))
        if k == 11: return a.not_in(self.subq_scalar_list(d - 1))
        if k == 12: return a.between(b, self.num(d - 1), symmetric=r.random() < 0.3)
        if k == 13: return a.is_(None) if r.random() < 0.5 else a.is_not(None)
        if k == 14: return a.is_distinct_from(b)
        if k == 15: return s.regexp_match("^a", flags=r.choice([None, "i", "m"]))
        if k == 16: return sa.exists(self.select(d - 1, simple=True)) if r.random() < 0.5 else sa.exists(self.subq_select(d - 1))
        if k == 17: return s.match("word")
        if k == 18: return sa.tuple_(a, b).in_([(1, 2), (3, 4)])
        if k == 19: return a == sa.any_(self.subq_scalar(d - 1)) if r.random() < 0.5 else a > sa.all_(self.subq_scalar(d - 1))
        if k == 20: return sa.true() if r.random() < 0.5 else sa.false()
        if k == 21: return s.endswith(t) | s.icontains("x") | s.istartswith("y")
        return self.t1.c.flag

    def for_update_kw(self):
        """every FOR UPDATE variant, with all shapes of OF"""
        sa, r = self.sa, self.r
        a2 = getattr(self, "_t2alias", None)
        if a2 is None:
            a2 = self._t2alias = self.t2.alias("t2a")
        return dict(
            nowait=r.random() < 0.25, read=r.random() < 0.25, skip_locked=r.random() < 0.25, key_share=r.random() < 0.2,
            of=r.choice([None, self.t1, self.t2, self.t2.c.x, self.t1.c.id, [self.t1, self.t2], [self.t2.c.id, self.t2.c.x], a2, [a2.c.x], [self.t1.c.id, self.t2]]),
        )

    def subq_select(self, d, cols=None):
        """a SELECT meant to be embedded (scalar subquery, EXISTS, IN, FROM, CTE): features are composed -
        correlation, row-locking clauses, LIMIT/ORDER BY, DISTINCT, joins, CTE sources, aliases"""
        sa, r = self.sa, self.r
        if getattr(self, "_t2alias", None) is None:
            self._t2alias = self.t2.alias("t2a")
        src = r.choice([self.t2, self.t2, self._t2alias])
        stmt = sa.select(*(cols or [src.c.x]))
        k = r.random()
        if k < 0.45:
            stmt = stmt.where(src.c.x > r.randint(0, 3))
        elif k < 0.75:
            stmt = stmt.where(src.c.t1_id == self.t1.c.id)  # correlated
        elif k < 0.85:
            c0 = sa.select(self.t1.c.id.label("cid")).where(self.t1.c.id > 1).cte("sqc")
            stmt = stmt.where(src.c.t1_id.in_(sa.select(c0.c.cid)))
        if r.random() < 0.2:
            stmt = stmt.join(self.t1, self.t1.c.id == src.c.t1_id, isouter=r.random() < 0.5)
        if r.random() < 0.35:
            stmt = stmt.with_for_update(**self.for_update_kw())
        if r.random() < 0.25:
            stmt = stmt.order_by(src.c.x.desc()).limit(1)
        elif r.random() < 0.1:
            stmt = stmt.limit(1).offset(1)
        if r.random() < 0.1:
            stmt = stmt.distinct()
        if r.random() < 0.1 and d > 0:
            stmt = stmt.where(sa.exists(self.subq_select(d - 1)))
        return stmt

    def subq_scalar(self, d):
        r = self.r
        st = self.subq_select(d, cols=[self.sa.func.max(self.t2.c.x)] if r.random() < 0.3 else None)
        return st.scalar_subquery() if r.random() < 0.85 else st.label("sq_lbl")

    def subq_scalar_list(self, d):
        return self.subq_select(d)

    def any_expr(self, d):
        k = self.r.randint(0, 5)
        if k == 0: return self.num(d)
        if k == 1: return self.string(d)
        if k == 2: return self.boolean(d)
        if k == 3: return self.agg(d)
        if k == 4: return self.lit() if self.r.random() < 0.6 else self.json_expr()
        return self.sa.extract(self.r.choice(["year", "month", "dow", "epoch", "quarter", "bogus"]), self.t1.c.ts)

    def with_froms(self, froms, fn):
        """generate an expression over other columns (a DDL table's own columns)"""
        saved = self.froms
        self.froms = froms
        try:
            return fn()
        finally:
            self.froms = saved

    def json_col(self):
        cands = [c for f in self.froms for c in f.c if isinstance(c.type, self.sa.JSON)]
        return self.r.choice(cands) if cands else self.t1.c.data

    def json_expr(self, kind=None):
        """JSON index / path operator family with every typed accessor"""
        sa, r = self.sa, self.r
        e = self.json_col()[r.choice(["k", 3, 0, ("a", "b"), ("a", 2), "with space", ("x",)])]
        if r.random() < 0.15:
            e = e["nested"]
        kind = kind or r.choice(["int", "str", "bool", "float", "json", "raw", "num"])
        if kind == "int": return e.as_integer()
        if kind == "str": return e.as_string()
        if kind == "bool": return e.as_boolean()
        if kind == "float": return e.as_float()
        if kind == "num": return e.as_numeric(10, 2)
        if kind == "json": return e.as_json()
        return e

    def shared_cte(self, d):
        """one CTE (plain / recursive-restated x nesting or not) referenced from 1-3 SIBLING sub-statements
        of different kinds, under SELECT or DML"""
        sa, r = self.sa, self.r
        recursive, nesting = r.random() < 0.6, r.random() < 0.6
        n = sa.select(self.t1.c.id.label("a")).where(self.t1.c.id > 5).cte("n", nesting=nesting, recursive=recursive)
        if recursive and r.random() < 0.85:
            n = (n.union_all if r.random() < 0.7 else n.union)(sa.select(n.c.a + 1).where(n.c.a < 10))
        if r.random() < 0.2:
            n = n.alias("n2")
        stmt = sa.select(self.t1.c.id, self.t1.c.name)
        where = []
        for _ in range(r.choice([1, 2, 2, 2, 3])):
            k = r.randint(0, 4)
            if k == 0:
                where.append(r.choice([self.t1.c.id, self.t1.c.val]).in_(sa.select(n.c.a)))
            elif k == 1:
                stmt = stmt.add_columns(sa.select(sa.func.max(n.c.a)).scalar_subquery().label("m%d" % len(where)))
            elif k == 2:
                sub = sa.select(n.c.a).where(n.c.a > 1).subquery("d%d" % r.randint(0, 99))
                stmt = stmt.join(sub, sub.c.a == self.t1.c.id, isouter=r.random() < 0.5)
            elif k == 3:
                where.append(sa.exists(sa.select(n.c.a).where(n.c.a == self.t1.c.id)))
            else:
                where.append(self.t1.c.id > sa.select(sa.func.min(n.c.a)).scalar_subquery())
        for w in where:
            stmt = stmt.where(w)
        o = r.random()
        if o < 0.6:
            return stmt
        if o < 0.7 and where:
            return sa.delete(self.t1).where(*where)
        if o < 0.8 and where:
            return sa.update(self.t1).values(name="x").where(*where)
        if o < 0.9:
            return sa.insert(self.t2).from_select(["id", "s"], stmt.with_only_columns(self.t1.c.id, self.t1.c.name))
        return sa.union_all(stmt.with_only_columns(self.t1.c.id), sa.select(n.c.a))

    # -- selects
    def select(self, d, simple=False):
        sa, r = self.sa, self.r
        cols = [self.any_expr(d - 1).label("c%d" % i) if r.random() < 0.7 else self.any_expr(d - 1) for i in range(r.randint(1, 3))]
        stmt = sa.select(*cols)
        k = r.random()
        if k < 0.3:
            stmt = stmt.select_from(self.t1.join(self.t2, self.t1.c.id == self.t2.c.t1_id, isouter=r.random() < 0.4, full=r.random() < 0.15))
        elif k < 0.4:
            sub = sa.select(self.t2.c.t1_id, sa.func.count().label("n")).group_by(self.t2.c.t1_id).subquery("sq")
            stmt = stmt.join_from(self.t1, sub, sub.c.t1_id == self.t1.c.id)
        elif k < 0.45:
            lat = sa.select(self.t2.c.x).where(self.t2.c.t1_id == self.t1.c.id).lateral("lat")
            stmt = stmt.select_from(self.t1).join(lat, sa.true())
        elif k < 0.5:
            stmt = stmt.select_from(self.t1.tablesample(sa.func.bernoulli(1), name="ts", seed=sa.func.random() if r.random() < 0.3 else None))
        elif k < 0.6:
            inner = self.subq_select(d - 1, cols=[self.t2.c.x, self.t2.c.t1_id]).subquery("inn")
            stmt = stmt.add_columns(inner.c.x).select_from(self.t1.join(inner, inner.c.t1_id == self.t1.c.id))
        elif k < 0.65:
            v = sa.values(sa.column("a", sa.Integer), sa.column("b", sa.String), name="v").data([(1, "x"), (2, "y")])
            stmt = stmt.add_columns(v.c.a).select_from(v)
        if r.random() < 0.6:
            stmt = stmt.where(self.boolean(d - 1))
        if simple:
            return stmt
        if r.random() < 0.3:
            stmt = stmt.group_by(self.col(), *( [sa.func.rollup(self.col())] if r.random() < 0.1 else [])).having(sa.func.count() > 1)
        if r.random() < 0.4:
            stmt = stmt.order_by(self.order(d - 1), *([self.order(d - 1)] if r.random() < 0.3 else []))
        k = r.random()
        if k < 0.2:
            stmt = stmt.limit(r.choice([0, 1, 10]))
        elif k < 0.35:
            stmt = stmt.limit(5).offset(r.choice([0, 3]))
        elif k < 0.42:
            stmt = stmt.offset(2)
        elif k < 0.48:
            stmt = stmt.limit(sa.bindparam("lim", 5)).offset(sa.literal(1) + 1)
        elif k < 0.55:
            stmt = stmt.fetch(r.choice([1, 3]), with_ties=r.random() < 0.4, percent=r.random() < 0.3)
            if r.random() < 0.5:
                stmt = stmt.offset(1)
        elif k < 0.6:
            stmt = stmt.slice(1, 4)
        if r.random() < 0.15:
            stmt = stmt.distinct()
        elif r.random() < 0.05:
            stmt = stmt.distinct(self.col())
        if r.random() < 0.12:
            stmt = stmt.with_for_update(**self.for_update_kw())
        if r.random() < 0.06:
            stmt = stmt.prefix_with("SQL_NO_CACHE", dialect=r.choice(["*", "mysql"])).suffix_with("/* s */")
        if r.random() < 0.06:
            stmt = stmt.with_hint(self.t1, "WITH (NOLOCK)", r.choice(["*", "mssql", "oracle"])).with_statement_hint("OPTION (x)", "mssql")
        if r.random() < 0.1:
            stmt = stmt.execution_options(schema_translate_map={None: "tr", "sch": "tr2"})
        return stmt

    def compound(self, d):
        sa, r = self.sa, self.r
        a = sa.select(self.t1.c.id, self.t1.c.name).where(self.boolean(d - 1))
        b = sa.select(self.t2.c.id, self.t2.c.s)
        if r.random() < 0.3:
            b = b.limit(3)
        f = r.choice([sa.union, sa.union_all, sa.intersect, sa.intersect_all, sa.except_, sa.except_all])
        c = f(a, b, *([sa.select(sa.literal(1), sa.literal("z"))] if r.random() < 0.3 else []))
        if r.random() < 0.5:
            c = c.order_by(sa.text("1") if r.random() < 0.5 else "id").limit(r.choice([None, 5])).offset(r.choice([None, 1]))
        if r.random() < 0.3:
            sq = c.subquery("u")
            return sa.select(sq.c.id, sa.func.count()).group_by(sq.c.id)
        return c

    def cte(self, d):
        sa, r = self.sa, self.r
        if r.random() < 0.5:
            base = sa.select(self.t1.c.id, sa.literal(0).label("lvl")).where(self.t1.c.id == 1).cte("tree", recursive=True)
            rec = base.union_all(sa.select(self.t1.c.id, base.c.lvl + 1).join(base, self.t1.c.id == base.c.id + 1))
            stmt = sa.select(rec.c.id, rec.c.lvl).where(rec.c.lvl < 5)
        else:
            c1 = self.select(d - 1, simple=True).cte("c1", nesting=r.random() < 0.2)
            if r.random() < 0.3:
                c1 = c1.prefix_with(r.choice(["MATERIALIZED", "NOT MATERIALIZED"]))
            stmt = sa.select(c1).where(sa.exists(sa.select(self.t2.c.id).where(self.t2.c.id > 0)))
        k = r.random()
        if k < 0.2:
            ins_cte = sa.insert(self.t2).values(x=1).returning(self.t2.c.id).cte("ins")
            stmt = sa.select(ins_cte.c.id)
        elif k < 0.35:
            c2 = sa.select(self.t2.c.x).cte("c2")
            stmt = sa.insert(self.t1).from_select(["id"], sa.select(c2.c.x)) if r.random() < 0.5 else sa.update(self.t1).values(val=sa.select(sa.func.max(c2.c.x)).scalar_subquery())
            if r.random() < 0.5:
                stmt = stmt.returning(self.t1.c.id)
        elif k < 0.45:
            c2 = sa.select(self.t2.c.x).cte("c2")
            stmt = sa.delete(self.t1).where(self.t1.c.id.in_(sa.select(c2.c.x)))
        elif k < 0.62:
            # DML (multi-table criteria, subquery values, upserts) with RETURNING used AS a CTE
            join = self.t1.c.id == self.t2.c.t1_id
            inner = r.choice([
                lambda: sa.update(self.t1).values(name=self.t2.c.s).where(join),
                lambda: sa.delete(self.t1).where(join).where(self.t2.c.x > 1),
                lambda: sa.update(self.t1).values(val=self.subq_scalar(d - 1)).where(sa.exists(self.subq_select(d - 1))),
                lambda: sa.insert(self.t1).from_select(["id", "name"], self.subq_select(d - 1, cols=[self.t2.c.id, self.t2.c.s])),
                lambda: sa.delete(self.t2).where(self.t2.c.x.in_(self.subq_select(d - 1))),
            ])()
            dcte = inner.returning(self.t1.c.id if inner.table is self.t1 else self.t2.c.id).cte("dml_cte")
            outer = r.random()
            if outer < 0.4:
                stmt = sa.select(dcte)
            elif outer < 0.7:
                stmt = sa.insert(self.t2).from_select(["id"], sa.select(dcte.c.id))
            else:
                stmt = sa.update(self.t2).values(x=sa.select(sa.func.count()).select_from(dcte).scalar_subquery()).where(self.t2.c.id.in_(sa.select(dcte.c.id)))
        return stmt

    def dml(self, d, dialect_name):
        sa, r = self.sa, self.r
        t = r.choice(self.tables)
        k = r.randint(0, 13)
        if k >= 12:
            k = 8  # upserts are a composition hot spot
        if k == 10:
            stmt = sa.update(self.t1).values(val=self.subq_scalar(d), name=sa.cast(self.subq_scalar(d - 1), sa.String)).where(sa.exists(self.subq_select(d - 1)))
        elif k == 11:
            stmt = sa.insert(self.t1).values(id=self.subq_scalar(d), name=sa.select(self.t2.c.s).where(self.t2.c.id == 1).with_for_update(**self.for_update_kw()).scalar_subquery()) if r.random() < 0.5 \
                else sa.delete(self.t1).where(self.t1.c.id.in_(self.subq_select(d))).where(self.t1.c.val > self.subq_scalar(d - 1))
        elif k == 0:
            stmt = sa.insert(t).values({c.name: self.lit() if r.random() < 0.7 else self.num(d - 1) for c in r.sample(list(t.c), r.randint(0, 3))})
        elif k == 1:
            stmt = sa.insert(t).values([{"id": 1}, {"id": 2}]) if r.random() < 0.7 else sa.insert(t)
        elif k == 2:
            stmt = sa.insert(self.t1).from_select(["id", "name"], sa.select(self.t2.c.id, self.t2.c.s).where(self.boolean(d - 1)), include_defaults=r.random() < 0.5)
        elif k == 3:
            stmt = sa.update(t).where(self.boolean(d - 1)).values({t.c.id: t.c.id + 1})
        elif k == 4:
            stmt = sa.update(self.t1).values(name=self.t2.c.s).where(self.t1.c.id == self.t2.c.t1_id)
        elif k == 5:
            stmt = sa.update(self.t1).ordered_values((self.t1.c.val, self.num(d - 1)), (self.t1.c.name, "x"))
        elif k == 6:
            stmt = sa.delete(t).where(self.boolean(d - 1))
        elif k == 7:
            stmt = sa.delete(self.t1).where(self.t1.c.id == self.t2.c.t1_id).where(self.t2.c.x > 3)
        elif k == 8:
            stmt = self.upsert(dialect_name, d)
        else:
            stmt = sa.update(t).values(id=sa.bindparam("b_id")).where(t.c.id == sa.bindparam("w_id"))
        if r.random() < 0.35 and hasattr(stmt, "returning"):
            stmt = stmt.returning(*r.choice([[t.c.id], list(t.c)[:2], [t], [sa.func.lower(sa.literal("X")).label("l")], [t.c.id + 1]]))
            if r.random() < 0.2:
                stmt = stmt.return_defaults()
        if r.random() < 0.1:
            stmt = stmt.prefix_with("OR REPLACE", dialect="sqlite") if hasattr(stmt, "prefix_with") else stmt
        if r.random() < 0.08 and hasattr(stmt, "with_hint"):
            stmt = stmt.with_hint("WITH (PAGLOCK)", dialect_name="mssql")
        return stmt

    def upsert(self, dialect_name, d=2):
        sa, r = self.sa, self.r
        which = dialect_name if r.random() < 0.8 else r.choice(["sqlite", "postgresql", "mysql"])

        def val(excluded):
            k = r.randint(0, 7)
            if k == 0: return excluded.name
            if k == 1: return "z"
            if k == 2: return sa.func.lower(excluded.name)
            if k == 3: return self.subq_scalar(d)            # scalar subquery (possibly FOR UPDATE OF ...) in SET
            if k == 4: return sa.case((self.t1.c.id > 1, excluded.name), else_=sa.cast(self.subq_scalar(d), sa.String))
            if k == 5: return sa.func.coalesce(excluded.name, sa.select(self.t2.c.s).where(self.t2.c.t1_id == self.t1.c.id).limit(1).scalar_subquery())
            if k == 6: return self.t1.c.name + excluded.name
            return sa.literal("lit", literal_execute=True)

        def cond(excluded):
            k = r.randint(0, 6)
            if k == 0: return None
            if k == 1: return self.t1.c.name != excluded.name
            if k == 2: return self.t1.c.id > self.subq_scalar(d)   # scalar subquery in WHERE
            if k == 3: return sa.exists(self.subq_select(d))
            if k == 4: return self.t1.c.id.in_(self.subq_select(d))
            if k == 5: return sa.and_(self.t1.c.val.is_not(None), self.boolean(1))
            return self.t1.c.id == sa.select(sa.func.min(self.t2.c.x)).with_for_update(of=self.t2).scalar_subquery()

        if which in ("sqlite", "postgresql"):
            from sqlalchemy.dialects import postgresql, sqlite

            mod = sqlite if which == "sqlite" else postgresql
            ins = mod.insert(self.t1)
            k = r.random()
            if k < 0.6:
                ins = ins.values(id=1, name="a")
            elif k < 0.8:
                ins = ins.values([{"id": 1, "name": "a"}, {"id": 2, "name": "b"}])
            else:
                ins = ins.from_select(["id", "name"], sa.select(self.t2.c.id, self.t2.c.s).where(self.t2.c.x > 0))
            k = r.random()
            if k < 0.25:
                kw = r.choice([{}, {"index_elements": ["id"]}, {"index_elements": [self.t1.c.id]}, {"index_elements": ["id"], "index_where": self.t1.c.id > 0}])
                if which == "postgresql" and r.random() < 0.3:
                    kw = {"constraint": r.choice(["t1_pkey", self.t1.primary_key])}
                stmt = ins.on_conflict_do_nothing(**kw)
            else:
                kw = dict(
                    index_elements=r.choice([["id"], [self.t1.c.id], ["id", "name"], [sa.func.lower(self.t1.c.name)] if which == "postgresql" else ["id"]]),
                    index_where=r.choice([None, None, self.t1.c.id > 0, self.t1.c.name != "x"]),
                )
                if which == "postgresql" and r.random() < 0.25:
                    kw = {"constraint": r.choice(["t1_pkey", self.t1.primary_key])}
                nset = r.randint(1, 3)
                keys = r.sample(["name", "val", "flag"], nset)
                set_ = {}
                for kname in keys:
                    v = val(ins.excluded) if kname == "name" else (self.subq_scalar(d) if r.random() < 0.4 else self.num(1)) if kname == "val" else sa.true()
                    set_[kname if r.random() < 0.7 else self.t1.c[kname]] = v
                stmt = ins.on_conflict_do_update(set_=set_, where=cond(ins.excluded), **kw)
            if r.random() < 0.3:
                stmt = stmt.returning(self.t1.c.id, *([self.subq_scalar(d).label("rs")] if r.random() < 0.3 else []))
            return stmt
        from sqlalchemy.dialects import mysql

        ins = mysql.insert(self.t1).values(id=1, name="a")
        return ins.on_duplicate_key_update(r.choice([{"name": ins.inserted.name}, {"name": "q", "val": sa.func.values(self.t1.c.val)}, [("name", "a"), ("val", ins.inserted.val + 1)],
                                                     {"val": self.subq_scalar(d)}, {"name": sa.func.concat(ins.inserted.name, self.t1.c.name)}]))

    # -- DDL
    def ddl(self, d):
        sa, r = self.sa, self.r
        from sqlalchemy import schema as sch

        m = sa.MetaData(naming_convention=r.choice([None, None, {"ix": "ix_%(column_0_label)s", "uq": "uq_%(table_name)s_%(column_0_name)s", "fk": "fk_%(table_name)s_%(column_0_name)s_%(referred_table_name)s", "pk": "pk_%(table_name)s", "ck": "ck_%(table_name)s_%(constraint_name)s"}]))
        types = [sa.Integer, sa.BigInteger, sa.SmallInteger, sa.String(20), sa.String, sa.Text, sa.Unicode(5), sa.UnicodeText, sa.Float, sa.Float(5), sa.Double, sa.Numeric, sa.Numeric(8, 3),
                 sa.Boolean, sa.Date, sa.DateTime, sa.DateTime(timezone=True), sa.Time, sa.Interval, sa.LargeBinary, sa.LargeBinary(10), sa.JSON, sa.Uuid, sa.Uuid(as_uuid=False),
                 sa.Enum("a", "b", name="en"), sa.Enum("a", "b"), sa.Enum("x", name="e2", create_constraint=True), sa.Boolean(create_constraint=True, name="bck"), sa.PickleType, sa.ARRAY(sa.Integer),
                 sa.CHAR(2), sa.VARCHAR(5), sa.NCHAR(3), sa.NVARCHAR(4), sa.CLOB, sa.BLOB, sa.TIMESTAMP, sa.TIMESTAMP(timezone=True), sa.REAL, sa.DECIMAL(6, 2), sa.DOUBLE_PRECISION, sa.BINARY(3), sa.VARBINARY(4),
                 sa.String(10, collation="C"), sa.types.NullType]
        parent = sa.Table("par", m, sa.Column("id", sa.Integer, primary_key=True), sa.Column("k2", sa.Integer), sa.UniqueConstraint("id", "k2"))
        cols = []
        ncol = r.randint(1, 5)
        for i in range(ncol):
            ty = r.choice(types)
            kw = {}
            k = r.random()
            if k < 0.12:
                kw["server_default"] = r.choice(["x", sa.text("0"), sa.func.now(), sa.literal(5), sa.text("CURRENT_TIMESTAMP")])
            elif k < 0.2:
                cols.append(sa.Column("c%d" % i, sa.Integer, sa.Identity(start=r.choice([None, 1, 5]), increment=r.choice([None, 2]), always=r.random() < 0.3, cycle=r.choice([None, True]), minvalue=r.choice([None, 1]),
                                                                         on_null=r.choice([None, True])), primary_key=r.random() < 0.4))
                continue
            elif k < 0.27:
                cols.append(sa.Column("c%d" % i, sa.Integer, sa.Computed("id * 2", persisted=r.choice([None, True, False]))))
                continue
            elif k < 0.32:
                cols.append(sa.Column("c%d" % i, sa.Integer, sa.Sequence("seq%d" % i, start=r.choice([None, 3]), optional=r.random() < 0.3, schema=r.choice([None, "s"])), primary_key=r.random() < 0.3))
                continue
            if r.random() < 0.1:
                kw["comment"] = r.choice(["a comment", "it's", ""])
            if r.random() < 0.1:
                kw["unique"] = True
            if r.random() < 0.1:
                kw["index"] = True
            if r.random() < 0.1:
                kw["autoincrement"] = r.choice([True, False, "auto"])
            if r.random() < 0.08:
                kw.update(r.choice([{"sqlite_on_conflict_unique": "REPLACE", "unique": True}, {"sqlite_on_conflict_not_null": "FAIL"}, {"sqlite_on_conflict_primary_key": "IGNORE"}]))
            cols.append(sa.Column(r.choice(["c%d" % i, "Mixed%d" % i, "select%d" % i if i else "select", "with space %d" % i]), ty, primary_key=(i == 0 and r.random() < 0.7), nullable=r.choice([True, False, None]) if not (i == 0) else True, **kw))
        if not any(c.name == "id" for c in cols):
            cols.append(sa.Column("id", sa.Integer))
        # columns every generated DDL expression can draw on (operator families x DDL embedding)
        cols += [sa.Column("jdata", sa.JSON), sa.Column("sname", sa.String(30)), sa.Column("dts", sa.DateTime)]
        adhoc = sa.table("ddlsrc", sa.column("id", sa.Integer), sa.column("jdata", sa.JSON), sa.column("sname", sa.String(30)), sa.column("dts", sa.DateTime))

        def ddl_expr(kind):
            def mk():
                if kind == "bool":
                    return self.boolean(r.choice([1, 1, 2]))
                if kind == "num":
                    return self.num(r.choice([1, 2]))
                return self.any_expr(1)
            return self.with_froms([adhoc], mk)

        if r.random() < 0.3:
            try:
                cols.append(sa.Column("gen_c", sa.Integer, sa.Computed(ddl_expr("num"), persisted=r.choice([None, True, False]))))
            except Exception:
                pass
        if r.random() < 0.15:
            try:
                cols.append(sa.Column("dflt_c", sa.Integer, server_default=ddl_expr("num")))
            except Exception:
                pass
        extra = []
        names = [c.name for c in cols]
        if r.random() < 0.3:
            extra.append(sa.ForeignKeyConstraint([names[0]], ["par.id"], name=r.choice([None, "fk1"]), ondelete=r.choice([None, "CASCADE"]), onupdate=r.choice([None, "SET NULL"]),
                                                 deferrable=r.choice([None, True, False]), initially=r.choice([None, "DEFERRED"]), match=r.choice([None, "FULL"]), use_alter=r.random() < 0.2))
        if r.random() < 0.25:
            extra.append(sa.CheckConstraint(r.choice(["id > 0", sa.text("id < 10"), sa.column("id") > 5]), name=r.choice([None, "ck1", "ck with space"])))
        if r.random() < 0.3:
            try:
                extra.append(sa.CheckConstraint(ddl_expr("bool"), name=r.choice([None, "ck_gen"])))
            except Exception:
                pass
        if r.random() < 0.2:
            extra.append(sa.UniqueConstraint(*r.sample(names, min(2, len(names))), name=r.choice([None, "uq1"]), deferrable=r.choice([None, True])))

        def member(lo=0, hi=5):
            """a constraint / index member: real Column, column name, or an ad-hoc column()/literal_column()/text()"""
            k = r.randint(lo, hi)
            if k == 0: return r.choice(cols)
            if k == 1: return r.choice(names)
            if k == 2: return sa.column(r.choice(names + ["adhoc"]))
            if k == 3: return sa.literal_column(r.choice(["id", "lower(id)", "adhoc"]))
            if k == 4: return sa.column("adhoc", sa.Integer)
            return sa.text(r.choice(["id", "id DESC"]))

        for _ in range(r.choice([0, 0, 1, 1, 2])):
            n = r.choice([1, 1, 2, 3])
            kind = r.randint(0, 3)
            # PrimaryKeyConstraint only takes Columns / names, UNIQUE also ad-hoc column()/literal_column(); text() only in indexes
            mem = [member(0, 1) if kind == 1 else member(0, 4) if kind == 0 else member() for _ in range(n)]
            ckw = r.choice([{}, {}, {}, {"sqlite_on_conflict": "IGNORE"}, {"postgresql_nulls_not_distinct": True}, {"deferrable": True, "initially": "DEFERRED"},
                            {"postgresql_include": ["id"]}, {"mssql_clustered": True}, {"comment": "uq comment"}])
            try:
                if kind == 0:
                    extra.append(sa.UniqueConstraint(*mem, name=r.choice([None, "uq_adhoc"]), **ckw))
                elif kind == 1:
                    extra.append(sa.PrimaryKeyConstraint(*mem, name=r.choice([None, "pk_adhoc"]), **r.choice([{}, {"sqlite_on_conflict": "FAIL"}, {"mssql_clustered": False}, {"postgresql_include": ["id"]}])))
                elif kind == 2:
                    extra.append(sa.CheckConstraint(r.choice([sa.column("adhoc") > 1, sa.literal_column("id") != 3, sa.text("id > 2")]), name=r.choice([None, "ck_adhoc"]),
                                                    **r.choice([{}, {"sqlite_on_conflict": "ROLLBACK"}, {"postgresql_not_valid": True}])))
                else:
                    self._pending_index = (mem, r.choice([{}, {"unique": True}, {"sqlite_where": sa.column("adhoc") > 1}, {"postgresql_where": sa.literal_column("id") > 1},
                                                          {"mysql_length": 4}, {"mssql_include": ["id"]}, {"postgresql_using": "btree"}, {"oracle_compress": 1}]))
            except Exception:
                pass
        tkw = {}
        if r.random() < 0.15:
            tkw["comment"] = r.choice(["tbl comment", "it's"])
        if r.random() < 0.15:
            tkw["schema"] = r.choice(["sch", "Mixed Schema"])
        if r.random() < 0.15:
            tkw["prefixes"] = [r.choice(["TEMPORARY", "UNLOGGED", "GLOBAL TEMPORARY"])]
        if r.random() < 0.15:
            tkw.update(r.choice([{"mysql_engine": "InnoDB", "mysql_charset": "utf8mb4"}, {"sqlite_autoincrement": True}, {"postgresql_partition_by": "RANGE (id)"}, {"oracle_compress": True},
                                 {"sqlite_with_rowid": False}, {"postgresql_inherits": "par"}, {"mariadb_engine": "Aria"}, {"sqlite_strict": True}, {"postgresql_with_oids": False}, {"mssql_x": 1} if False else {"mysql_row_format": "DYNAMIC"}]))
        t = sa.Table(r.choice(["tb", "MixedTb", "order", "tb with space"]), m, *(cols + extra), **tkw)
        ix = None
        pend = getattr(self, "_pending_index", None)
        self._pending_index = None
        if pend is not None:
            try:
                ix = sa.Index(r.choice(["ix_adhoc", None]), *pend[0], **pend[1])
                if ix.table is None and r.random() < 0.7:
                    t.append_constraint(ix)
            except Exception:
                ix = None
        elif r.random() < 0.5:
            ikw = r.choice([{}, {}, {"unique": True}, {"postgresql_using": "gin"}, {"postgresql_where": t.c.id > 5}, {"sqlite_where": t.c.id > 5}, {"mysql_length": 5}, {"mysql_prefix": "FULLTEXT"}, {"mssql_clustered": True},
                            {"mssql_include": ["id"]}, {"oracle_bitmap": True}, {"postgresql_include": ["id"]}, {"postgresql_concurrently": True}, {"postgresql_ops": {"id": "int4_ops"}}, {"mssql_where": t.c.id > 1}, {"mysql_using": "hash"},
                            {"postgresql_nulls_not_distinct": True}, {"mariadb_length": {"id": 3}}])
            target = r.choice([[t.c.id], [t.c.id, cols[0]], [sa.func.lower(sa.cast(t.c.id, sa.String))], [t.c.id.desc()], [sa.text("id")]])
            if r.random() < 0.4:
                # functional index over a generated expression of the table's own columns
                try:
                    target = [self.with_froms([t], lambda: self.any_expr(1) if r.random() < 0.5 else self.json_expr())] + ([t.c.id] if r.random() < 0.3 else [])
                    if "postgresql_where" in ikw or "sqlite_where" in ikw or "mssql_where" in ikw:
                        wkey = [x for x in ikw if x.endswith("_where")][0]
                        ikw = dict(ikw)
                        ikw[wkey] = self.with_froms([t], lambda: self.boolean(1))
                except Exception:
                    target = [t.c.id]
            try:
                ix = sa.Index(r.choice(["ix1", "Mixed Ix", None]), *target, **ikw)
            except Exception:
                ix = None
        k = r.randint(0, 16)
        if k == 0: return sch.CreateTable(t, if_not_exists=r.random() < 0.3)
        if k == 1: return sch.DropTable(t, if_exists=r.random() < 0.3)
        if k == 2 and ix is not None: return sch.CreateIndex(ix, if_not_exists=r.random() < 0.3)
        if k == 3 and ix is not None: return sch.DropIndex(ix, if_exists=r.random() < 0.3)
        if k == 4 and extra: return sch.AddConstraint(extra[0])
        if k == 5 and extra: return sch.DropConstraint(extra[0], cascade=r.random() < 0.3, if_exists=r.random() < 0.2)
        if k == 6: return sch.CreateSequence(sa.Sequence("sq", start=r.choice([None, 1]), increment=r.choice([None, -1]), minvalue=r.choice([None, 1]), maxvalue=r.choice([None, 99]), cycle=r.choice([None, True]),
                                                         cache=r.choice([None, 5]), order=r.choice([None, True]), nominvalue=r.choice([None, True]), data_type=r.choice([None, sa.BigInteger]), metadata=m), if_not_exists=r.random() < 0.2)
        if k == 7: return sch.DropSequence(sa.Sequence("sq", schema=r.choice([None, "s"])), if_exists=r.random() < 0.3)
        if k == 8: return sch.CreateSchema(r.choice(["s1", "Mixed S"]), if_not_exists=r.random() < 0.3)
        if k == 9: return sch.DropSchema("s1", cascade=r.random() < 0.5, if_exists=r.random() < 0.3)
        if k == 10 and t.comment is not None: return sch.SetTableComment(t)
        if k == 11: return sch.DropTableComment(t)
        if k == 12:
            c = r.choice(list(t.c))
            return sch.SetColumnComment(c) if c.comment is not None else sch.DropColumnComment(c)
        if k == 13 and extra: return sch.SetConstraintComment(extra[0]) if r.random() < 0.5 else sch.DropConstraintComment(extra[0])
        if k == 14 and hasattr(sch, "CreateView"):
            try:
                return sch.CreateView(sa.select(self.t1.c.id, self.t1.c.name).where(self.t1.c.id > 1), r.choice(["v1", "Mixed V"]), metadata=sa.MetaData(), or_replace=r.random() < 0.3)
            except TypeError:
                return sch.CreateTable(t)
        if k == 15 and hasattr(sch, "CreateTableAs"):
            try:
                return sch.CreateTableAs(sa.select(self.t1.c.id).where(self.t1.c.id > 1), "cta", metadata=sa.MetaData(), temporary=r.random() < 0.3, if_not_exists=r.random() < 0.3)
            except TypeError:
                return sch.CreateTable(t)
        if k == 16: return sa.DDL(r.choice(["ALTER TABLE %(table)s RENAME TO x", "CREATE TRIGGER t", "SELECT '%%'"])).against(t)
        return sch.CreateTable(t)

    def construct(self, dialect_name):
        d = self.r.choice([1, 2, 2, 3])
        k = self.r.random()
        if k < 0.4:
            return "select", self.select(d)
        if k < 0.5:
            return "compound", self.compound(d)
        if k < 0.6:
            return "cte", (self.cte(d) if self.r.random() < 0.6 else self.shared_cte(d))
        if k < 0.8:
            return "dml", self.dml(d, dialect_name)
        return "ddl", self.ddl(d)


def directed_constructs():
    """always-run, seed-independent block: DDL constraints / indexes whose members are real Columns, column names
    or ad-hoc column() / literal_column() / text(), with 1 and 2 members, with and without per-dialect option
    kwargs, emitted through CreateTable, AddConstraint and CreateIndex.  Returns [(label, thunk -> DDL element)]."""
    import itertools

    import sqlalchemy as sa
    from sqlalchemy import schema as sch

    member_kinds = ["col", "name", "adhoc", "adhoc_typed", "literal", "text"]

    def member(kind, t_cols):
        if kind == "col": return t_cols[0]
        if kind == "name": return "id"
        if kind == "adhoc": return sa.column("adhoc")
        if kind == "adhoc_typed": return sa.column("id", sa.Integer)
        if kind == "literal": return sa.literal_column("id")
        return sa.text("id")

    opts = {
        "unique": [{}, {"sqlite_on_conflict": "IGNORE"}, {"postgresql_nulls_not_distinct": True}, {"mssql_clustered": True}, {"deferrable": True}, {"postgresql_include": ["k2"]}],
        "pk": [{}, {"sqlite_on_conflict": "FAIL"}, {"mssql_clustered": False}, {"postgresql_include": ["k2"]}],
        "index": [{}, {"unique": True}, {"mysql_length": 4}, {"postgresql_using": "btree"}, {"mssql_include": ["k2"]}, {"sqlite_where": sa.column("k2") > 1}, {"postgresql_where": sa.literal_column("k2") > 1},
                  {"oracle_compress": 1}],
        "check": [{}, {"sqlite_on_conflict": "ROLLBACK"}, {"postgresql_not_valid": True}],
    }
    out = []
    combos = [(k,) for k in member_kinds] + [p for p in itertools.product(member_kinds, repeat=2) if p[0] != p[1]][:14]
    for kind in ("unique", "pk", "index", "check"):
        for combo in combos:
            if kind in ("unique", "pk") and "text" in combo:
                continue  # not accepted by the constructors
            if kind == "pk" and any(m in ("adhoc", "adhoc_typed", "literal") for m in combo):
                continue  # PrimaryKeyConstraint over ad-hoc columns is rejected when the Table is built
            for oi, okw in enumerate(opts[kind]):
                for emit in ("create_table", "add_or_create", "column_opts"):
                    if emit == "column_opts" and oi != 0:
                        continue

                    def thunk(kind=kind, combo=combo, okw=okw, emit=emit):
                        m = sa.MetaData()
                        ckw = {}
                        if emit == "column_opts":
                            ckw = {"sqlite_on_conflict_unique": "REPLACE", "sqlite_on_conflict_primary_key": "IGNORE", "sqlite_on_conflict_not_null": "FAIL"}
                        cols = [sa.Column("id", sa.Integer, nullable=False, **ckw), sa.Column("k2", sa.Integer)]
                        mem = [member(k, cols) for k in combo]
                        if kind == "unique":
                            c = sa.UniqueConstraint(*mem, name=None if emit == "column_opts" else "uq_d", **okw)
                        elif kind == "pk":
                            c = sa.PrimaryKeyConstraint(*mem, name="pk_d", **okw)
                        elif kind == "check":
                            e = mem[0] if not isinstance(mem[0], str) else sa.column(mem[0])
                            c = sa.CheckConstraint(e > 0 if hasattr(e, "__gt__") and not isinstance(e, sa.sql.elements.TextClause) else e, name="ck_d", **okw)
                        else:
                            c = None
                        t = sa.Table("dt", m, *(cols + ([c] if c is not None else [])))
                        if kind == "index":
                            ix = sa.Index("ix_d", *[x if not isinstance(x, str) else t.c[x] for x in mem], **okw)
                            if ix.table is None:
                                t.append_constraint(ix)
                            return sch.CreateIndex(ix) if emit != "create_table" else sch.CreateTable(t)
                        if emit == "add_or_create":
                            return sch.AddConstraint(c)
                        return sch.CreateTable(t)

                    out.append(("%s/%s/opt%d/%s" % (kind, "+".join(combo), oi, emit), thunk))
    return out


def compile_directed(idx, dialect_name):
    """compile directed construct number idx on a plain dialect instance; (label, outcome, detail)"""
    from sqlalchemy import exc

    label, thunk = directed_constructs()[idx]
    d = get_dialect(dialect_name)
    with warnings.catch_warnings():
        warnings.simplefilter("ignore")
        try:
            el = thunk()
        except Exception as e:  # noqa: not accepted by the constructors
            return label, "rejected-by-constructor", type(e).__name__
        try:
            str(el.compile(dialect=d))
            return label, "ok", ""
        except exc.SQLAlchemyError as e:
            n = type(e).__name__
            return label, ("documented:" + n) if n in DOCUMENTED else ("internal:" + n), str(e)[:300]
        except Exception as e:  # noqa
            return label, "internal:" + type(e).__name__, _where(e)


def dialect_variant(name, rng):
    """dialect instance with an option variant; returns (dialect, description)"""
    d = get_dialect(name)
    desc = []
    k = rng.random()
    if name == "mssql":
        v = rng.choice([None, (8,), (9,), (10,), (11,), (13,), (16,)])
        if v is not None:
            d.server_version_info = v
            if hasattr(d, "_setup_version_attributes"):
                try:
                    d._setup_version_attributes()
                except Exception:
                    pass
            d._supports_offset_fetch = v >= (11,)
            desc.append("server_version=%s" % (v,))
        if rng.random() < 0.2:
            d.legacy_schema_aliasing = True
            desc.append("legacy_schema_aliasing")
    elif name == "oracle":
        v = rng.choice([None, (8, 0), (9, 2), (11, 2), (12, 1), (12, 2), (19,), (23,)])
        if v is not None:
            d.server_version_info = v
            desc.append("server_version=%s" % (v,))
        if rng.random() < 0.2:
            d.use_ansi = False
            desc.append("use_ansi=False")
        if rng.random() < 0.2:
            d.optimize_limits = True
            desc.append("optimize_limits")
    elif name in ("mysql", "mariadb"):
        v = rng.choice([None, (5, 5), (5, 7, 20), (8, 0, 1), (8, 0, 21), (10, 2, 1), (10, 6)])
        if v is not None:
            d.server_version_info = v
            desc.append("server_version=%s" % (v,))
            # the flags Dialect.initialize() derives from the server version
            try:
                d._casing = 0
                (d._initialize_mariadb if d.is_mariadb else d._initialize_mysql)(None)
            except Exception:
                pass
    elif name == "postgresql":
        v = rng.choice([None, (9, 4), (9, 6), (10,), (12,), (14,), (16,), (18,)])
        if v is not None:
            d.server_version_info = v
            desc.append("server_version=%s" % (v,))
            d.supports_smallserial = v >= (9, 2)
            d._supports_drop_index_concurrently = v >= (9, 2)
            d.supports_identity_columns = v >= (10,)
            d._supports_jsonb_subscripting = v >= (14,)
            if hasattr(d, "supports_virtual_generated_columns"):
                d.supports_virtual_generated_columns = v >= (18,)
    elif name == "sqlite":
        if rng.random() < 0.3:
            d.server_version_info = rng.choice([(3, 7, 16), (3, 24, 0), (3, 35, 0)])
            desc.append("server_version=%s" % (d.server_version_info,))
    if k < 0.3:
        ps = rng.choice(["qmark", "numeric", "named", "format", "pyformat", "numeric_dollar"])
        try:
            d2 = type(d)(paramstyle=ps)
            d2.server_version_info = getattr(d, "server_version_info", None)
            for a in ("_supports_offset_fetch", "use_ansi", "optimize_limits", "legacy_schema_aliasing"):
                if hasattr(d, a):
                    setattr(d2, a, getattr(d, a))
            d = d2
            desc.append("paramstyle=" + ps)
        except Exception:
            pass
    return d, ",".join(desc)


def compile_one(gen_seed, dialect_name):
    """regenerate the construct for gen_seed and compile it; returns (kind, variant, outcome, detail)"""
    from sqlalchemy import exc

    vr = random.Random("c22v:%s:%s" % (gen_seed, dialect_name))
    with warnings.catch_warnings():
        warnings.simplefilter("ignore")
        d, vdesc = dialect_variant(dialect_name, vr)
    ck = vr.choice([{}, {}, {}, {"literal_binds": True}, {"render_postcompile": True}, {"literal_binds": True, "render_postcompile": True}])
    with warnings.catch_warnings():
        warnings.simplefilter("ignore")
        try:
            g = Gen("c22g:%s" % gen_seed)
            kind, stmt = g.construct(dialect_name)
        except Exception as e:  # noqa: not accepted by the constructors -> outside the property
            return "construct", vdesc, "rejected-by-constructor", type(e).__name__ + ": " + str(e)[:120]
        try:
            c = stmt.compile(dialect=d, compile_kwargs=ck)
            str(c)
            c.params if not ck.get("literal_binds") and hasattr(c, "params") else None
            return kind, vdesc + (",ck=%s" % sorted(ck) if ck else ""), "ok", ""
        except exc.SQLAlchemyError as e:
            n = type(e).__name__
            return kind, vdesc, ("documented:" + n) if n in DOCUMENTED else ("internal:" + n), str(e)[:300]
        except NotImplementedError as e:
            return kind, vdesc, "internal:NotImplementedError", _where(e)
        except Exception as e:  # noqa
            return kind, vdesc, "internal:" + type(e).__name__, _where(e)


def _where(e):
    """exception + the innermost frame inside a compiler / dialect module (that is where the
    responsibility lies; frames of generic helpers such as ColumnElement.__getattr__ are skipped)"""
    import traceback

    tb = traceback.extract_tb(e.__traceback__)
    fr = [f for f in tb if "sqlalchemy" in f.filename]
    comp = [f for f in fr if ("sql/compiler.py" in f.filename or "/dialects/" in f.filename) and not f.name.startswith("<")]
    last = comp[-1] if comp else (fr[-1] if fr else tb[-1])
    return "%s: %s @ %s:%s in %s" % (type(e).__name__, str(e)[:160], last.filename.split("sqlalchemy/")[-1], last.lineno, last.name)


def classify(kind, dialect_name, outcome, detail):
    """specific key of a violation, computed from where the internal exception comes from"""
    loc = detail.split(" @ ")[-1] if " @ " in detail else ""
    fn = loc.split(" in ")[-1] if " in " in loc else ""
    mod = loc.split(":")[0].replace("/", ".").replace(".py", "")
    return "%s@%s.%s" % (outcome.split(":", 1)[1], mod, fn)


def run(ctx, deep=False):
    from sqlalchemy import exc
    from sqlalchemy.sql import elements, type_api
    from sqlalchemy.sql import ddl as sqlddl

    thorough = ctx.tier == "thorough" or deep
    rng = ctx.rng
    ctx.rule = (
        "seeded generator of Core constructs (selects: joins incl. lateral/full, subqueries, VALUES, TABLESAMPLE, GROUP BY/ROLLUP, windows with rows/range/groups, FILTER, WITHIN GROUP, "
        "LIMIT/OFFSET/FETCH variants, FOR UPDATE, hints, schema_translate_map; compound selects; recursive / nesting / DML CTEs; INSERT/UPDATE/DELETE incl. multi-values, from_select, "
        "ordered_values, multi-table, RETURNING, sqlite/postgresql/mysql upserts; DDL: CreateTable over 46 types with Identity/Computed/Sequence/defaults/comments/dialect options and generated CHECK / Computed / server_default / functional-index expressions (incl. the JSON index/path operator family); CTEs (plain/recursive x nesting) shared by 1-3 sibling sub-statements, "
        "indexes with dialect options, constraints, sequences, schemas, comments, views, CTAS, DDL()) x 6 dialects x option variants (server versions, paramstyles, literal_binds, render_postcompile); "
        "a case is non-trivial when the construct compiled or raised (i.e. was accepted by the constructors)"
    )
    ctx.trusted.append("the generator only calls public constructors with arguments of the documented types")
    ctx.assumptions.append("ORM-enabled statements are not generated (Core and DDL only)")
    # ---- dispatch table vs real dispatch
    names = all_visit_names()
    cases, impl, reqs = [], [], []

    def synth(kind, vn):
        base = {"sql": elements.ColumnElement, "ddl": sqlddl.BaseDDLElement, "type": type_api.TypeEngine}[kind]
        return type("Synth_" + vn, (base,), {"__visit_name__": vn, "inherit_cache": False})

    probe = [("sql", "c22_no_such_visit_name"), ("ddl", "c22_no_such_visit_name"), ("type", "c22_no_such_visit_name")]
    for di, dn in enumerate(DIALECTS):
        d = get_dialect(dn)
        cc = compiler_classes(d)
        sample = names if thorough else [n for n in names if rng.random() < 0.25]
        for kind, vn in sample + probe:
            has = hasattr(cc[kind], "visit_" + vn)
            if has:
                out = "method"
            else:
                # really dispatch a synthetic element: must end in UnsupportedCompilationError
                try:
                    el = synth(kind, vn)()
                    if kind == "type":
                        d.type_compiler_instance.process(el)
                    elif kind == "ddl":
                        d.ddl_compiler(d, el)
                    else:
                        d.statement_compiler(d, el)
                    out = "method"
                except exc.UnsupportedCompilationError:
                    out = "unsupported"
                except Exception as e:  # noqa
                    out = "internal:" + type(e).__name__
                    ctx.violation("dispatch-internal-error", {"dialect": dn, "kind": kind, "visit_name": vn}, "dispatching a %s element with __visit_name__=%r on %s raised %s" % (kind, vn, dn, type(e).__name__))
            cases.append({"dialect": dn, "kind": kind, "visit_name": vn})
            impl.append(out)
            reqs.append("visit dispatch %d %d %s" % (di, KINDS.index(kind), vn))
        ctx.count("dispatch-rows", len(sample))
    if ctx.driver_ok():
        ctx.correspond("corr/c22:visitor-dispatch-vs-Model.Visit", cases, impl, ctx.driver(reqs))
    # ---- directed block (seed independent): constraints / indexes over ad-hoc members on every dialect
    for idx in range(len(directed_constructs())):
        for dn in DIALECTS:
            label, outcome, detail = compile_directed(idx, dn)
            ctx.case(("directed", idx, dn), nontrivial=outcome != "rejected-by-constructor")
            ctx.count("directed=" + outcome.split(":")[0])
            if outcome.startswith("internal"):
                ctx.violation(classify("ddl", dn, outcome, detail), {"directed": idx, "label": label, "dialect": dn}, "directed %s on %s: %s" % (label, dn, detail))
    # ---- compile fuzz
    risky = bool(_state.get("new_kw_sites"))
    if risky:
        ctx.assumptions.append("new explicit-keyword-next-to-**kw call sites: %s - deep fuzz budget" % ", ".join(_state["new_kw_sites"]))
    n = 6000 if (thorough or risky) else 900
    for k in range(n):
        gs = "%s:%d" % (ctx.seed, k) if not deep else "%s:d%d" % (ctx.seed, k)
        for dn in (DIALECTS if (thorough or risky or k % 3 == 0) else [rng.choice(DIALECTS)]):
            kind, variant, outcome, detail = compile_one(gs, dn)
            ctx.case((gs, dn), nontrivial=outcome != "rejected-by-constructor")
            ctx.count("kind=" + kind)
            ctx.count("outcome=" + outcome.split(":")[0] + (":" + outcome.split(":")[1] if outcome.startswith("documented") else ""))
            if outcome.startswith("internal"):
                ctx.violation(classify(kind, dn, outcome, detail), {"gen_seed": gs, "dialect": dn}, "%s on %s [%s]: %s" % (kind, dn, variant, detail))
            elif outcome == "ok" and k % 150 == 0:
                ctx.sample({"gen_seed": gs, "dialect": dn, "kind": kind, "variant": variant})
    ctx.exhaustive = False


def search(ctx, broken):
    sub = type(ctx)(ctx.pid, "thorough", ctx.seed + 1, ctx.level)
    run(sub, deep=True)
    ctx.violations.extend(sub.violations)


def replay(ctx, obj):
    c = obj["case"]
    if "directed" in c:
        label, outcome, detail = compile_directed(c["directed"], c["dialect"])
        print("replay C22 directed %s on %s -> %s %s" % (label, c["dialect"], outcome, detail))
        return outcome.startswith("internal")
    if "gen_seed" not in c:
        print("replay C22: dispatch case %r (re-run the check)" % (c,))
        return True
    kind, variant, outcome, detail = compile_one(c["gen_seed"], c["dialect"])
    print("replay C22 %s on %s [%s] -> %s %s" % (kind, c["dialect"], variant, outcome, detail))
    return outcome.startswith("internal")
