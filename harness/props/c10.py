"""C10 — Result objects deliver exactly the underlying rows under any access pattern.

Model:    lean/SaVerif/Model/Result.lean (transcription of engine/cursor.py fetch
          strategies, engine/result.py Iterator/Chunked/Merged/Frozen results and the
          getters of engine/_result_cy.py, written once over a record of source
          primitives; `Src` = the real strategies, `Plain` = a bare list)
Theorems: lean/SaVerif/Props/C10.lean
Check:    random operation sequences on real CursorResult (SQLite; default, stream_results /
          max_row_buffer, fully buffered), IteratorResult, ChunkedIteratorResult,
          MergedResult and thawed FrozenResult objects, in source mode;
          (1) direct oracle = an independent Python list model of the property,
          (2) correspondence = canonical outputs vs the Lean driver running `Src.ops`.
"""
import itertools
import json
import warnings

PID = "C10"
LEVEL = "proof"
LEAN = ["SaVerif.Props.C10"]
META = {
    "text": "Lean theorems for every operation sequence, row list, buffer size / growth factor / max_row_buffer / yield_per: the Result-level machinery run over the real fetch strategies (default, BufferedRow, FullyBuffered, Iterator, Chunked, Merged) returns exactly what it returns over a bare list (refinement by induction over the op list, invariant buffer ++ cursor = remaining rows); on the bare list fetchmany/fetchone/iteration/partitions/all equal take/drop, unique fetches return the first n unseen rows in order, one()/one_or_none()/first() raise or return as the de-duplicated remainder dictates (partial: unique + rows already delivered, finding F17), frozen results replay their data and merged results concatenate. The model is tied to the code by a differential run of generated op sequences against the real classes in source mode, and the property itself is re-checked on the implementation's outputs by an independent list oracle.",
    "note": "Trusted: Lean kernel; pysqlite cursor semantics (list + take/drop, arraysize 1); the correspondence harness. Not modelled: HasMemoized getter caching (assumption A: a ScalarResult/MappingResult gets unique() before its first fetch), a unique-filtered Result is not fetched from again after a view was derived from it (shared set), fetchmany/yield_per sizes >= 1, result processors (C09), ORM unique filters. _partial theorems: onlyone_unique_spec_partial (F17), refinement needs no-hazard hypothesis (first()/one() on an auto-closed CursorResult does not hard-close; ChunkedIteratorResult.yield_per after a fetch and dynamic_yield_per fetchmany drop the rest of the held chunk).",
    "technique": "Lean 4 refinement proof (generic over a source interface, instances for each fetch strategy) + differential correspondence on generated op sequences + independent list oracle",
    "design_ref": "DESIGN.md §3 C10",
}

KEYS = ["c0", "c1", "c2"]
# value pool: code -> python value.  ints are their own code.
SPECIAL = {50: None, 51: "a", 52: "b", 53: 2.5}
UNHASHABLE = {1000: [0], 1001: [1]}


def val_of(code):
    if code in SPECIAL:
        return SPECIAL[code]
    if code in UNHASHABLE:
        return list(UNHASHABLE[code])
    return code


def code_of(v):
    if v is None:
        return 50
    if isinstance(v, str):
        return {"a": 51, "b": 52}[v]
    if isinstance(v, float):
        return 53
    if isinstance(v, list):
        return 1000 + v[0]
    return int(v)


ONLYONE = ("first", "one", "oon", "scalar", "s1", "s1n")
FETCH1 = ("f1", "nx", "it")


# ------------------------------------------------------------------ op text
def op_text(op):
    """op tuple -> driver token"""
    name = op[0]
    if name == "tup":
        return None
    if name == "all":
        op = op[:2]
    out = []
    for x in op:
        if x is None:
            out.append("N")
        elif isinstance(x, (list, tuple)):
            out.append(".".join(str(i) for i in x))
        else:
            out.append(str(x))
    return ":".join(out)


def rows_text(rows):
    return ";".join(".".join(str(c) for c in r) for r in rows) if rows else "-"


def case_line(cmd, case, nops=None):
    ops = case["ops"] if nops is None else case["ops"][:nops]
    toks = [t for t in (op_text(o) for o in ops) if t is not None]
    if case["kind"].startswith("merged:"):
        rows = "|".join(rows_text(g) for g in case["groups"])
    else:
        rows = rows_text(case["rows"])
    return "result %s %s %d %d %s %s" % (
        cmd, case["kind"], 1 if case["sss"] else 0, case["width"], rows, ";".join(toks) if toks else "-")


# ------------------------------------------------------------------ real objects
class Env:
    def __init__(self):
        import sqlalchemy as sa

        self.sa = sa
        self.engine = sa.create_engine("sqlite://")
        self.conn = self.engine.connect()
        self.tables = {}
        for w in (1, 2, 3):
            cols = ", ".join("c%d" % i for i in range(w))
            self.conn.exec_driver_sql("create table t%d (cid integer, pos integer, %s)" % (w, cols))
            self.conn.exec_driver_sql("create index ix%d on t%d (cid, pos)" % (w, w))
            self.tables[w] = sa.table(
                "t%d" % w, sa.column("cid"), sa.column("pos"), *[sa.column("c%d" % i) for i in range(w)])
        self.cid = 0

    def close(self):
        self.conn.close()
        self.engine.dispose()

    def cursor_result(self, kind, rows, width):
        sa = self.sa
        from sqlalchemy.engine import cursor as _cursor

        self.cid += 1
        cid = self.cid
        if rows:
            self.conn.connection.cursor().executemany(
                "insert into t%d values (%s)" % (width, ",".join("?" * (width + 2))),
                [(cid, i) + tuple(val_of(c) for c in r) for i, r in enumerate(rows)])
        t = self.tables[width]
        stmt = sa.select(*[t.c["c%d" % i] for i in range(width)]).where(t.c.cid == cid).order_by(t.c.pos)
        if kind.startswith("buffered:"):
            m = int(kind.split(":")[1])
            stmt = stmt.execution_options(stream_results=True, max_row_buffer=m)
        res = self.conn.execute(stmt)
        if kind.startswith("buffered:"):
            assert type(res.cursor_strategy) is _cursor.BufferedRowCursorFetchStrategy
        elif kind == "full":
            res.cursor_strategy = _cursor.FullyBufferedCursorFetchStrategy(res.cursor)
        else:
            assert type(res.cursor_strategy) is _cursor.CursorFetchStrategy
        return res


def raw_rows(rows, sss):
    if sss:
        return [val_of(r[0]) for r in rows]
    return [tuple(val_of(c) for c in r) for r in rows]


def make_result(env, kind, rows, width, sss):
    from sqlalchemy.engine import result as _result

    if kind in ("default", "full") or kind.startswith("buffered:"):
        return env.cursor_result(kind, rows, width)
    md = _result.SimpleResultMetaData(KEYS[:width])
    if kind == "iter":
        return _result.IteratorResult(md, iter(raw_rows(rows, sss)), _source_supports_scalars=sss)
    if kind.startswith("chunked:"):
        src = iter(raw_rows(rows, sss))

        def chunks(size):
            # same shape as orm.loading.instances.chunks
            while True:
                if size:
                    ch = list(itertools.islice(src, 0, size))
                    if not ch:
                        break
                    yield ch
                else:
                    yield list(src)
                    break

        return _result.ChunkedIteratorResult(
            md, chunks, source_supports_scalars=sss, dynamic_yield_per=kind.endswith(":1"))
    raise ValueError(kind)


def build(env, case):
    if case["kind"].startswith("merged:"):
        kinds = case["kind"][7:].split("+")
        rs = [make_result(env, k, g, case["width"], case["sss"]) for k, g in zip(kinds, case["groups"])]
        return rs[0].merge(*rs[1:])
    return make_result(env, case["kind"], case["rows"], case["width"], case["sss"])


def strat_fn(name):
    from sqlalchemy.engine.row import Row

    def vals(x):
        return tuple(x) if isinstance(x, (Row, tuple)) else (x,)

    if name == "ident":
        return None
    if name == "first":
        return lambda x: vals(x)[0]
    if name == "parity":
        return lambda x: sum(code_of(v) for v in vals(x)) % 2
    raise ValueError(name)


def canon_item(x):
    """implementation object -> (canonical text, structural remarks)"""
    from sqlalchemy.engine.row import Row, RowMapping

    if isinstance(x, RowMapping):
        return "{" + ".".join(str(code_of(v)) for v in x.values()) + "}"
    if isinstance(x, Row):
        return "(" + ".".join(str(code_of(v)) for v in x) + ")"
    if isinstance(x, tuple):
        return "T(" + ".".join(str(code_of(v)) for v in x) + ")"
    return str(code_of(x))


def canon_exc(e):
    from sqlalchemy import exc

    if isinstance(e, exc.ResourceClosedError):
        return "E:closed"
    if isinstance(e, exc.NoResultFound):
        return "E:noresult"
    if isinstance(e, exc.MultipleResultsFound):
        return "E:multiple"
    if isinstance(e, StopIteration):
        return "E:stop"
    if isinstance(e, TypeError) and "unhashable" in str(e):
        return "E:unhashable"
    if isinstance(e, IndexError):
        return "E:index"
    return "E:other:%s:%s" % (type(e).__name__, str(e)[:80])


def run_impl(env, case):
    """Execute the op sequence on the real classes.  Returns (outs, extras):
    outs[i] canonical text per op (None for harness-only ops), extras[i] dict with
    additional observations (mapping keys)."""
    res = build(env, case)
    view = None
    outs, extras = [], []
    with warnings.catch_warnings():
        warnings.simplefilter("ignore")
        for op in case["ops"]:
            name = op[0]
            ex = {}
            try:
                tgt = None
                if len(op) > 1 and op[1] in ("r", "v"):
                    tgt = res if op[1] == "r" else view
                if name == "tup":
                    res = res.tuples()
                    out = None
                elif name == "uq":
                    r2 = tgt.unique(strat_fn(op[2]))
                    ex["same"] = r2 is tgt
                    out = "U"
                elif name == "cols":
                    r2 = tgt.columns(*op[2])
                    ex["same"] = r2 is tgt
                    out = "U"
                elif name == "yp":
                    r2 = tgt.yield_per(op[2])
                    ex["same"] = r2 is tgt
                    out = "U"
                elif name == "sc":
                    view = res.scalars(op[1])
                    out = "U"
                elif name == "map":
                    view = res.mappings()
                    out = "U"
                elif name == "f1":
                    x = tgt.fetchone()
                    out = "N" if x is None else "I" + canon_item(x)
                    if x is not None and hasattr(x, "keys") and op[1] == "v":
                        ex["keys"] = list(x.keys())
                elif name == "nx":
                    x = next(tgt)
                    out = "I" + canon_item(x)
                elif name == "fm":
                    xs = tgt.fetchmany(op[2]) if op[2] is not None else tgt.fetchmany()
                    out = "L[" + ",".join(canon_item(x) for x in xs) + "]"
                elif name == "all":
                    xs = tgt.all() if op[-1] == "all" else tgt.fetchall()
                    out = "L[" + ",".join(canon_item(x) for x in xs) + "]"
                    if xs and hasattr(xs[0], "keys") and op[1] == "v":
                        ex["keys"] = list(xs[0].keys())
                elif name == "it":
                    it = iter(tgt)
                    xs = []
                    for _ in range(op[2]):
                        try:
                            xs.append(next(it))
                        except StopIteration:
                            break
                    out = "L[" + ",".join(canon_item(x) for x in xs) + "]"
                elif name == "pt":
                    gen = tgt.partitions(op[2]) if op[2] is not None else tgt.partitions()
                    ps = []
                    for _ in range(op[3]):
                        try:
                            ps.append(next(gen))
                        except StopIteration:
                            break
                    out = "P" + "|".join("[" + ",".join(canon_item(x) for x in p) + "]" for p in ps)
                elif name in ("first", "one", "oon"):
                    x = {"first": tgt.first, "one": tgt.one, "oon": tgt.one_or_none}[name]()
                    # a ScalarResult returns the value None for NULL: "N?" = None of either kind
                    is_sc = type(tgt).__name__ == "ScalarResult"
                    out = ("N?" if is_sc else "N") if x is None else "I" + canon_item(x)
                elif name in ("scalar", "s1", "s1n"):
                    x = {"scalar": res.scalar, "s1": res.scalar_one, "s1n": res.scalar_one_or_none}[name]()
                    # None is both "no row" and a NULL value; the model prints V50 for NULL
                    out = ("N?" if x is None else "V" + canon_item(x))
                elif name == "close":
                    tgt.close()
                    out = "U"
                elif name == "closed":
                    out = "B1" if tgt.closed else "B0"
                elif name == "freeze":
                    fr = res.freeze()
                    a = fr()
                    b = fr()
                    ex["twice"] = [canon_item(x) for x in b.all()] if not case["sss"] else None
                    ex["data"] = [canon_item(x) for x in fr.data]
                    res, view = a, None
                    out = "U"
                else:
                    raise ValueError(name)
            except BaseException as e:  # noqa: B902 - StopIteration etc.
                if isinstance(e, (KeyboardInterrupt, SystemExit, MemoryError)):
                    raise
                out = canon_exc(e)
            outs.append(out)
            extras.append(ex)
    try:
        res.close()
    except Exception:
        pass
    return outs, extras


# ------------------------------------------------------------------ the property as a list model
class Dead(Exception):
    """behaviour from here on is not specified by the property (e.g. after a TypeError)"""


class Spec:
    """Plain list model of the property: `rem` = rows not yet delivered, in order."""

    def __init__(self, case):
        self.sss = case["sss"]
        self.width = case["width"]
        rows = case["rows"] if not case["kind"].startswith("merged:") else [r for g in case["groups"] for r in g]
        self.rem = [tuple(r) for r in rows]
        self.hard = False  # True / False / None (= either; first()-like on an exhausted CursorResult)
        self.yp = None
        self.R = {"view": "rows", "cols": None, "uq": None}
        self.V = None
        k = case["kind"]
        self.cursor_kind = k in ("default", "full") or k.startswith("buffered:")
        self.merged = k.startswith("merged:")
        self.kind = k
        # ChunkedIteratorResult bookkeeping, used only to *classify* a lost-rows mismatch as the
        # known finding: rows of the pulled chunk not yet handed out, and the chunk size in force
        self.ch_pending = 0
        self.ch_size = None
        self.never_yp = True
        self.f17 = False
        self.hazard = None
        self.force_n = None   # batch size chosen for a size-less fetchmany()/partitions()

    # -- helpers
    def h(self, t):
        return self.R if t == "r" else self.V

    def mk(self, h, raw):
        if self.sss:
            return ("s", raw[0]) if h["view"] == "scalars" else ("r", (raw[0],))
        cols = h["cols"] if h["cols"] is not None else range(self.width)
        return ("r", tuple(raw[i] for i in cols))

    @staticmethod
    def vals(item):
        return (item[1],) if item[0] == "s" else tuple(item[1])

    def post(self, h, item):
        if h["view"] == "rows":
            return item
        if h["view"] == "scalars":
            return item if item[0] == "s" else ("s", item[1][0])
        return ("m", self.vals(item))

    def key(self, strat, item):
        if strat == "ident":
            return item
        if strat == "first":
            return ("s", self.vals(item)[0])
        return ("s", sum(self.vals(item)) % 2)

    @staticmethod
    def hashable(key):
        return all(c < 1000 for c in Spec.vals(key))

    @staticmethod
    def text(item):
        if item[0] == "s":
            return str(item[1])
        body = ".".join(str(c) for c in item[1])
        return "(" + body + ")" if item[0] == "r" else "{" + body + "}"

    def lst(self, items):
        return "L[" + ",".join(self.text(i) for i in items) + "]"

    def ch_consume(self):
        """one raw row leaves a ChunkedIteratorResult: pull a chunk if none is held"""
        if not self.kind.startswith("chunked"):
            return
        if self.ch_pending == 0:
            total = len(self.rem) + 1
            self.ch_pending = min(self.ch_size, total) if self.ch_size else total
        self.ch_pending -= 1

    def take(self, h, n):
        """consume rows until n items delivered (n=None: all); returns posted items.
        Raises Dead with expectation E:unhashable via return marker."""
        out = []
        uq = h["uq"]
        while self.rem and (n is None or len(out) < n):
            raw = self.rem.pop(0)
            self.ch_consume()
            it = self.mk(h, raw)
            if uq is not None:
                k = self.key(uq["strat"], it)
                if not self.hashable(k):
                    return None
                if k in uq["seen"]:
                    continue
                uq["seen"].add(k)
            out.append(self.post(h, it))
        return out

    # -- one op: returns a set of acceptable outputs, or a callable(out)->bool; advances state
    def expect(self, op, impl_out):
        name = op[0]
        if name == "tup":
            return None
        if name in ("uq",):
            self.h(op[1])["uq"] = {"seen": set(), "strat": op[2]}
            return {"U"}
        if name == "cols":
            h = self.h(op[1])
            if self.sss and len(op[2]) == 1:
                return {"U"}
            cur = h["cols"] if h["cols"] is not None else list(range(self.width))
            if any(i >= len(cur) for i in op[2]):
                return {"E:index"}
            h["cols"] = [cur[i] for i in op[2]]
            return {"U"}
        if name == "yp":
            if self.kind.startswith("chunked"):
                if self.ch_pending > 0:
                    self.hazard = "chunked-yield-per-after-fetch-drops-held-chunk"
                self.ch_pending, self.ch_size = 0, op[2]
            self.yp = op[2]
            self.never_yp = False
            return {"U"}
        if name == "sc":
            if self.sss:
                self.V = {"view": "scalars", "cols": self.R["cols"], "uq": self.R["uq"]}
                return {"U"}
            cur = self.R["cols"] if self.R["cols"] is not None else list(range(self.width))
            if op[1] >= len(cur):
                return {"E:index"}
            self.V = {"view": "scalars", "cols": [cur[op[1]]], "uq": self.R["uq"]}
            return {"U"}
        if name == "map":
            self.V = {"view": "mappings", "cols": self.R["cols"], "uq": self.R["uq"]}
            return {"U"}
        if name == "closed":
            if self.hard is None:
                self.hard = impl_out == "B1"
                return {"B0", "B1"}
            return {"B1" if self.hard else "B0"}
        if name == "close":
            self.hard = True
            self.rem = []
            return {"U"}
        # ---- fetching ops
        if name == "freeze":
            if self.sss:
                data = [("s", r[0]) for r in self.rem]
                self.rem = []
            else:
                if self.hard:
                    return {"E:closed"}
                items = self.take(self.R, None)
                if items is None:
                    raise Dead("E:unhashable")
                data = items
            self.frozen_data = [self.text(i) for i in data]
            self.rem = [self.vals(i) for i in data]
            if not self.sss:
                self.width = len(self.R["cols"]) if self.R["cols"] is not None else self.width
            self.R = {"view": "rows", "cols": None, "uq": None}
            self.V = None
            self.yp = None
            self.hard = False
            self.cursor_kind = False
            self.merged = False
            self.kind = "iter"
            self.ch_pending, self.ch_size = 0, None
            self.never_yp = True
            return {"U"}
        if self.hard:
            return {"E:closed"}
        h = self.h(op[1]) if len(op) > 1 and op[1] in ("r", "v") else self.R
        if self.kind == "chunked:1" and name in ("fm", "pt"):
            # dynamic_yield_per: every _fetchmany_impl(size) restarts chunks(size)
            if self.ch_pending > 0:
                self.hazard = "chunked-dynamic-yield-per-fetchmany-drops-held-chunk"
            self.ch_pending = 0
            self.ch_size = op[2] if op[2] is not None else self.yp
        if name in ("f1", "nx"):
            items = self.take(h, 1)
            if items is None:
                raise Dead("E:unhashable")
            if not items:
                return {"N"} if name == "f1" else {"E:stop"}
            return {"I" + self.text(items[0])}
        if name == "all":
            items = self.take(h, None)
            if items is None:
                raise Dead("E:unhashable")
            return {self.lst(items)}
        if name == "it":
            items = self.take(h, op[2])
            if items is None:
                raise Dead("E:unhashable")
            return {self.lst(items)}
        if name == "fm":
            n = op[2] if op[2] is not None else self.yp
            if n is None:
                return self.ambiguous_many(h, impl_out)
            items = self.take(h, n)
            if items is None:
                raise Dead("E:unhashable")
            return {self.lst(items)}
        if name == "pt":
            n = op[2] if op[2] is not None else self.yp
            if n is None:
                return self.ambiguous_parts(h, op[3], impl_out)
            parts = []
            for _ in range(op[3]):
                items = self.take(h, n)
                if items is None:
                    raise Dead("E:unhashable")
                if not items:
                    break
                parts.append(items)
            return {"P" + "|".join(self.lst(p)[1:] for p in parts)}
        if name in ONLYONE:
            return self.only_one(h, name)
        raise ValueError(name)

    @staticmethod
    def copy_uq(uq):
        return None if uq is None else {"seen": set(uq["seen"]), "strat": uq["strat"]}

    def snapshot(self, h):
        return (list(self.rem), None if h["uq"] is None else set(h["uq"]["seen"]))

    def restore(self, h, snap):
        self.rem = list(snap[0])
        if h["uq"] is not None:
            h["uq"]["seen"] = set(snap[1])

    def ambiguous_many(self, h, impl_out):
        """fetchmany() with neither size nor yield_per: the batch size is driver-defined;
        check_case explores every size >= 1 (`force_n`) and keeps the consistent ones"""
        # a plain DBAPI cursor hands out cursor.arraysize (= 1) rows
        items = self.take(h, self.force_n if self.force_n is not None else 1)
        if items is None:
            raise Dead("E:unhashable")
        return {self.lst(items)}

    def ambiguous_parts(self, h, k, impl_out):
        parts = []
        for _ in range(k):
            items = self.take(h, self.force_n if self.force_n is not None else 1)
            if items is None:
                raise Dead("E:unhashable")
            if not items:
                break
            parts.append(items)
        return {"P" + "|".join(self.lst(p)[1:] for p in parts)}

    def is_ambiguous(self, op):
        """size-less fetchmany()/partitions() without yield_per on anything but a plain DBAPI
        cursor: the batch is whatever the strategy / iterator hands over"""
        return (op[0] in ("fm", "pt") and op[2] is None and self.yp is None and self.hard is False
                and len(self.rem) > 1 and not (self.kind == "default" and self.never_yp))

    def only_one(self, h, name):
        second = name in ("one", "oon", "s1", "s1n")
        rnone = name in ("one", "s1")
        scalar = name in ("scalar", "s1", "s1n")
        uq = h["uq"]
        was_empty = not self.rem
        # the de-duplicated remainder, in order
        items, keys = [], []
        seen = set() if uq is None else set(uq["seen"])
        if uq is not None and any(self.key(uq["strat"], self.mk(h, r)) in seen for r in self.rem):
            self.f17 = True
        hs = dict(h, view="scalars") if (scalar and self.sss) else h
        for raw in self.rem:
            it = self.mk(hs, raw)
            if uq is not None:
                k = self.key(uq["strat"], it)
                if k in seen:
                    continue
                seen.add(k)
            items.append(it)
            if not second:
                break
        self.rem = []
        self.hard = None if (self.cursor_kind and was_empty) else True
        if not items:
            return {"E:noresult"} if rnone else {"N", "N?"}
        if second and len(items) > 1:
            return {"E:multiple"}
        it = items[0]
        if scalar:
            c = self.vals(it)[0]
            return {"V%d" % c} | ({"N?"} if c == 50 else set())
        t = self.text(self.post(h, it))
        return {"I" + t} | ({"N?"} if t == "50" else set())


def classify(case, i, spec):
    """specific key for a violation at op i"""
    op = case["ops"][i]
    if spec.hazard:
        return spec.hazard
    if case["sss"] and any(list(r) == [50] for r in case.get("rows", [])) and op[0] in ONLYONE + ("f1", "nx", "all", "fm", "it"):
        return "scalar-source-none-row-read-as-end-of-result"
    if spec.f17 and op[0] in ONLYONE:
        return "unique-onlyone-after-partial-consumption"
    return "c10-oracle:%s:%s" % (case["kind"].split(":")[0], op[0])


UNSPEC = [None]  # set by check_case: number of leading ops whose outputs the property fixes


def check_case(case, outs, extras):
    """direct oracle; returns None or (key, op index, detail).  Where the property leaves a
    choice (batch size of a size-less fetchmany) every choice is followed; a violation is
    reported only when no choice explains the implementation's outputs."""
    import copy

    specs = [Spec(case)]
    UNSPEC[0] = None
    for i, (op, out, ex) in enumerate(zip(case["ops"], outs, extras)):
        nxt, fails, any_dead = [], [], False
        for spec in specs:
            if spec.hard is None and op[0] not in ("uq", "cols", "yp", "sc", "map", "tup", "closed", "close"):
                spec.hard = out == "E:closed"
            cands = [spec]
            if spec.is_ambiguous(op):
                cands = []
                for n in range(1, len(spec.rem) + 1):
                    c = copy.deepcopy(spec)
                    c.force_n = n
                    cands.append(c)
            for c in cands:
                r = check_op(case, c, i, op, out, ex)
                if r == "dead":
                    any_dead = True
                    continue
                if r is None:
                    nxt.append(c)
                else:
                    fails.append(r)
        if not nxt:
            if fails and not any_dead:
                return fails[0]
            return None  # some admissible choice leads into unspecified territory
        # keep the candidate set small: states are equal when rem/seen agree
        uniq = {}
        for c in nxt:
            sig = (tuple(c.rem), c.hard, repr(sorted(map(repr, (c.R["uq"] or {}).get("seen", [])))),
                   repr(sorted(map(repr, ((c.V or {}).get("uq") or {}).get("seen", [])))))
            uniq.setdefault(sig, c)
        specs = list(uniq.values())[:24]
        if UNSPEC[0] is None and any(c.hard is None for c in specs):
            UNSPEC[0] = i + 1  # closure after this op is not fixed by the property
    return None


def check_op(case, spec, i, op, out, ex):
    """None = consistent, "dead" = unspecified from here, tuple = violation"""
    if out is not None and out.startswith("E:other"):
        return ("c10-oracle:unexpected-exception:%s" % op[0], i, "op %s raised %s" % (op, out))
    try:
        exp = spec.expect(op, out)
    except Dead as d:
        if d.args and d.args[0] == "E:unhashable" and out != "E:unhashable":
            return (spec.hazard or "c10-oracle:unhashable-not-reported", i,
                    "op %s: expected TypeError(unhashable), got %s" % (op, out))
        return "dead"
    if exp is None:
        return None
    if out not in exp:
        return (classify(case, i, spec), i,
                "op #%d %s: implementation returned %s, list model expects %s" % (i, op, out, sorted(exp)))
    if ex.get("same") is False:
        return ("c10-oracle:generative-not-in-place", i, "op %s returned a different object" % (op,))
    if "keys" in ex and not spec.sss and not any(o[0] == "freeze" for o in case["ops"][:i]):
        h = spec.V
        cols = h["cols"] if h["cols"] is not None else range(spec.width)
        if ex["keys"] != [KEYS[c] for c in cols]:
            return ("c10-oracle:mapping-keys", i, "mapping keys %s, expected %s" % (ex["keys"], [KEYS[c] for c in cols]))
    if op[0] == "freeze" and out == "U":
        hz, spec.hazard = spec.hazard, None
        if ex.get("data") is not None and ex["data"] != spec.frozen_data:
            return (hz or "c10-oracle:frozen-data", i, "frozen data %s, expected %s" % (ex["data"], spec.frozen_data))
        if ex.get("twice") is not None and ex["twice"] != spec.frozen_data:
            return (hz or "c10-oracle:frozen-replay", i, "second thaw %s, expected %s" % (ex["twice"], spec.frozen_data))
    return None


# ------------------------------------------------------------------ generators
def gen_rows(rng, width, n, unhashable, sss=False):
    pool_vals = [0, 1, 2, 3, 50, 51] if rng.random() < 0.3 else [0, 1, 2]
    if sss:
        # a None element of a scalar source is read as end-of-result by fetchone()/first()/one()
        # (`if row is None` in _onerow_getter/_only_one_row): kept out of the generator, see FIXED
        pool_vals = [v for v in pool_vals if v != 50]
    base = [[rng.choice(pool_vals) for _ in range(width)] for _ in range(rng.randint(1, 4))]
    rows = []
    for _ in range(n):
        r = rng.random()
        if r < 0.6:
            rows.append(list(rng.choice(base)))
        elif r < 0.85 and rows:
            rows.append(list(rows[-1]))  # adjacent duplicate
        else:
            rows.append([rng.choice(pool_vals + [4, 5, 52, 53]) for _ in range(width)])
    if unhashable and rows and rng.random() < 0.7:
        rows[rng.randrange(len(rows))][rng.randrange(width)] = rng.choice([1000, 1001])
    return rows


def gen_kind(rng):
    r = rng.random()
    if r < 0.2:
        return "default"
    if r < 0.45:
        return "buffered:%d" % rng.choice([1, 2, 3, 4, 6, 7, 1000])
    if r < 0.55:
        return "full"
    if r < 0.7:
        return "iter"
    if r < 0.8:
        return "chunked:0"
    if r < 0.86:
        return "chunked:1"
    return "merged"


def gen_ops(rng, case, maxlen, risky=False):
    """Mostly-valid op sequence inside the modelled envelope (see META note)."""
    sss, width, kind = case["sss"], case["width"], case["kind"]
    ops = []
    view = None            # None / "scalars" / "mappings"
    view_fetched = False
    r_frozen = False       # R had a unique filter when the view was derived
    r_uq = False
    cur_w = {"r": width, "v": width}
    fetched = False
    closed = False
    n = rng.randint(1, maxlen)
    sizes = [1, 2, 3, 5]
    after_closed = 0
    while len(ops) < n:
        if closed:
            after_closed += 1
            if after_closed > 3:
                break
        t = "v" if (view and (r_frozen or rng.random() < 0.85)) else "r"
        x = rng.random()
        if closed and x < 0.20:
            x = 0.20 + rng.random() * 0.8  # no configuration calls on a closed result
        if x < 0.06:
            if t == "v" and view_fetched and not risky:
                continue
            if t == "r" and view:
                continue  # keeps "R had a filter when the view was derived" a static fact
            ops.append(("uq", t, rng.choice(["ident", "ident", "first", "parity"])))
            if t == "r":
                r_uq = True
        elif x < 0.10:
            if t == "v" and view != "mappings":
                continue
            w = cur_w[t]
            if sss:
                idxs = [0]
            else:
                idxs = [rng.randrange(w + (1 if rng.random() < 0.05 else 0)) for _ in range(rng.randint(1, 3))]
            ops.append(("cols", t, idxs))
            if all(i < w for i in idxs) and not sss:
                cur_w[t] = len(idxs)
        elif x < 0.14:
            if kind.startswith("chunked") and fetched and not risky:
                continue
            if view and t == "r":
                continue  # stale yield_per in the view's memoized getter (assumption A)
            ops.append(("yp", t, rng.choice([1, 2, 3, 4])))
        elif x < 0.19:
            if view and (r_frozen or rng.random() < 0.7):
                continue
            if rng.random() < 0.5:
                i = 0 if sss else rng.randrange(cur_w["r"] + (1 if rng.random() < 0.05 else 0))
                ops.append(("sc", i))
                if i < cur_w["r"]:
                    view, view_fetched, r_frozen = "scalars", False, r_uq
                    cur_w["v"] = 1
            else:
                ops.append(("map",))
                view, view_fetched, r_frozen = "mappings", False, r_uq
                cur_w["v"] = cur_w["r"]
        elif x < 0.20:
            ops.append(("tup",))
        elif x < 0.24:
            ops.append(("closed", t))
        elif x < 0.26:
            ops.append(("close", t))
            closed = True
        elif x < 0.28:
            if (kind.startswith("merged") and closed) or r_frozen:
                continue
            ops.append(("freeze",))
            view, view_fetched, r_frozen, r_uq, fetched, closed = None, False, False, False, False, False
            after_closed = 0
            cur_w = {"r": cur_w["r"], "v": cur_w["r"]}
            kind = "iter"
        else:
            if t == "r" and r_frozen:
                continue
            y = rng.random()
            if y < 0.17:
                if t == "v" and view == "scalars":
                    ops.append(("nx", t))
                else:
                    ops.append((rng.choice(["f1", "nx"]), t))
            elif y < 0.45:
                sz = rng.choice(sizes + [None]) if rng.random() < 0.9 else rng.choice([7, 12])
                ops.append(("fm", t, sz))
            elif y < 0.55:
                ops.append(("all", t, rng.choice(["all", "fetchall"])))
            elif y < 0.68:
                ops.append(("it", t, rng.randint(1, 4)))
            elif y < 0.80:
                ops.append(("pt", t, rng.choice(sizes + [None]), rng.randint(1, 4)))
            else:
                if t == "r" and rng.random() < 0.4:
                    ops.append((rng.choice(["scalar", "s1", "s1n"]),))
                else:
                    ops.append((rng.choice(["first", "one", "oon"]), t))
                closed = True
            fetched = True
            if t == "v":
                view_fetched = True
    return ops


def gen_case(rng, tier, risky=False):
    kind = gen_kind(rng)
    sss = kind in ("iter", "chunked:0", "chunked:1", "merged") and rng.random() < 0.25
    width = 1 if sss else rng.choice([1, 2, 2, 3])
    maxrows = 8 if tier == "quick" else 14
    unh = (kind in ("iter", "chunked:0", "chunked:1")) and rng.random() < 0.12
    case = {"sss": sss, "width": width}
    if kind == "merged":
        nchild = rng.choice([2, 2, 3])
        if sss:
            kinds = ["iter"] * nchild
        else:
            kinds = [rng.choice(["iter", "default", "full", "buffered:%d" % rng.choice([1, 2, 5])]) for _ in range(nchild)]
        case["kind"] = "merged:" + "+".join(kinds)
        case["groups"] = [gen_rows(rng, width, rng.randint(0, 4), False, sss) for _ in range(nchild)]
    else:
        case["kind"] = kind
        case["rows"] = gen_rows(rng, width, rng.choice([0, 1, 2, 3, 4, 5, 6, maxrows, rng.randint(0, maxrows)]), unh, sss)
    case["ops"] = gen_ops(rng, case, 12 if tier == "quick" else 30, risky)
    return case


def gen_getter(rng, t, view, small=True):
    """one row-delivering call on handle t"""
    y = rng.random()
    if y < 0.15:
        return ("nx", t) if (t == "v" and view == "scalars") else (rng.choice(["f1", "nx"]), t)
    if y < 0.35:
        return ("fm", t, rng.choice([1, 2, 3]))
    if y < 0.55:
        return ("fm", t, None)
    if y < 0.70:
        return ("pt", t, rng.choice([1, 2]), rng.choice([1, 2]))
    if y < 0.85:
        return ("pt", t, None, rng.choice([1, 2]))
    return ("it", t, rng.choice([1, 2]))


def gen_memo_scenario(rng, tier):
    """use a getter, reconfigure the result mid-stream, use a getter again — on every result
    kind, with enough rows left that a stale (memoized) configuration is visible"""
    kind = gen_kind(rng)
    sss = kind in ("iter", "chunked:0", "chunked:1", "merged") and rng.random() < 0.2
    width = 1 if sss else rng.choice([1, 2, 3])
    case = {"sss": sss, "width": width}
    nrows = rng.randint(9, 14)
    pool = [[rng.choice([0, 1, 2, 3, 4, 5]) for _ in range(width)] for _ in range(6)]
    rows = [list(rng.choice(pool)) for _ in range(nrows)]
    if kind == "merged":
        kinds = ["iter"] * 2 if sss else [rng.choice(["iter", "default", "full", "buffered:%d" % rng.choice([1, 2, 5])]) for _ in range(2)]
        case["kind"] = "merged:" + "+".join(kinds)
        cut = rng.randint(0, nrows)
        case["groups"] = [rows[:cut], rows[cut:]]
    else:
        case["kind"] = kind
        case["rows"] = rows
    ops = []
    view = None
    t = "r"
    if rng.random() < 0.35:
        if rng.random() < 0.5:
            ops.append(("sc", 0 if sss else rng.randrange(width)))
            view = "scalars"
        else:
            ops.append(("map",))
            view = "mappings"
        t = "v"
    cur_w = 1 if view == "scalars" else width
    if kind.startswith("chunked") and rng.random() < 0.7:
        k0 = rng.choice([1, 2, 3])
        ops.append(("yp", t, k0))
        # whole chunks only, so that no chunk is held when the configuration changes
        ops.append(rng.choice([("fm", t, k0), ("pt", t, k0, rng.choice([1, 2])), ("fm", t, None)]))
    else:
        if rng.random() < 0.3:
            ops.append(("yp", t, rng.choice([1, 2, 3])))
        ops.append(gen_getter(rng, t, view))
    for _ in range(rng.choice([1, 1, 2])):
        c = rng.random()
        if c < 0.5:
            ops.append(("yp", t, rng.choice([1, 2, 3, 4])))
        elif c < 0.8 and t == "r":
            # (on a view, unique() after a fetch is outside assumption A)
            ops.append(("uq", t, rng.choice(["ident", "first", "parity"])))
        elif (t == "r" or view == "mappings") and not sss:
            idxs = [rng.randrange(cur_w) for _ in range(rng.randint(1, 2))]
            ops.append(("cols", t, idxs))
            cur_w = len(idxs)
        else:
            ops.append(("yp", t, rng.choice([1, 2, 3, 4])))
        for _ in range(rng.choice([1, 2])):
            ops.append(gen_getter(rng, t, view))
    if rng.random() < 0.5:
        ops.append(("all", t, "all"))
    case["ops"] = ops
    return case


def tuplify(case):
    c = dict(case)
    c["ops"] = [tuple(o) for o in case["ops"]]
    return c


FIXED = [
    # F17: unique + fetchmany + first
    {"kind": "default", "sss": False, "width": 2, "rows": [[1, 10], [2, 20], [1, 10], [3, 30]],
     "ops": [("uq", "r", "ident"), ("fm", "r", 2), ("first", "r")]},
    {"kind": "iter", "sss": False, "width": 1, "rows": [[1], [1], [2]],
     "ops": [("uq", "r", "ident"), ("f1", "r"), ("one", "r")]},
    # merged: close() must be enforced (fixed in /repo b471573)
    {"kind": "merged:iter+iter", "sss": False, "width": 1, "groups": [[[1], [2]], [[3], [4]]],
     "ops": [("f1", "r"), ("close", "r"), ("all", "r", "all")]},
    # chunked, dynamic_yield_per: fetchone then fetchmany drops the rest of the chunk
    {"kind": "chunked:1", "sss": False, "width": 1, "rows": [[i] for i in range(10)],
     "ops": [("yp", "r", 4), ("f1", "r"), ("fm", "r", 2), ("all", "r", "all")]},
    # chunked: yield_per after a fetch
    {"kind": "chunked:0", "sss": False, "width": 1, "rows": [[i] for i in range(6)],
     "ops": [("f1", "r"), ("yp", "r", 3), ("all", "r", "all")]},
    # buffer growth across fetchone / fetchmany
    {"kind": "buffered:7", "sss": False, "width": 1, "rows": [[i % 3] for i in range(14)],
     "ops": [("f1", "r"), ("f1", "r"), ("fm", "r", 3), ("it", "r", 4), ("pt", "r", 2, 2), ("all", "r", "all")]},
]


# checked by the oracle only (outside the model's envelope)
FIXED_ORACLE_ONLY = [
    # ORM single-entity result with a None entity (outer join): `if row is None` in
    # _onerow_getter / _only_one_row reads the row as end-of-result
    {"kind": "iter", "sss": True, "width": 1, "rows": [[50], [1]],
     "ops": [("f1", "r"), ("all", "r", "all")]},
    {"kind": "iter", "sss": True, "width": 1, "rows": [[50]], "ops": [("one", "r")]},
]


def trunc_for_model(case):
    """number of leading ops sent to the model (MergedResult.close() is enforced since the fix
    b471573 in /repo, so merged results are compared to the end like every other kind)"""
    return len(case["ops"])


def run(ctx, deep=False):
    ctx.rule = (
        "random op sequences (<=12 ops quick, <=30 thorough) over row lists of 0..8 (14) rows with duplicates, "
        "NULL/str/float values and (iterator kinds) unhashable values, on default / BufferedRow(max_row_buffer "
        "1..7,1000) / FullyBuffered CursorResults on SQLite, IteratorResult, ChunkedIteratorResult(dynamic or not), "
        "MergedResult of 2-3 children, scalar sources, and thawed FrozenResults; every fourth case is a 'reconfigure "
        "mid-stream' scenario (getter, then yield_per/unique/columns, then a getter again incl. size-less "
        "fetchmany()/partitions(), 9..14 rows, every result kind); a case is non-trivial when it has "
        ">=1 row and >=1 fetching op; distinct = distinct (kind, rows, ops)")
    ctx.trusted.append("pysqlite cursor semantics (rows in ORDER BY order; fetchmany() arraysize 1), modelled as list take/drop")
    ctx.assumptions += [
        "A: unique() on a ScalarResult/MappingResult precedes that view's first fetch (getter memoization not modelled)",
        "a Result carrying a unique filter is not fetched from after a view was derived from it (shared set)",
        "fetchmany / partitions / yield_per sizes are >= 1 (size 0 is driver-defined)",
        "yield_per is not changed through the parent once a view exists",
    ]
    env = Env()
    try:
        n = 2500 if ctx.tier == "quick" else 40000
        if deep:
            n = 60000
        for case in (tuplify(c) for c in FIXED_ORACLE_ONLY):
            outs, extras = run_impl(env, case)
            bad = check_case(case, outs, extras)
            if bad:
                ctx.violation(bad[0], case, bad[2])
        cases = [tuplify(c) for c in FIXED]
        for i in range(n):
            if i % 4 == 3:
                cases.append(gen_memo_scenario(ctx.rng, ctx.tier))
            else:
                cases.append(gen_case(ctx.rng, ctx.tier if not deep else "thorough"))
        corr_cases, impl_lines, reqs = [], [], []
        for case in cases:
            outs, extras = run_impl(env, case)
            nfetch = sum(1 for o in case["ops"] if o[0] in FETCH1 + ONLYONE + ("fm", "all", "pt"))
            nrows = len(case.get("rows", [])) + sum(len(g) for g in case.get("groups", []))
            ctx.case(json.dumps(case, sort_keys=True), nontrivial=nrows > 0 and nfetch > 0)
            ctx.count("kind=" + case["kind"].split(":")[0] + ("/sss" if case["sss"] else ""))
            ctx.count("rows=%d" % min(nrows, 9) if nrows < 9 else "rows>=9")
            for o in case["ops"]:
                ctx.count("op=" + o[0])
            for o in outs:
                if o and o.startswith("E:"):
                    ctx.count("err=" + o.split(":")[1])
            bad = check_case(case, outs, extras)
            if bad:
                key, i, detail = bad
                ctx.violation(key, case, detail)
            k = trunc_for_model(case)
            if UNSPEC[0] is not None:
                k = min(k, UNSPEC[0])
            shown = [o for o in outs[:k] if o is not None]
            corr_cases.append(case)
            impl_lines.append(";".join(shown))
            reqs.append(case_line("run", case, k))
            if nrows >= 4 and nfetch >= 3:
                ctx.sample({"case": case, "outputs": outs}, cap=5)
        if ctx.driver_ok():
            model = ctx.driver(reqs)
            # a scalar()/scalar_one_or_none() NULL prints as V50 in the model and None in Python
            model = [_null_fix(m, i) for m, i in zip(model, impl_lines)]
            ctx.correspond("corr/c10:result-ops-vs-Model.Result", corr_cases, impl_lines, model)
    finally:
        env.close()


def _null_fix(model_line, impl_line):
    """Python's None is both 'no row' and the value NULL for scalar-returning calls; the
    implementation side prints it as `N?`, which matches the model's N, V50 or I50."""
    if "N?" not in impl_line:
        return model_line
    m, i = model_line.split(";"), impl_line.split(";")
    if len(m) != len(i):
        return model_line
    return ";".join("N?" if (b == "N?" and a in ("N", "V50", "I50")) else a for a, b in zip(m, i))


def search(ctx, broken):
    sub = type(ctx)(ctx.pid, "thorough", ctx.seed + 1, ctx.level)
    # first the disagreeing cases themselves
    env = Env()
    try:
        for d in ctx.disagreements:
            case = d["case"]
            outs, extras = run_impl(env, case)
            bad = check_case(case, outs, extras)
            if bad:
                ctx.violation(bad[0], case, bad[2])
    finally:
        env.close()
    run(sub, deep=True)
    ctx.violations.extend(sub.violations)


def replay(ctx, obj):
    case = tuplify(obj["case"])
    env = Env()
    try:
        outs, extras = run_impl(env, case)
    finally:
        env.close()
    bad = check_case(case, outs, extras)
    print("replay C10 case=%s\n outputs=%s\n oracle: %s" % (json.dumps(case), outs, bad))
    return bad is not None
