"""C04 — bound parameters reach the right placeholders in every paramstyle.

Model      lean/SaVerif/Model/Bind.lean   (transcription of _process_positional,
           _process_numeric, _process_parameters_for_postcompile, _init_compiled
           parameter assembly and the three regexes as scanners)
Theorems   lean/SaVerif/Props/C04.lean
Translator lean/SaVerif/Gen/BindTables.lean  (BIND_TEMPLATES, regex sources,
           bindname_escape_characters read from the working tree)

run():
  1. scanner vs CPython `re` with the live pattern objects on adversarial strings
  2. generated statements executed on SQLite under all six paramstyles
       direct oracle A  (statement, parameters) at the cursor, placeholders
                        replaced by the values the DBAPI takes for them, must
                        list the same value tokens in the same order as the
                        literal_binds rendering of the same statement
       direct oracle B  rows / table contents equal under every paramstyle and
                        equal to the literal rendering executed directly
       correspondence   compiled.string / positiontup and the cursor-level
                        (statement, parameters) vs the Lean model
  3. the same statements through ten other real dialect classes with a
     recording fake DBAPI: oracle A only (nothing executes)
  4. an adversarial stream (escaped-name collisions, literal_execute with
     escaped names, identifiers that look like bind templates)
"""
import json

PID = "C04"
LEVEL = "proof"
LEAN = ["SaVerif.Props.C04"]
META = {
    "text": "Lean theorems over ALL statements (any number/order of text, bind and post-compile segments, any names/values): under the NoPattern guard the regex scan of _process_positional recovers exactly the bind segments in order (positional_alignment), _process_numeric numbers every placeholder with the index of its own name in positiontup (numeric_alignment), expanding-IN expansion keeps every later placeholder aligned (expanding_alignment: loop-invariant proof over _process_parameters_for_postcompile for qmark/format under the NoClash freshness guard), and each style delivers to every placeholder the value of the bind it stands for (delivery theorems); the guard is shown necessary by proved counterexamples (F2 identifier `%(id)s`; escaped-name collision). The model is tied to compiler.py/default.py by a translator (templates, regex sources, escape table) and by differential runs: scanner vs CPython re, compiled.string/positiontup and cursor-level (statement, parameters) vs model on SQLite for all six paramstyles. The property itself is checked on the real code by two independent oracles (placeholder substitution vs literal_binds rendering on 16 dialect/driver configurations; row equality across the six paramstyles on SQLite).",
    "note": "Trusted: Lean kernel; CPython re semantics (modelled as scanners, differential-tested each run); PEP 249 placeholder grammar of non-SQLite drivers (never connected; format/pyformat are executed on SQLite through a `stmt % params` emulation); literal rendering of ints/strings (C05); tuple-valued expanding parameters, bind processors and insertmanyvalues batch rewriting are outside the Lean model (covered by the row oracle only: typed expanding-IN stream with TypeDecorator element types, scalar and tuple_ forms, escaped names, four pysqlite paramstyles; a later bind after a tuple IN is not row-comparable under pysqlite's numeric styles, which bind :N by order of appearance). Known findings: two names escaping to the same string are bound to one value (named/pyformat) or assert (positional); identifier matching %(name)s is rewritten (F2).",
    "technique": "Lean 4 induction over segment lists for regex-scanner round trips + refinement of the positional/numeric/post-compile pipeline; regenerated tables; differential correspondence; independent substitution/row oracles",
    "design_ref": "DESIGN.md §3 C04",
}

KEY_LE = "literal-execute-escaped-name-keyerror"
KEY_COLL = "escaped-bindname-collision"
KEY_F2 = "identifier-matches-pyformat-pattern"
KEY_CLASH = "expanded-name-clashes-with-bind-name"


# --------------------------------------------------------------------------- translator
def gen(ctx):
    from sqlalchemy.sql import compiler as C

    def lstr(s):
        return '"' + s.replace("\\", "\\\\").replace('"', '\\"').replace("\n", "\\n") + '"'

    esc = sorted(C.SQLCompiler.bindname_escape_characters.items())
    tmpl = sorted(C.BIND_TEMPLATES.items())
    pats = [
        C.SQLCompiler._pyformat_pattern.pattern,
        C.SQLCompiler._post_compile_pattern.pattern,
        C.SQLCompiler._positional_pattern.pattern,
    ]
    src = "namespace SaVerif.Gen.BindTables\n\n"
    src += "/-- SQLCompiler.bindname_escape_characters -/\ndef escapeChars : List (Char × String) :=\n  [%s]\n\n" % ", ".join(
        "(Char.ofNat %d, %s)" % (ord(k), lstr(v)) for k, v in esc
    )
    src += "/-- compiler.BIND_TEMPLATES -/\ndef bindTemplates : List (String × String) :=\n  [%s]\n\n" % ", ".join(
        "(%s, %s)" % (lstr(k), lstr(v)) for k, v in tmpl
    )
    src += "/-- _pyformat_pattern, _post_compile_pattern, _positional_pattern sources -/\ndef patterns : List String :=\n  [%s]\n\n" % ", ".join(lstr(p) for p in pats)
    src += "end SaVerif.Gen.BindTables\n"
    ctx.write_gen("BindTables", src)


# --------------------------------------------------------------------------- helpers
def E(s):
    from harness import vlib

    return vlib.enc_str(s)


def py_scan(pats, mode, s):
    out, pos = [], 0
    for m in pats[mode].finditer(s):
        if m.start() > pos:
            out.append(E(s[pos : m.start()]))
        if mode == "both":
            if m.group(1):
                out.append("A(%s)" % E(m.group(1)))
            else:
                g = m.group(3)
                out.append("B(%s|%s)" % (E(m.group(2)), "N" if g is None else E(g[2:-2])))
        elif mode == "a":
            out.append("A(%s)" % E(m.group(1)))
        else:
            g = m.group(2)
            out.append("B(%s|%s)" % (E(m.group(1)), "N" if g is None else E(g[2:-2])))
        pos = m.end()
    if pos < len(s):
        out.append(E(s[pos:]))
    return ",".join(out) if out else "-"


SCAN_FRAGS = [
    "%(", "%", "(", ")", "s", ")s", "__[POSTCOMPILE_", "__[", "_", "[", "]", "~~", "~", "~~]", "REPL", "x", "ab",
    " ", "\n", "\t", "\x85", "\u2003", "\u00e9", "P", "POSTCOMPILE_", "%(x)s", "__[POSTCOMPILE_x]",
    "__[POSTCOMPILE_y~~(~~REPL~~)~~]", "?", ":1", "%%", "%s", "$2", "\x1c", "\u3000", "__[POSTCOMPILE", ")s)s", "~~~",
]


def scanner_correspondence(ctx, n):
    from sqlalchemy.sql.compiler import SQLCompiler

    pats = {"both": SQLCompiler._positional_pattern, "a": SQLCompiler._pyformat_pattern, "b": SQLCompiler._post_compile_pattern}
    cases, req, exp = [], [], []
    for _ in range(n):
        s = "".join(ctx.rng.choice(SCAN_FRAGS) for _ in range(ctx.rng.randint(0, 10)))
        mode = ctx.rng.choice(["both", "a", "b"])
        cases.append({"scan": mode, "s": s})
        req.append("bind scan %s %s" % (mode, E(s)))
        exp.append(py_scan(pats, mode, s))
    ctx.count("scanner-strings", n)
    if ctx.driver_ok():
        ctx.correspond("corr/c04:regex-scanners-vs-re", cases, exp, ctx.driver(req))


class Env:
    """engines, fixture; built once per run"""

    def __init__(self, with_fake=True):
        import sqlalchemy as sa
        from harness import lib_binds as lb

        self.lb = lb
        self.sa = sa
        self.fx = lb.Fixture()
        self.engines = {}
        self.caps = {}
        for st in lb.STYLES:
            e = lb.sqlite_engine(st, self.fx)
            self._listen(e, st)
            self.engines[st] = e
        self.fakes = {}
        if with_fake:
            for url in lb.COMPILE_ONLY_URLS:
                try:
                    e = lb.fake_engine(url)
                    with e.connect() as c:
                        c.execute(sa.select(sa.literal(4321)))
                except Exception:
                    continue
                self._listen(e, url)
                self.fakes[url] = e

    def _listen(self, e, key):
        cap = self.caps[key] = []

        @self.sa.event.listens_for(e, "before_cursor_execute")
        def _b(conn, cursor, statement, parameters, context, executemany):
            cap.append((statement, parameters, context, executemany))


def err_enum(ex):
    orig = getattr(ex, "orig", None)
    if orig is not None and not isinstance(orig, BaseException):
        orig = None
    base = orig if orig is not None else ex
    n = type(base).__name__
    return {"KeyError": "key", "AssertionError": "assertion", "TypeError": "type", "IndexError": "index"}.get(n, "other:" + n)


def execute_on(env, key, engine, st, params, dml, want_rows=True, page=None):
    """-> dict(status, rows, snap, cap)"""
    cap = env.caps[key]
    del cap[:]
    out = {}
    with engine.connect() as c:
        tx = c.begin()
        try:
            if page:
                c = c.execution_options(insertmanyvalues_page_size=page)
            r = c.execute(st, params) if params is not None else c.execute(st)
            out["rows"] = [tuple(x) for x in r.fetchall()] if (want_rows and r.returns_rows) else None
            if dml and want_rows:
                ncap = len(cap)
                out["snap"] = [tuple(x) for x in c.exec_driver_sql("select id, x, y, s from t order by id").fetchall()]
                out["snap"] += [tuple(x) for x in c.exec_driver_sql("select * from wt order by id").fetchall()]
                del cap[ncap:]
            out["status"] = "ok"
        except Exception as ex:  # noqa
            out["status"] = "err " + err_enum(ex)
            out["msg"] = (type(ex).__name__ + ": " + str(ex).split("\n")[0])[:200]
        finally:
            tx.rollback()
    out["cap"] = list(cap)
    return out


def model_inputs(compiled, params_override, style):
    """-> (prefix fields for `bind stage1`/`bind run`, params field) or None when
    outside the modelled fragment"""
    pre = getattr(compiled, "_verif_pre", None)
    if pre is None:
        if compiled.positional:
            return None
        pre = compiled.string
    binds, pvals = [], []
    values_known = True
    for bp, name in compiled.bind_names.items():
        if bp in compiled.literal_execute_params:
            kind = "x" if bp.expanding else "l"
        elif bp in compiled.post_compile_params:
            kind = "e"
        else:
            kind = "p"
        if bp.type._is_tuple_type:
            return None
        empty = ""
        if bp.expanding:
            try:
                empty = compiled.visit_empty_set_op_expr([bp.type], bp.expand_op)
            except Exception:
                return None
        binds.append("%s/%s/%s" % (E(name), kind, E(empty)))
        if params_override is not None and bp.key in params_override:
            v = params_override[bp.key]
        elif params_override is not None and name in params_override:
            v = params_override[name]
        else:
            v = bp.value
            if bp.callable is not None:
                return None
        if bp.expanding:
            if not isinstance(v, (list, tuple)) or not all(isinstance(x, (int, str)) and not isinstance(x, bool) for x in v):
                values_known = False
                continue
            pv = "[" + ";".join(E(lit_tok(x)) for x in v) + "]" if v else "[]"
        else:
            if not isinstance(v, (int, str)) or isinstance(v, bool):
                values_known = False
                continue
            pv = E(lit_tok(v))
        pvals.append("%s=%s" % (E(name), pv))
    esc = ",".join("%s>%s" % (E(k), E(v)) for k, v in compiled.escaped_bind_names.items()) or "-"
    vb = "N"
    if compiled._insertmanyvalues and compiled._values_bindparam is not None:
        vb = ",".join(E(x) for x in compiled._values_bindparam) or "-"
    head = "%s %s %s %s %s" % (style, E(pre), ",".join(binds) or "-", esc, vb)
    return head, ((",".join(pvals) or "-") if values_known else None)


def lit_tok(v):
    from harness import lib_binds as lb

    return lb.lit(v)


def impl_stage1(compiled, style):
    pt = compiled.positiontup
    nxt = getattr(compiled, "next_numeric_pos", 0) if style.startswith("numeric") else 0
    return "ok %s %s %d" % (E(compiled.string), "N" if pt is None else (",".join(E(x) for x in pt) or "-"), nxt)


def impl_run(stmt, params):
    if isinstance(params, dict):
        items = sorted((E(k), E(lit_tok(v))) for k, v in params.items())
        return "ok %s D %s" % (E(stmt), ",".join("%s=%s" % kv for kv in items) or "-")
    return "ok %s T %s" % (E(stmt), ",".join(E(lit_tok(v)) for v in params) or "-")


_TWINS = {}


def literal_reference(ctx, env, st, dialect):
    """the statement rendered with literal_binds by the same dialect class under the
    `named` paramstyle (no %% doubling, no positional machinery).  RETURNING clauses
    ignore literal_binds (observed on the unchanged tree; C05 territory): binds left
    over are filled in BY NAME from the compiled object's own bind_names."""
    import re as _re

    cls = type(dialect)
    if cls not in _TWINS:
        try:
            tw = cls(paramstyle="named")
            if tw.paramstyle != "named":  # driver dialects that force their paramstyle
                tw.paramstyle = "named"
                tw.positional = False
            _TWINS[cls] = tw
        except Exception:
            _TWINS[cls] = None
    twin = _TWINS[cls]
    if twin is None or twin.paramstyle != "named":
        return None
    try:
        c = st.compile(dialect=twin, compile_kwargs={"literal_binds": True})
        sql = str(c)
    except Exception:
        return None
    if c.bind_names:
        ctx.count("literal-reference-leftover-binds")
        byname = {}
        for bp, name in c.bind_names.items():
            byname[c.escaped_bind_names.get(name, name)] = bp.value
        if any(v is None or (isinstance(v, (list, tuple)) and not v) for v in byname.values()):
            return None

        def rep(m):
            if m.group(1) not in byname:
                return m.group(0)
            v = byname[m.group(1)]
            return ", ".join(lit_tok(x) for x in v) if isinstance(v, (list, tuple)) else lit_tok(v)

        sql = _re.sub(r"(?<![:\w]):(\w+)", rep, sql)
        sql = _re.sub(r"__\[POSTCOMPILE_(\w+)\]", rep, sql)
    return sql


def oracle_text(lb, style, stmt, params, literal_sql):
    """direct oracle A; returns None or a description"""
    try:
        sub = lb.substitute(style, stmt, params if params is not None else ())
    except lb.Misdelivery as ex:
        return "misdelivery: %s" % ex
    vocab = None
    import re as _re

    toks_l = [m.group(0) for m in lb._TOK.finditer(literal_sql)]
    toks_e = [m.group(0) for m in lb._TOK.finditer(sub)]
    toks_l = [t[1:] if t.startswith("N'") else t for t in toks_l]
    toks_e = [t[1:] if t.startswith("N'") else t for t in toks_e]
    if toks_l != toks_e:
        return "value order differs: emitted %s vs literal rendering %s" % (toks_e[:40], toks_l[:40])
    return None


def expanded_clash(st, dialect):
    """input fact: an expanding parameter `n` with k values will generate the names
    n_1..n_k; does one of them equal the compiled name of another parameter?"""
    try:
        c = st.compile(dialect=dialect)
    except Exception:
        return False
    names = set(c.bind_names.values())
    for bp, name in c.bind_names.items():
        if bp.expanding and isinstance(bp.value, (list, tuple)):
            en = c.escaped_bind_names.get(name, name)
            for i in range(1, len(bp.value) + 1):
                if "%s_%d" % (en, i) in names:
                    return True
    return False


def classify(sp, failure, clash=False):
    """specific key computed from the input (+ coarse failure kind)"""
    from harness import lib_binds as lb

    names, le_names, feats = lb.spec_features(sp)
    esc = {}
    coll = False
    for n in set(names):
        e = lb.expected_escape(n)
        if e in esc and esc[e] != n:
            coll = True
        esc[e] = n
    if sp.get("kind") == "f2":
        return KEY_F2
    if coll:
        return KEY_COLL
    if clash:
        return KEY_CLASH
    if "err key" in failure and any(lb.expected_escape(n) != n for n in le_names):
        return KEY_LE
    return "c04:" + failure.split(":")[0][:60]


def check_spec(ctx, env, sp, corr, fakes=True, record=True):
    """run one statement spec through everything; returns number of violations"""
    lb = env.lb
    nviol = 0
    try:
        st, params = lb.build_stmt(env.fx, sp)
    except Exception as ex:  # generator produced something sqlalchemy rejects at construction
        ctx.count("build-rejected:" + type(ex).__name__)
        return 0
    dml = sp["kind"] in ("insert", "insertmany", "insertmany_esc", "update", "delete", "insert_select")
    many = isinstance(params, list)
    case = {"spec": sp}

    clash = expanded_clash(st, env.engines["named"].dialect)

    def viol(failure, detail):
        nonlocal nviol
        nviol += 1
        ctx.violation(classify(sp, failure, clash), case, detail)

    # ---- SQLite, six paramstyles
    results = {}
    for style in lb.STYLES:
        results[style] = execute_on(env, style, env.engines[style], st, params, dml, page=sp.get("page"))
    statuses = {s: r["status"] for s, r in results.items()}
    ref = results["qmark"]
    if len(set(statuses.values())) > 1:
        viol("style-dependent-outcome", "outcome differs by paramstyle: %s ; %s" % (statuses, {s: r.get("msg") for s, r in results.items() if "msg" in r}))
    elif ref["status"] != "ok":
        ctx.count("all-styles-raise:" + ref["status"])
        names, le_names, _ = lb.spec_features(sp)
        if ref["status"] in ("err key", "err assertion", "err type", "err index"):
            # an internal error (not a SQLAlchemy exception) on a well-formed statement
            viol(ref["status"], "all paramstyles raise %s" % ref.get("msg"))
    else:
        for style in lb.STYLES[1:]:
            r = results[style]
            if r["rows"] != ref["rows"] or r.get("snap") != ref.get("snap"):
                viol("rows-differ:" + style, "rows under %s differ from qmark: %s vs %s" % (style, str(r["rows"])[:300], str(ref["rows"])[:300]))
                break
    if sp["kind"] == "insertmany_esc" and ref["status"] == "ok":
        # independent oracle: what is stored / returned equals the parameter sets
        rows_in = sp["rows"][:1] if sp.get("single") else sp["rows"]
        colorder = ["id"] + list(lb.ESC_COLS) + ["plain"]
        want = sorted(tuple(r.get(c) for c in colorder) for r in rows_in)
        for style in lb.STYLES:
            got = sorted(x for x in (results[style].get("snap") or []) if len(x) == len(colorder))
            if got != want:
                viol("executemany-stored-rows:" + style, "stored rows under %s %s differ from the parameter sets %s" % (style, got[:4], want[:4]))
                break
            if sp.get("returning") and results[style]["rows"] is not None:
                wr = sorted(tuple(r[c] for c in ["id"] + sp["cols"]) for r in rows_in)
                if sorted(results[style]["rows"]) != wr:
                    viol("executemany-returning:" + style, "RETURNING rows under %s %s differ from the parameter sets %s" % (style, sorted(results[style]["rows"])[:4], wr[:4]))
                    break
    # literal rendering reference (independent of every placeholder mechanism)
    literal_sql = None if many else literal_reference(ctx, env, st, env.engines["qmark"].dialect)
    if literal_sql is not None and ref["status"] == "ok":
        e = env.engines["qmark"]
        with e.connect() as c:
            tx = c.begin()
            try:
                r = c.exec_driver_sql(literal_sql)
                rows = [tuple(x) for x in r.fetchall()] if r.returns_rows else None
                snap = [tuple(x) for x in c.exec_driver_sql("select id, x, y, s from t order by id").fetchall()] if dml else None
                if rows != ref["rows"] or snap != ref.get("snap"):
                    viol("rows-differ-from-literal", "bound execution differs from literal rendering: %s vs %s (sql %s)" % (str(ref["rows"])[:300], str(rows)[:300], literal_sql[:300]))
            except Exception as ex:
                ctx.count("literal-sql-not-executable")
            finally:
                tx.rollback()
    # oracle A + correspondence per style
    for style in lb.STYLES:
        r = results[style]
        caps = r["cap"]
        if r["status"] == "ok" and not many and len(caps) == 1 and literal_sql is not None:
            stmt_s, params_s, context, _ = caps[0]
            lsql = literal_sql
            if lsql is not None:
                why = oracle_text(lb, style, stmt_s, params_s, lsql)
                if why:
                    viol("misaligned:" + style, "%s ; statement %r parameters %r" % (why, stmt_s[:400], str(params_s)[:300]))
        if corr is not None:
            compiled = caps[0][2].compiled if caps else None
            if compiled is None:
                # compile-time failure: compile again to learn the inputs is impossible; use pyformat twin
                continue
            mi = model_inputs(compiled, None if many else params, style)
            if mi is None:
                ctx.count("outside-model")
                continue
            head, pv = mi
            corr["cases"].append({"spec": sp, "style": style, "what": "stage1"})
            corr["impl"].append(impl_stage1(compiled, style))
            corr["req"].append("bind stage1 " + head)
            if style in ("qmark", "numeric"):
                pre_s = getattr(compiled, "_verif_pre", None)
                if pre_s is not None:
                    corr["guard"].append("bind safe %s %s" % ("both" if style == "qmark" else "a", E(pre_s)))
            if not many and len(caps) == 1 and pv is not None:
                corr["cases"].append({"spec": sp, "style": style, "what": "run"})
                corr["impl"].append(impl_run(caps[0][0], caps[0][1]) if r["status"] == "ok" else r["status"])
                corr["req"].append("bind run %s %s" % (head, pv))
            elif not many and r["status"] != "ok" and len(caps) == 0:
                pass
    # ---- other dialects, recording DBAPI
    if fakes and not many:
        for url, e in env.fakes.items():
            lsql = literal_reference(ctx, env, st, e.dialect)
            if lsql is None:
                ctx.count("fake-no-literal")
                continue
            r = execute_on(env, url, e, st, params, False, want_rows=False)
            if r["status"] != "ok":
                if r["status"] in ("err key", "err assertion", "err type", "err index"):
                    viol(r["status"] + "@" + url, "%s raises %s" % (url, r.get("msg")))
                else:
                    ctx.count("fake-raises")
                continue
            caps = [c for c in r["cap"]]
            if len(caps) != 1:
                ctx.count("fake-multi-exec")
                continue
            stmt_s, params_s = caps[0][0], caps[0][1]
            style = e.dialect.paramstyle
            why = oracle_text(lb, style, stmt_s, params_s, lsql)
            ctx.count("dialect:" + url.split(":")[0])
            if why:
                viol("misaligned@" + url, "%s ; statement %r parameters %r" % (why, stmt_s[:400], str(params_s)[:300]))
    if record:
        names, le_names, feats = lb.spec_features(sp)
        ctx.case(json.dumps(sp, sort_keys=True), nontrivial=True)
        ctx.count("kind=" + sp["kind"])
        for f in feats:
            ctx.count("feat=" + f)
        if any(lb.expected_escape(n) != n for n in names):
            ctx.count("feat=escaped-name")
        ctx.count("outcome=" + ref["status"])
    return nviol


# --------------------------------------------------------------------------- adversarial stream
def adversarial_specs(rng):
    sel = lambda where, cols=None: {"kind": "select", "cols": cols or [["col", "t", "id"]], "where": where, "shared": []}  # noqa
    out = []
    # literal_execute + name that needs escaping
    for nm in ["a.b", "m n", "p%q", "x[1]"]:
        out.append(sel(["cmp", ">", ["col", "t", "x"], ["bind", nm, 1083, {"le": True}]]))
    out.append(sel(["in", ["col", "t", "x"], [1083, 1166], {"le": True, "name": "k.l"}]))
    # two names with one escaped form
    for a, b in [("a.b", "a b"), ("a.b", "a_b"), ("x[1]", "x.1."), ("q q", "q.q")]:
        out.append(sel(["and", ["cmp", "=", ["col", "t", "x"], ["bind", a, 1083, {}]], ["cmp", "=", ["col", "t", "y"], ["bind", b, 2005, {}]]]))
        out.append(sel(["or", ["cmp", "=", ["col", "t", "x"], ["bind", a, 1166, {}]], ["cmp", "=", ["col", "t", "x"], ["bind", b, 1249, {}]]]))
    # expanding parameter whose generated names x_1.. collide with the anonymous bind of `t.x > v`
    out.append(sel(["and", ["cmp", ">", ["col", "t", "x"], ["val", 1290]], ["in", ["col", "t", "x"], [1083, 1166, 1332, 1415], {"name": "x"}]]))
    out.append(sel(["and", ["in", ["col", "t", "x"], [1083, 1332, 1415], {"name": "y"}], ["cmp", "<", ["col", "t", "y"], ["val", 2006]]]))
    rng.shuffle(out)
    return out


def f2_check(ctx, env):
    """F2: an identifier that looks like a pyformat bind (quoted column `%(id)s`)"""
    sa = env.sa
    md = sa.MetaData()
    w = sa.Table("w", md, sa.Column("%(id)s", sa.Integer), sa.Column("k", sa.Integer))
    sp = {"kind": "f2", "shared": []}
    outcomes = {}
    for style in env.lb.STYLES:
        e = env.engines[style]
        with e.connect() as c:
            tx = c.begin()
            try:
                md.create_all(c)
                c.execute(w.insert().values({"%(id)s": 5, "k": 6}))
                outcomes[style] = [tuple(r) for r in c.execute(sa.select(w.c.k, w.c["%(id)s"]).where(w.c["%(id)s"] == 5))]
            except Exception as ex:
                outcomes[style] = "err " + err_enum(ex)
            finally:
                tx.rollback()
                md.drop_all(c)
    ctx.count("f2-probe")
    if any(v != [(6, 5)] for v in outcomes.values()):
        ctx.violation(KEY_F2, {"spec": sp}, "column named %%(id)s: %s" % outcomes)
        return True
    return False


# --------------------------------------------------------------------------- compile-level API stream
API_NAMES = ["x.y", "a[0]", "p:q", "m n", "pct%", "(z)", "plain_nm", None]  # None = column-derived (wt."a.b" -> a.b_1)
API_KINDS = ["plain", "expanding", "literal_execute", "literal_execute_expanding"]


def api_stream(ctx, env, record=True):
    """bind names needing escaping x {plain, expanding, literal_execute} x {construct_params,
    construct_expanded_state(escape_names=True/False), render_postcompile} x six paramstyles
    on the sqlite dialect: after substituting every placeholder by the value the API hands
    out for it, the statement must list the same value tokens as the literal rendering"""
    import sqlalchemy as sa

    lb = env.lb
    wt = env.fx.wt
    nviol = 0
    for nm in API_NAMES:
        for kind in API_KINDS:
            v1, v2 = 4100 + len(str(nm)) * 7, 5200
            col = wt.c["a.b"]
            kw = {}
            if kind in ("literal_execute", "literal_execute_expanding"):
                kw["literal_execute"] = True
            if kind in ("expanding", "literal_execute_expanding"):
                kw["expanding"] = True
                val = [v1, v1 + 1, v1 + 2]
            else:
                val = v1
            if nm is None:
                if kind == "plain":
                    cond = col == v1
                elif kind == "expanding":
                    cond = col.in_(val)
                else:
                    continue
            else:
                bp = sa.bindparam(nm, val, **kw)
                cond = col.in_(bp) if "expanding" in kind else col == bp
            st = sa.select(wt.c.id).where(cond).where(wt.c.plain > sa.bindparam("tail.nm", v2))
            case = {"spec": {"kind": "api", "name": nm, "bind": kind, "shared": []}}
            for style in lb.STYLES:
                d = env.engines[style].dialect
                lsql = literal_reference(ctx, env, st, d)
                if lsql is None:
                    continue
                for api in ("construct_params", "expanded_state_escaped", "expanded_state_unescaped", "render_postcompile", "execute"):
                    try:
                        if api == "execute":
                            r = execute_on(env, style, env.engines[style], st, None, False)
                            if r["status"] != "ok":
                                raise RuntimeError(r["status"] + " " + r.get("msg", ""))
                            sql, dbp = r["cap"][0][0], r["cap"][0][1]
                        else:
                            c = st.compile(dialect=d, compile_kwargs={"render_postcompile": True} if api == "render_postcompile" else {})
                            esc = c.escaped_bind_names
                            if api == "construct_params":
                                if kind != "plain":
                                    pd = c.construct_params()
                                    # every bind must be present under its escaped name with its own value
                                    want = {esc.get(n, n): b.value for b, n in c.bind_names.items()}
                                    if pd != want:
                                        raise AssertionError("construct_params %r != %r" % (pd, want))
                                    continue
                                sql, pd, pt = c.string, c.construct_params(), c.positiontup
                            elif api == "render_postcompile":
                                sql, pd, pt = c.string, c.construct_params(), c.positiontup
                            else:
                                es = c.construct_expanded_state(escape_names=(api == "expanded_state_escaped"))
                                sql, pd, pt = es.statement, dict(es.parameters), es.positiontup
                                if api == "expanded_state_escaped" and any(k in esc and esc[k] != k for k in pd):
                                    raise AssertionError("escape_names=True returned unescaped key(s) %r" % sorted(pd))
                            # the APIs differ in whether keys are escaped; placeholders always are
                            pd = {esc.get(k, k): v for k, v in pd.items()}
                            pt = [esc.get(k, k) for k in pt] if pt is not None else None
                            dbp = tuple(pd[k] for k in pt) if c.positional else pd
                        why = oracle_text(lb, style, sql, dbp, lsql)
                    except Exception as ex:
                        why = "%s: %s" % (type(ex).__name__, str(ex)[:160])
                    if record:
                        ctx.count("api:" + api)
                    if why:
                        nviol += 1
                        needs = nm is None or lb.expected_escape(nm) != nm
                        key = KEY_LE if (needs and kind != "plain" and "KeyError" in why) else "c04:api-%s" % api
                        ctx.violation(key, dict(case, style=style, api=api), "name %r kind %s style %s api %s: %s" % (nm, kind, style, api, why))
                        break
    return nviol


TP_NAMES = [None, "plain", "the.pairs", "x[0]", "pct%p", "a b", "q:r", "(p)", "dollar$1"]


def typed_expanding_stream(ctx, record=True):
    """expanding IN whose element type has a value-changing bind processor (TypeDecorator), scalar
    and tuple_() form, bind names that need escaping, every SQLite paramstyle: the rows returned are
    the rows whose stored (processed) values match - i.e. every expanded placeholder received the
    PROCESSED value of its own element (row oracle on real SQLite; outside the Lean model)"""
    import sqlalchemy as sa
    from sqlalchemy.pool import StaticPool

    class Pref(sa.TypeDecorator):
        impl = sa.String
        cache_ok = True

        def process_bind_param(self, value, dialect):
            return None if value is None else "v:" + value

        def process_result_value(self, value, dialect):
            return None if value is None else value[2:]

    rows = [(1, "x", "p"), (2, "y", "q"), (3, "z", "r"), (4, "x", "q")]
    nviol = 0
    for style in ("qmark", "numeric", "named", "numeric_dollar"):  # the styles pysqlite itself executes
        try:
            eng = sa.create_engine("sqlite://", paramstyle=style, poolclass=StaticPool)
        except Exception:
            continue
        md = sa.MetaData()
        t = sa.Table("tp", md, sa.Column("id", sa.Integer, primary_key=True), sa.Column("a", Pref), sa.Column("b", Pref), sa.Column("n", sa.Integer))
        try:
            with eng.begin() as c:
                md.create_all(c)
                c.exec_driver_sql("insert into tp (id, a, b, n) values " + ",".join("(%d, 'v:%s', 'v:%s', %d)" % (i, a, b, i * 10) for i, a, b in rows))
        except Exception:
            eng.dispose()
            continue  # a paramstyle the pysqlite driver cannot execute (format / pyformat)
        for nm in TP_NAMES:
            for form in ("scalar", "tuple", "tuple+tail"):
                if form == "scalar":
                    val = ["x", "z"]
                    want = [1, 3, 4]
                    lhs = t.c.a
                else:
                    val = [("x", "p"), ("z", "r"), ("y", "nope")]
                    want = [1, 3]
                    lhs = sa.tuple_(t.c.a, t.c.b)
                # an explicitly named scalar bindparam takes no type from the column: give it one
                cond = lhs.in_(val) if nm is None else lhs.in_(sa.bindparam(nm, val, expanding=True, **({"type_": Pref} if form == "scalar" else {})))
                st = sa.select(t.c.id).where(cond).order_by(t.c.id)
                if form == "tuple+tail" and style.startswith("numeric"):
                    # pysqlite binds a sequence to :N / $N placeholders by order of first appearance, not
                    # by number (driver quirk): a later bind numbered before the expanded ones is
                    # delivered correctly per PEP 249 but misbound by the driver - not comparable by rows
                    continue
                if form == "tuple+tail":
                    st = st.where(t.c.n < sa.bindparam("tail.nm", 35))
                case = {"spec": {"kind": "typed-expanding", "name": nm, "form": form, "style": style}}
                for rnd in ("cold", "warm"):  # second round is served by the compiled cache
                    try:
                        with eng.connect() as c:
                            got = [r[0] for r in c.execute(st)]
                        why = None if got == want else "rows %s, expected %s" % (got, want)
                    except Exception as ex:  # noqa: BLE001
                        why = "%s: %s" % (type(ex).__name__, str(ex)[:160])
                    if record:
                        ctx.count("typed-expanding:" + form)
                        ctx.case(("typed-expanding", style, nm, form, rnd))
                    if why:
                        nviol += 1
                        ctx.violation("c04:typed-expanding-%s" % form, case, "name %r form %s style %s (%s cache): %s" % (nm, form, style, rnd, why))
                        break
        eng.dispose()
    return nviol


# --------------------------------------------------------------------------- entry points
def run(ctx, deep=False):
    from harness import lib_binds as lb

    ctx.rule = (
        "random statement specs (select with binds in columns/WHERE/HAVING/ORDER BY/LIMIT/OFFSET, CTE, subquery, join, scalar subquery, "
        "EXISTS/IN subquery, text(), UNION, INSERT/UPDATE/DELETE with RETURNING, executemany + insertmanyvalues, INSERT FROM SELECT), "
        "expanding IN (0..14 values, named/anonymous, NOT IN, bind_expression wrap), literal_execute, shared bindparam objects, bind names needing escaping; "
        "every bound value unique within its statement; a case = one spec run under 6 SQLite paramstyles + 10 other dialect/driver classes; all cases non-trivial (>=1 bind)"
    )
    ctx.trusted += [
        "CPython re semantics (scanner model, differential-tested against the live pattern objects each run)",
        "PEP 249 placeholder grammar (harness/lib_binds.substitute) — non-SQLite drivers are never connected",
        "format/pyformat execution on SQLite goes through `stmt % params` emulation (harness/lib_binds._emu_factory)",
        "literal rendering of ints and simple strings (property C05)",
    ]
    ctx.assumptions.append("only SQLite executes; psycopg2/psycopg/pg8000/asyncpg/pymysql/mysqldb/mariadbconnector/aiomysql/asyncmy/pyodbc dialects are driven with a recording DBAPI")
    thorough = ctx.tier == "thorough" or deep
    scanner_correspondence(ctx, 60000 if thorough else 8000)
    env = Env()
    ctx.count("fake-dialects-available", len(env.fakes))
    corr = {"cases": [], "impl": [], "req": [], "guard": []} if ctx.driver_ok() else None
    n = 8000 if thorough else 400
    for i in range(n):
        cfg = {"weird_p": ctx.rng.choice([0.0, 0.5, 0.9]), "le_p": ctx.rng.choice([0.0, 0.12, 0.3]), "avoid_known": True}
        sp = lb.gen_stmt_spec(ctx.rng, cfg)
        check_spec(ctx, env, sp, corr, fakes=(i % 2 == 0) or thorough)
        if i < 4:
            ctx.sample({"spec": sp})
    api_stream(ctx, env)
    typed_expanding_stream(ctx)
    for sp in adversarial_specs(ctx.rng):
        ctx.count("adversarial")
        check_spec(ctx, env, sp, None, fakes=False)
    f2_check(ctx, env)
    if corr is not None and corr["req"]:
        out = ctx.driver(corr["req"])
        ctx.correspond("corr/c04:compiler+default-vs-Model.Bind", corr["cases"], corr["impl"], out)
        ctx.count("model-lines", len(out))
        if corr["guard"]:
            g = ctx.driver(corr["guard"])
            ctx.count("theorem-guard-holds-on-real-pre-string", sum(1 for x in g if x == "safe"))
            ctx.count("theorem-guard-fails-on-real-pre-string", sum(1 for x in g if x != "safe"))
    ctx.exhaustive = False


def strip_known(sp):
    """main stream: drop the literal_execute flag on names that need escaping (that
    combination is known finding %s; it is exercised by the adversarial stream)"""
    from harness import lib_binds as lb

    def walk(o):
        if isinstance(o, list):
            if o and o[0] == "bind" and o[1] is not None and lb.expected_escape(o[1]) != o[1]:
                o[3].pop("le", None)
            if o and o[0] == "in" and isinstance(o[-1], dict) and o[3].get("name") and lb.expected_escape(o[3]["name"]) != o[3]["name"]:
                o[3].pop("le", None)
            for x in o:
                walk(x)
        elif isinstance(o, dict):
            for v in o.values():
                walk(v)

    walk(sp)


def search(ctx, broken):
    """an obligation broke and the normal run saw no oracle violation: bigger budget,
    plus the disagreeing correspondence cases themselves"""
    from harness import vlib

    env = Env()
    for d in ctx.disagreements:
        c = d.get("case") or {}
        if "spec" in c:
            check_spec(ctx, env, c["spec"], None, fakes=True, record=False)
    if ctx.violations:
        return
    sub = vlib.Ctx(ctx.pid, "thorough", ctx.seed + 1, ctx.level)
    from harness import lib_binds as lb

    for i in range(1500):
        cfg = {"weird_p": sub.rng.choice([0.0, 0.5, 0.9]), "le_p": sub.rng.choice([0.0, 0.12, 0.3])}
        sp = lb.gen_stmt_spec(sub.rng, cfg)
        if check_spec(sub, env, sp, None, fakes=True, record=False):
            break
    ctx.violations.extend(sub.violations)


def replay(ctx, obj):
    env = Env()
    sp = obj["case"]["spec"]
    if sp.get("kind") == "api":
        bad = api_stream(ctx, env, record=False) > 0
    elif sp.get("kind") == "typed-expanding":
        bad = typed_expanding_stream(ctx, record=False) > 0
    elif sp.get("kind") == "f2":
        bad = f2_check(ctx, env)
    else:
        bad = check_spec(ctx, env, sp, None, fakes=True, record=False) > 0
    for v in ctx.violations:
        print("replay C04: %s — %s" % (v["key"], v["detail"][:600]))
    if not bad:
        print("replay C04: no violation for spec %s" % json.dumps(sp)[:300])
    return bad
