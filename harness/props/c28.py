"""C28 — event listeners fire exactly as registered.

Model     lean/SaVerif/Model/Event.lean  (_ClsLevelDispatch / _EmptyListener /
          _ListenerCollection / registry keys / only_once over a dynamic class tree)
Theorems  lean/SaVerif/Props/C28.lean
Tie       random and exhaustive op sequences (listen / remove on classes and instances with
          insert / once / named / propagate, subclass creation, instance creation,
          dispatch) are executed on the REAL event system with a fresh Events class per
          case and by the Lean driver; the recorded call lists and error kinds must agree.
Oracle    independent of the model: the declarative spec -- a registration is a key
          (target, fn), doubles are eliminated, dispatch on an instance calls the live
          registrations of its class and all ancestors (inserted ones first, newest
          first; then appended ones in registration order), then the instance's own, a
          once-registration at most once; remove() of a live key succeeds and of a dead key
          raises InvalidRequestError.  Concurrent exec_once / once-listeners are run under
          the C25 scheduler: at most one execution.
"""
import copy
import itertools
import random

PID = "C28"
LEVEL = "proof"
LEAN = ["SaVerif.Props.C28"]  # imports Model.Event and Lemmas.ExecOnce
META = {
    "text": "Lean model of the listener registry (class-level deques with lazy update_subclass over a class tree that grows, instance collections, registry keys, once wrappers). dispatch_eq_spec_partial: for EVERY op sequence (listen/remove on classes and instances with insert/once/named, classes and instances created at any time, dispatch) whose class-level listens neither repeat a live key nor put one bare function object on two classes at once, the listeners a dispatch walks are exactly the spec lists (live registrations of the class and its ancestors, inserted first newest first, then registration order, then the instance's own); remove() of a live key always succeeds; the two excluded patterns are machine-checked counterexamples (known findings). exec_once as an LTS with a mutex proved at-most-once for any number of threads and interleavings. Multiple inheritance (class DAGs) is outside the Lean model and is decided by a direct oracle on the real code (each live registration on the MRO fires exactly once). Tied to the real sqlalchemy.event by a differential run (call lists + error kinds), by a declarative spec oracle, and for exec_once by trace inclusion: the reads/writes of _exec_once and _exec_once_mutex, Lock creations and acquire/release of real concurrent exec_once runs under the deterministic scheduler are replayed by the Lean driver as runs of the LTS.",
    "note": "exec_once_at_most_once is proved only for atomic mutex creation (_partial) with a machine-checked counterexample for the code as it is on GIL builds (util.mini_gil = nullcontext) - reproduced with real threads, see known_findings.d/C28.json. The Lean model is single-inheritance; multiple inheritance (class DAGs, bases created before/after the listens) is decided by a direct oracle on the real code only (each live registration on the MRO fires exactly once; order not asserted); one event name; retval / _update / _join not modelled. dispatch_eq_spec is proved under RunOk (no repeated live class-level key; a bare function object listens on at most one class at a time) - see *_partial / *_counterexample and known findings; the registry field `ins` of the model is a ghost read only by the spec.",
    "technique": "Lean 4 model + invariant proofs; differential correspondence; declarative spec oracle; deterministic scheduler for exec_once",
    "design_ref": "DESIGN.md §3 C28",
}

NFNS = 4


# --------------------------------------------------------------------------- real code
class World:
    """a fresh Events class + root target class; ops are applied to the real event API"""

    def __init__(self):
        from sqlalchemy import event

        from sqlalchemy.event import registry

        self.event = event
        self.calls = []
        # the registry is global and keyed by id(); remember what was there so that this
        # world's entries can be dropped at close() (ids are reused by the next world)
        self._reg_before = (set(registry._key_to_collection), set(registry._collection_to_key))

        class TEvents(event.Events):
            def ev(self, x):
                pass

        class Root:
            dispatch = event.dispatcher(TEvents)

        self.TEvents = TEvents
        self.classes = [Root]
        self.insts = []
        self.fns = [self._mk(k) for k in range(NFNS)]

    def _mk(self, k):
        calls = self.calls

        def fn(*a, **kw):
            calls.append(k)

        fn.__name__ = "f%d" % k
        return fn

    def close(self):
        from sqlalchemy.event import base, registry

        try:
            base._remove_dispatcher(self.TEvents)
        except Exception:
            pass
        for d, before in zip((registry._key_to_collection, registry._collection_to_key), self._reg_before):
            for k in [k for k in list(d) if k not in before]:
                d.pop(k, None)

    def target(self, t):
        return self.classes[int(t[1:])] if t[0] == "c" else self.insts[int(t[1:])]

    def apply(self, op):
        from sqlalchemy import exc

        k = op[0]
        try:
            if k == "L":
                _, t, fn, ins, wrap, prop = op
                kw = {}
                if ins:
                    kw["insert"] = True
                if wrap == 1:
                    kw["once"] = True
                elif wrap == 2:
                    kw["named"] = True
                if prop:
                    kw["propagate"] = True
                self.event.listen(self.target(t), "ev", self.fns[fn], **kw)
                return "done"
            if k == "R":
                self.event.remove(self.target(op[1]), "ev", self.fns[op[2]])
                return "done"
            if k == "S":
                parent = self.classes[op[1]]
                self.classes.append(type("C%d" % len(self.classes), (parent,), {}))
                return "done"
            if k == "N":
                obj = self.classes[op[1]]()
                obj.dispatch  # the _Dispatch / _EmptyListener objects are built here
                self.insts.append(obj)
                return "done"
            if k == "F":
                del self.calls[:]
                self.insts[op[1]].dispatch.ev(1)
                return "calls:" + (",".join(map(str, self.calls)) or "-")
        except exc.InvalidRequestError:
            return "err:no-such-listener"
        except ValueError:
            return "err:value-error"
        raise AssertionError(op)


def run_real(ops):
    w = World()
    try:
        return [w.apply(op) for op in ops]
    finally:
        w.close()


def fmt_op(op):
    k = op[0]
    if k == "L":
        return "L:%s:%d:%d:%d" % (op[1], op[2], int(op[3]), op[4])
    if k == "R":
        return "R:%s:%d" % (op[1], op[2])
    return "%s:%d" % (k, op[1])


def model_line(ops):
    return "event run %d %s" % (NFNS, ",".join(fmt_op(o) for o in ops) or "-")


# --------------------------------------------------------------------------- declarative spec
class Spec:
    def __init__(self):
        self.parent = [None]
        self.inst_cls = []
        self.regs = {}  # (target, fn) -> dict(serial, insert, once, fired)
        self.serial = 0
        self.flags = set()

    def chain(self, c):
        out = []
        while c is not None:
            out.append(c)
            c = self.parent[c]
        return out

    def related(self, a, b):
        return a in self.chain(b) or b in self.chain(a)

    def apply(self, op):
        k = op[0]
        if k == "L":
            _, t, fn, ins, wrap, prop = op
            key = (t, fn)
            if key in self.regs:
                if t[0] == "c":
                    self.flags.add("class-level-double-listen")
                return "done"  # doubles are eliminated
            if t[0] == "c" and wrap == 0:
                for (t2, fn2), r in self.regs.items():
                    if t2[0] == "c" and fn2 == fn and r["wrap"] == 0 and self.related(int(t[1:]), int(t2[1:])):
                        self.flags.add("same-function-on-related-classes")
            self.serial += 1
            self.regs[key] = {"serial": self.serial, "insert": ins, "once": wrap == 1, "fired": False, "wrap": wrap}
            return "done"
        if k == "R":
            key = (op[1], op[2])
            if key not in self.regs:
                return "err:no-such-listener"
            del self.regs[key]
            return "done"
        if k == "S":
            self.parent.append(op[1])
            return "done"
        if k == "N":
            self.inst_cls.append(op[1])
            return "done"
        if k == "F":
            i = op[1]
            chain = set(self.chain(self.inst_cls[i]))

            def ordered(rs):
                ins = sorted((r for r in rs if r[1]["insert"]), key=lambda r: -r[1]["serial"])
                app = sorted((r for r in rs if not r[1]["insert"]), key=lambda r: r[1]["serial"])
                return ins + app

            cl = ordered([(key, r) for key, r in self.regs.items() if key[0][0] == "c" and int(key[0][1:]) in chain])
            il = ordered([(key, r) for key, r in self.regs.items() if key[0] == "i%d" % i])
            calls = []
            for key, r in cl + il:
                if r["once"]:
                    if r["fired"]:
                        continue
                    r["fired"] = True
                calls.append(key[1])
            return "calls:" + (",".join(map(str, calls)) or "-")
        raise AssertionError(op)


def spec_run(ops):
    s = Spec()
    return [s.apply(op) for op in ops], s.flags


# --------------------------------------------------------------------------- generation
def gen_ops(rng, n, clean):
    """clean=True avoids the two known deviation patterns (double listen of a live
    class-level key; the same unwrapped function on two related classes)"""
    ops = []
    s = Spec()
    ncls, ninst = 1, 0
    for _ in range(n):
        x = rng.random()
        if x < 0.12 and ncls < 6:
            op = ("S", rng.randrange(ncls))
            ncls += 1
        elif x < 0.27 or ninst == 0:
            op = ("N", rng.randrange(ncls))
            ninst += 1
        elif x < 0.62:
            t = ("c%d" % rng.randrange(ncls)) if rng.random() < 0.6 else ("i%d" % rng.randrange(ninst))
            op = ("L", t, rng.randrange(NFNS), rng.random() < 0.3, rng.choice([0, 0, 0, 1, 2]), rng.random() < 0.3)
            if clean:
                trial = copy.deepcopy(s)
                trial.flags = set()
                trial.apply(op)
                if trial.flags:
                    continue
        elif x < 0.78 and s.regs:
            if rng.random() < 0.85:
                t, fn = rng.choice(sorted(s.regs))
            else:
                t, fn = ("c%d" % rng.randrange(ncls)), rng.randrange(NFNS)
            op = ("R", t, fn)
        else:
            op = ("F", rng.randrange(ninst))
        s.apply(op)
        ops.append(op)
    if ninst:
        for i in range(ninst):
            ops.append(("F", i))
    return ops


def exhaustive(maxlen):
    """all sequences over a small alphabet on the tree Root <- C1, instance of C1 and of
    Root created up front or late"""
    alpha = [
        ("L", "c0", 0, False, 0, False), ("L", "c0", 1, True, 0, False), ("L", "c1", 2, False, 1, False),
        ("L", "c1", 1, False, 0, False), ("L", "i0", 3, False, 0, False), ("L", "i0", 0, True, 2, False),
        ("R", "c0", 0), ("R", "c1", 1), ("R", "c0", 1), ("R", "i0", 3), ("S", 1), ("N", 2), ("F", 0),
    ]
    pre = [("S", 0), ("N", 1)]
    for n in range(1, maxlen + 1):
        for seq in itertools.product(alpha, repeat=n):
            ok, ncls, ninst = True, 2, 1
            for op in seq:
                if op[0] == "S":
                    ncls += 1
                elif op[0] == "N":
                    if op[1] >= ncls:
                        ok = False
                        break
                    ninst += 1
            if ok:
                yield pre + list(seq) + [("F", i) for i in range(ninst)]


# directed sequences: the known deviations (see known_findings.d/C28.json) and their neighbours
DIRECTED = [
    [("N", 0), ("L", "c0", 0, False, 0, False), ("L", "c0", 0, False, 0, False), ("F", 0), ("R", "c0", 0), ("F", 0), ("R", "c0", 0), ("F", 0)],
    [("S", 0), ("N", 1), ("L", "c0", 0, False, 0, False), ("L", "c0", 1, False, 0, False), ("L", "c1", 0, False, 0, False), ("F", 0), ("R", "c1", 0), ("F", 0)],
    [("S", 0), ("N", 1), ("L", "c0", 0, False, 1, False), ("L", "c0", 1, False, 0, False), ("L", "c1", 0, False, 1, False), ("F", 0), ("R", "c1", 0), ("F", 0), ("F", 0)],
    [("L", "c0", 0, False, 0, False), ("L", "c0", 1, True, 0, False), ("S", 0), ("S", 1), ("L", "c1", 2, False, 0, False), ("N", 2), ("F", 0), ("R", "c0", 0), ("F", 0)],
    [("N", 0), ("L", "i0", 0, False, 0, False), ("L", "i0", 0, False, 0, False), ("F", 0), ("R", "i0", 0), ("F", 0), ("R", "i0", 0)],
]


def classify(flags):
    for k in ("class-level-double-listen", "same-function-on-related-classes"):
        if k in flags:
            return "c28-" + k
    return "c28-dispatch-differs-from-spec"


def one(ctx, ops, cases, impl_out, reqs):
    real = run_real(ops)
    spec, flags = spec_run(ops)
    case = {"ops": [list(o) for o in ops]}
    ctx.case(model_line(ops), nontrivial=sum(1 for o in ops if o[0] in "LR") >= 2)
    ctx.count("len=%d" % min(len(ops), 20))
    for o in ops:
        ctx.count("op=" + o[0])
    for r in real:
        ctx.count("out=" + r.split(":")[0] + (":" + r.split(":")[1] if r.startswith("err") else ""))
    if flags:
        ctx.count("pattern=" + "+".join(sorted(flags)))
    if real != spec:
        idx = next(i for i, (a, b) in enumerate(zip(real, spec)) if a != b)
        ctx.violation(classify(flags), case, "op #%d %s: real %s, spec %s" % (idx, fmt_op(ops[idx]), real[idx], spec[idx]))
    cases.append(case)
    impl_out.append(";".join(real))
    reqs.append(model_line(ops))
    return real


# --------------------------------------------------------------------------- concurrency
def run_concurrent(case, chooser):
    """k workers call exec_once / dispatch a once-listener concurrently under the
    deterministic scheduler; returns (failures, saw_index_error, trace) where trace is
    (model request line, expected answer) for plain exec_once runs, else None"""
    import sys

    from harness import lib_sched
    import sqlalchemy.event.attr as attr

    k, mode, fail_first = case["threads"], case["mode"], case["fail_first"]
    sched = lib_sched.Sched(chooser, trace_files=("sqlalchemy/event/attr.py", "sqlalchemy/util/langhelpers.py"), max_steps=4000)
    w = World()
    saved = (attr.threading, attr._ListenerCollection)
    shim = sched.threading_shim()
    locks = []
    mk_lock = shim.Lock
    labels = []
    last = {}
    ret_read = {}

    def log(lab):
        wk = sched.cur()
        if wk is not None:
            labels.append("%d:%s" % (wk.idx, lab))
            last[wk.idx] = lab

    def counting_lock():
        lk = mk_lock()
        locks.append(lk)
        log("mk:%d" % (len(locks) - 1))
        lk.on_acquire = lambda wk: log("acq")
        lk.on_release = lambda wk: log("rel")
        return lk

    shim.Lock = counting_lock

    class TLC(attr._ListenerCollection):
        """_ListenerCollection whose _exec_once / _exec_once_mutex attributes report
        their reads and writes (defined here; the code under test is untouched)"""

        __slots__ = ("_eo", "_eom")

        def _g_eo(self):
            v = self._eo
            caller = sys._getframe(1).f_code.co_name
            if caller in ("exec_once", "exec_once_unless_exception"):
                log("rdFlag:%d" % int(v))
            elif caller == "_exec_once_impl":
                log("rdFlag2:%d" % int(v))
            return v

        def _s_eo(self, v):
            if sched.cur() is not None and v:
                log("setFlag")
            self._eo = v

        def _g_eom(self):
            v = self._eom
            wk = sched.cur()
            if wk is not None and sys._getframe(1).f_code.co_name == "_get_exec_once_mutex":
                if ret_read.pop(wk.idx, False) and v is not None:
                    log("rdMutexRet:%d" % locks.index(v))  # `return self._exec_once_mutex`
                else:
                    log("rdMutex:%s" % ("N" if v is None else locks.index(v)))
                    if v is not None:
                        ret_read[wk.idx] = True
            return v

        def _s_eom(self, v):
            if sched.cur() is not None:
                log("asg")
            self._eom = v

        _exec_once = property(_g_eo, _s_eo)
        _exec_once_mutex = property(_g_eom, _s_eom)

    attr.threading = shim
    attr._ListenerCollection = TLC
    runs, errors, failures = [], [], []
    try:
        def listener(*a, **kw):
            runs.append(1)
            sched.yield_point("in-listener")
            if fail_first and len(runs) == 1:
                raise RuntimeError("first run fails")
            log("ret")

        obj = w.classes[0]()
        w.event.listen(obj, "ev", listener, once=(mode == "once-listener"))
        coll = obj.dispatch.ev

        def prog(worker):
            try:
                if mode == "exec_once":
                    coll.exec_once(1)
                elif mode == "exec_once_unless_exception":
                    coll.exec_once_unless_exception(1)
                elif mode == "sync_first":
                    coll._exec_w_sync_on_first_run(1)
                else:
                    coll(1)
            except RuntimeError:
                errors.append("listener-error")
            except IndexError:
                errors.append("IndexError")  # F10: only_once pop race, at-most-once still holds

        for _ in range(k):
            sched.spawn(prog)
        status = sched.run()
        flag = bool(coll._eo)
    finally:
        attr.threading, attr._ListenerCollection = saved
        w.close()
    n_ok = len(runs)
    trace = None
    if mode == "exec_once" and not fail_first and status == "done":
        # atomicInit = 0: the code as it is on a GIL build (three-step lazy creation)
        trace = ("execonce run 0 %d %s" % (k, ",".join(labels) or "-"), "ok runs=%d flag=%s held=0" % (n_ok, "true" if flag else "false"))
    if len(locks) > 1 and mode != "once-listener":
        # _get_exec_once_mutex created more than one Lock for one collection: the lazy
        # creation raced (util.mini_gil is a nullcontext on GIL builds)
        twice = "c28-exec-once-mutex-created-twice"
    else:
        twice = "c28-exec-once-twice"
    if status != "done":
        failures.append(("c28-exec-once-deadlock", "scheduler status %s" % status))
    elif mode == "exec_once" and n_ok > 1:
        failures.append((twice, "exec_once ran the listeners %d times (%d mutex objects created)" % (n_ok, len(locks))))
    elif mode == "exec_once_unless_exception" and (n_ok > (2 if fail_first else 1) or n_ok < 1):
        failures.append((twice, "exec_once_unless_exception ran %d times (fail_first=%s, %d mutex objects created)" % (n_ok, fail_first, len(locks))))
    elif mode == "once-listener" and n_ok > 1:
        failures.append(("c28-once-listener-twice", "a once=True listener ran %d times under concurrent dispatch" % n_ok))
    elif mode == "sync_first" and n_ok != k:
        failures.append(("c28-sync-first-lost", "_exec_w_sync_on_first_run ran %d times for %d calls" % (n_ok, k)))
    return failures, "IndexError" in errors, trace


KNOWN_RACE = {"mode": "exec_once", "threads": 2, "fail_first": False,
              "choices": ["t0", "t0", "t1", "t1", "t0", "t0", "t0", "t0", "t1", "t1", "t1", "t1", "t1", "t0", "t0", "t0", "t0", "t0", "t0", "t0", "t1"]}


def exec_once_schedules(ctx, n, traces):
    from harness import lib_sched

    # the recorded schedule of the known lazy-mutex race is replayed in every run
    failures, _, tr = run_concurrent(KNOWN_RACE, lib_sched.ReplayChooser(KNOWN_RACE["choices"]))
    traces.append((dict(KNOWN_RACE), tr))
    ctx.count("concurrent=replayed-known-race")
    for key, detail in failures:
        ctx.violation(key, dict(KNOWN_RACE), detail)
    for i in range(n):
        rng = random.Random("%s:x:%d:%d" % (PID, ctx.seed, i))
        case = {
            "threads": rng.choice([2, 3, 4]),
            "mode": rng.choice(["exec_once", "exec_once_unless_exception", "once-listener", "sync_first"]),
            "fail_first": rng.random() < 0.3,
        }
        chooser = lib_sched.RandomChooser(random.Random(rng.randrange(1 << 30)), rng.choice([0.1, 0.3, 0.6]), 0.0)
        failures, ie, tr = run_concurrent(case, chooser)
        case["choices"] = list(chooser.choices)
        if tr is not None:
            traces.append((case, tr))
        ctx.case(("x", case["mode"], case["threads"], case["fail_first"], tuple(chooser.choices)), nontrivial=True)
        ctx.count("concurrent=" + case["mode"])
        if ie:
            ctx.count("F10-only_once-IndexError (at-most-once still holds)")
        for key, detail in failures:
            ctx.violation(key, case, detail)



# ---- multiple inheritance (direct oracle only; the Lean model is single-inheritance) ------------
# ops: ("S", [base idx...])  new class with these bases      ("L", cls idx, insert)  listen with a FRESH function
#      ("R", listen no)      remove that registration        ("F", cls idx)          dispatch on a new instance
# Every listen uses a fresh function object, so neither known deviation pattern can arise.  Oracle
# (the property itself): a dispatch on class C fires every live registration made on C or on any
# class in C.__mro__ exactly once and nothing else; remove() of a live registration succeeds.
MI_DIRECTED = [
    # two sibling branches listened on BEFORE the multi-base subclass exists
    [("S", [0]), ("S", [0]), ("L", 0, 0), ("L", 1, 0), ("L", 2, 0), ("S", [1, 2]), ("F", 3), ("R", 2), ("F", 3), ("F", 2)],
    # the second base's listener arrives through a grandparent
    [("S", [0]), ("S", [0]), ("S", [2]), ("L", 2, 1), ("L", 1, 0), ("S", [1, 3]), ("F", 4), ("L", 3, 0), ("F", 4)],
    # diamond: both branches and the root
    [("S", [0]), ("S", [0]), ("L", 1, 0), ("L", 2, 1), ("S", [2, 1]), ("L", 0, 0), ("F", 3), ("R", 0), ("F", 3), ("R", 2), ("F", 3)],
]


def mi_gen(rng, n):
    ops, ncls, nl, live = [], 1, 0, []
    for _ in range(n):
        r = rng.random()
        if r < 0.25 and ncls < 7:
            k = 1 if ncls < 2 or rng.random() < 0.4 else rng.choice([2, 2, 3])
            ops.append(("S", rng.sample(range(ncls), min(k, ncls))))
            ncls += 1
        elif r < 0.6:
            ops.append(("L", rng.randrange(ncls), int(rng.random() < 0.3)))
            live.append(nl)
            nl += 1
        elif r < 0.72 and live:
            ops.append(("R", live.pop(rng.randrange(len(live)))))
        else:
            ops.append(("F", rng.randrange(ncls)))
    ops.extend(("F", c) for c in range(ncls))
    return ops


def mi_run(ops):
    """-> (list of per-op real outputs, list of per-op expected outputs)"""
    w = World()
    real, exp = [], []
    regs = []  # listen no -> [class idx, fn, live]
    try:
        for op in ops:
            if op[0] == "S":
                try:
                    w.classes.append(type("M%d" % len(w.classes), tuple(w.classes[b] for b in op[1]), {}))
                except TypeError:  # inconsistent MRO: the class is a plain copy of its first base
                    w.classes.append(type("M%d" % len(w.classes), (w.classes[op[1][0]],), {}))
                real.append("done"); exp.append("done")
            elif op[0] == "L":
                fn = w._mk(len(regs))
                regs.append([op[1], fn, True])
                w.event.listen(w.classes[op[1]], "ev", fn, **({"insert": True} if op[2] else {}))
                real.append("done"); exp.append("done")
            elif op[0] == "R":
                r = regs[op[1]]
                try:
                    w.event.remove(w.classes[r[0]], "ev", r[1])
                    real.append("done")
                except Exception as e:  # noqa
                    real.append("err:" + type(e).__name__)
                r[2] = False
                exp.append("done")
            elif op[0] == "F":
                cls = w.classes[op[1]]
                del w.calls[:]
                cls().dispatch.ev(1)
                real.append("calls:" + (",".join(map(str, sorted(w.calls))) or "-"))
                want = sorted(i for i, r in enumerate(regs) if r[2] and w.classes[r[0]] in cls.__mro__)
                exp.append("calls:" + (",".join(map(str, want)) or "-"))
        return real, exp
    finally:
        w.close()


def mi_block(ctx, n):
    seqs = [[tuple(o) for o in ops] for ops in MI_DIRECTED]
    for i in range(n):
        rng = random.Random("%s:mi:%d:%d" % (PID, ctx.seed, i))
        seqs.append(mi_gen(rng, rng.randint(6, 22)))
    for ops in seqs:
        real, exp = mi_run(ops)
        multi = any(o[0] == "S" and len(o[1]) > 1 for o in ops)
        ctx.case("mi:" + repr(ops), nontrivial=multi and sum(1 for o in ops if o[0] in "LR") >= 2)
        ctx.count("multi-inheritance" if multi else "mi-block-single-inheritance")
        if real != exp:
            i = next(j for j in range(len(ops)) if real[j] != exp[j])
            ctx.violation(
                "multi-inheritance-dispatch", {"mi_ops": [list(o) for o in ops[: i + 1]]},
                "op %d %r: real %s, registered (live registrations on the MRO, each once) %s" % (i, ops[i], real[i], exp[i]))


def run(ctx, deep=False):
    ctx.rule = (
        "random op sequences (5..25 ops; listen/remove on <=6 classes and their instances with insert/once/named/propagate, "
        "subclass and instance creation at any time, dispatch) - 85% avoiding the two known deviation patterns, 15% free; "
        "multiple-inheritance block (class DAGs with 1-3 bases created before/after class-level listens with fresh functions, removes, dispatch on every class; direct oracle: each live registration on the MRO fires exactly once); "
        "exhaustive sequences over a 13-op alphabet (quick <= 3, thorough <= 4); concurrent exec_once / once dispatch schedules; "
        "non-trivial = >= 2 listen/remove ops; distinct = distinct op sequence"
    )
    ctx.trusted.append("fresh Events/target classes built by harness/props/c28.py; listener functions record their id")
    thorough = ctx.tier == "thorough" or deep
    cases, impl_out, reqs = [], [], []
    n = 30000 if thorough else 4000
    for i in range(n):
        rng = random.Random("%s:%d:%d" % (PID, ctx.seed, i))
        ops = gen_ops(rng, rng.randint(5, 25), clean=rng.random() < 0.85)
        real = one(ctx, ops, cases, impl_out, reqs)
        if len(ops) > 15:
            ctx.sample({"ops": [fmt_op(o) for o in ops], "real": real})
    for ops in DIRECTED:
        one(ctx, [tuple(o) for o in ops], cases, impl_out, reqs)
        ctx.count("directed")
    for ops in exhaustive(4 if thorough else 3):
        one(ctx, ops, cases, impl_out, reqs)
        ctx.count("exhaustive")
    mi_block(ctx, 6000 if thorough else 1200)
    traces = []
    exec_once_schedules(ctx, 3000 if thorough else 400, traces)
    if ctx.driver_ok():
        ctx.correspond("corr/c28:event-registry-vs-Model.Event", cases, impl_out, ctx.driver(reqs))
        ctx.correspond(
            "corr/c28:exec_once-trace-inclusion-in-Model.ExecOnce",
            [c for c, _ in traces], [t[1] for _, t in traces], ctx.driver([t[0] for _, t in traces]))
    ctx.exhaustive = False


def search(ctx, broken):
    sub = type(ctx)(ctx.pid, "thorough", ctx.seed + 1, ctx.level)
    run(sub, deep=True)
    ctx.violations.extend(sub.violations)


def replay(ctx, obj):
    c = obj["case"]
    if "mi_ops" in c:
        real, exp = mi_run([tuple(o) for o in c["mi_ops"]])
        print("replay C28 multi-inheritance ops=%s\n  real: %s\n  registered: %s" % (c["mi_ops"], real, exp))
        return real != exp
    if "ops" not in c:
        from harness import lib_sched

        failures, _, _ = run_concurrent(c, lib_sched.ReplayChooser(c.get("choices") or []))
        print("replay C28 concurrent case %s -> %s" % ({k: v for k, v in c.items() if k != "choices"}, failures or "no violation"))
        return bool(failures)
    ops = [tuple(o) for o in c["ops"]]
    real = run_real(ops)
    spec, flags = spec_run(ops)
    print("replay C28 ops=%s" % [fmt_op(o) for o in ops])
    print("  real:", real)
    print("  spec:", spec, "patterns:", sorted(flags))
    return real != spec
