"""C44 — version counters prevent lost updates.

Model: lean/SaVerif/Model/Version.lean (sessions as a labelled transition system
over one shared table with a version column; transcription of the version_id
branches of orm/persistence.py and of the session expiry/rollback bookkeeping the
histories go through).  Theorems: lean/SaVerif/Props/C44.lean.

Real side: two or three real Sessions on one SQLite *file* database, four mapping
variants refining the same abstract model (client counter, user generator that
returns never-used values, server-side `ver + 1` with version_id_generator=False,
joined-table inheritance with the version column on the base table and the data
column on the sub table; three-level joined inheritance with the data column in the
base, middle or leaf table).  A history is a list of get/set/delete/add/expire/
commit/flush+rollback/rollback operations; every session operation is atomic
w.r.t. the database (pysqlite takes its write lock at the first DML of a flush and
every flush here is followed by commit or rollback), so op interleavings are all
the schedules SQLite admits.  `n` opens a SAVEPOINT (Session.begin_nested(), on a
session with nothing to flush); the session's next commit then flushes INSIDE the
SAVEPOINT and, when that flush is rejected, rolls back the SAVEPOINT only and commits
the enclosing transaction (the application "catches StaleDataError and goes on");
such an episode is contiguous (one session; it holds SQLite locks meanwhile).
Generators: random histories (with SAVEPOINT episodes), a "batch" family (one flush
writes several rows whose version counters differ; the writer keeps using its objects
without reload: expire_on_commit off / second flush), all short op sequences over a
two-session alphabet, all short in-memory op sequences inside a SAVEPOINT.

Direct oracle (independent of the Lean model): an optimistic-concurrency
reference kept from ORM load/refresh events and an observer connection:
 * a commit whose session intends to write a row whose content changed since the
   session loaded its version must fail, and a failed commit / flush+rollback must
   leave the table unchanged;
 * a successful commit writes exactly the intended rows with the intended values,
   bumps the version of every updated row (old+1, or a never-used value for the
   user generator) and leaves the other rows alone;
 * a StaleDataError is raised only when a written row really changed or vanished;
 * after a successful commit without expiry every written object carries the version its
   own row was written with (per record, whatever else the flush wrote).
"""
import itertools
import os
import shutil
import tempfile
import warnings

PID = "C44"
LEVEL = "proof"
LEAN = ["SaVerif.Props.C44"]
META = {
    "text": "Lean theorems over ALL histories (any number of sessions, rows and operations, by induction over the step function of the session/database transition system): a flush that writes a row whose version (after the flush-time load of an expired version) is not the current one, or whose row vanished, does not succeed; every unsuccessful commit and every flush+rollback leaves the database unchanged; every successful UPDATE increments the version by exactly one (counter) and unchanged rows keep theirs; no successful write replaces a row content the writer had not seen (ghost stamps) - unconditionally for a generator of never-used values, and for the integer counter unless a deleted primary key was re-inserted (the counter restarts at 1: proved counterexample, replayed on the real code as a known finding). A rejected flush leaves no pending object, deletion mark or modified object behind - after rollback(), and also when it ran inside a SAVEPOINT (begin_nested) that alone is rolled back while the enclosing transaction commits - so the rejected change is never written later (failed_commit_leaves_nothing_to_write, failed_commit_then_commit_db_unchanged; uses the expiry condition of SessionTransaction._restore_snapshot, regenerated from the source); every record of a successful multi-row flush leaves its object with the version stored in its own row (writer_version_eq_row_after_commit; one UPDATE per versioned record: the allow_executemany conjunction of _emit_update_statements is regenerated from the source). The model is tied to orm/persistence.py and orm/session.py by a differential run of generated and small-scope-exhaustive histories on real Sessions over a SQLite file (7 mapping variants incl. server-side versioning and joined inheritance; SAVEPOINT episodes; multi-row flushes over rows with different counters by sessions that re-use their objects), and the property itself is re-checked on the real outcome by an independent optimistic-concurrency reference.",
    "note": "Trusted: Lean kernel; the correspondence (sampling + exhaustive up to a small length); SQLite as the only backend (rowcount semantics of other DBAPIs are not exercised); post_update and relationship-driven flush paths with a version column are not modelled. SAVEPOINTs: only begin_nested() on a session with nothing to flush, one flush inside, then release+commit or savepoint-rollback+commit (a successful flush inside a SAVEPOINT that is rolled back later is not modelled); the model's per-batch postfetch branch (versionedUpdateExecutemany = true) is dead on the unchanged tree. no_lost_update for the integer counter is a _partial theorem (hypothesis: no re-insert of a deleted primary key) with a proved counterexample.",
    "technique": "Lean 4 invariant proof over an LTS of sessions + differential correspondence with real Sessions on SQLite + independent reference oracle",
    "design_ref": "DESIGN.md §3 C30–C48 (C44)",
}

VARIANTS = ("counter", "fresh", "server", "joined", "joined3mid", "joined3leaf", "joined3base")
_WORLDS = {}
_TMP = None


def _tmpdir():
    global _TMP
    if _TMP is None:
        base = "/dev/shm" if os.path.isdir("/dev/shm") else None
        _TMP = tempfile.mkdtemp(prefix="verif-c44-", dir=base)
        import atexit

        atexit.register(shutil.rmtree, _TMP, True)
    return _TMP


def parse_default_generator():
    """(START, STEP) of `lambda x: (x or START) + STEP` in orm/mapper.py, or (None, None)"""
    import ast

    from harness import vlib

    start = step = None
    src = open(os.path.join(vlib.REPO, "lib", "sqlalchemy", "orm", "mapper.py")).read()
    for node in ast.walk(ast.parse(src)):
        if (
            isinstance(node, ast.Assign)
            and len(node.targets) == 1
            and isinstance(node.targets[0], ast.Attribute)
            and node.targets[0].attr == "version_id_generator"
            and isinstance(node.value, ast.Lambda)
        ):
            lam = node.value
            arg = lam.args.args[0].arg if lam.args.args else None
            b = lam.body
            # (x or START) + STEP
            if (
                isinstance(b, ast.BinOp)
                and isinstance(b.op, ast.Add)
                and isinstance(b.right, ast.Constant)
                and isinstance(b.right.value, int)
                and isinstance(b.left, ast.BoolOp)
                and isinstance(b.left.op, ast.Or)
                and len(b.left.values) == 2
                and isinstance(b.left.values[0], ast.Name)
                and b.left.values[0].id == arg
                and isinstance(b.left.values[1], ast.Constant)
                and isinstance(b.left.values[1].value, int)
                and b.left.values[1].value >= 0
                and b.right.value >= 0
            ):
                start, step = b.left.values[1].value, b.right.value
    return start, step


def parse_versioned_update_executemany(src):
    """persistence._emit_update_statements: `allow_executemany = A and B ...`.  Returns True when
    versioned rows may be batched (no top-level conjunct `not needs_version_id`), False when they
    are excluded, None when the assignment has another shape."""
    import ast

    for node in ast.walk(ast.parse(src)):
        if isinstance(node, ast.FunctionDef) and node.name == "_emit_update_statements":
            assigns = [
                n for n in ast.walk(node)
                if isinstance(n, ast.Assign) and len(n.targets) == 1 and isinstance(n.targets[0], ast.Name)
                and n.targets[0].id == "allow_executemany"
            ]
            if len(assigns) != 1:
                return None
            v = assigns[0].value
            conj = v.values if isinstance(v, ast.BoolOp) and isinstance(v.op, ast.And) else [v]

            def excludes_versioned(e):
                return (isinstance(e, ast.UnaryOp) and isinstance(e.op, ast.Not)
                        and isinstance(e.operand, ast.Name) and e.operand.id == "needs_version_id")

            return not any(excludes_versioned(e) for e in conj)
    return None


def parse_savepoint_rollback_expiry(src):
    """session.SessionTransaction._restore_snapshot: the states expired when a SAVEPOINT is rolled
    back (dirty_only=True).  Returns True when the function expires states (calls `._expire(`) and
    some condition inside it reads `<state>.modified`, False when `._expire(` is called but no
    condition mentions `.modified`, None when no expiry is found at all."""
    import ast

    for node in ast.walk(ast.parse(src)):
        if isinstance(node, ast.FunctionDef) and node.name == "_restore_snapshot":
            expires = any(isinstance(n, ast.Call) and isinstance(n.func, ast.Attribute) and n.func.attr == "_expire"
                          for n in ast.walk(node))
            if not expires or not any(isinstance(a, ast.arg) and a.arg == "dirty_only" for a in node.args.args):
                return None
            tests = []
            for n in ast.walk(node):
                if isinstance(n, (ast.If, ast.IfExp, ast.While)):
                    tests.append(n.test)
                elif isinstance(n, ast.comprehension):
                    tests.extend(n.ifs)
            return any(isinstance(a, ast.Attribute) and a.attr == "modified" for t in tests for a in ast.walk(t))
    return None


def gen(ctx):
    """Translator: the default version_id_generator lambda of orm/mapper.py and the
    shape of the was_already_deleted branch of persistence._organize_states_for_save
    -> lean/SaVerif/Gen/VersionCfg.lean"""
    import ast

    from harness import vlib

    start, step = parse_default_generator()
    ctx.obligation(
        "translator: orm/mapper.py default version_id_generator has the shape `lambda x: (x or START) + STEP`",
        start is not None,
        "lambda not found or of another shape; the model's Gen.counter cannot be regenerated",
    )
    keeps = None
    src = open(os.path.join(vlib.REPO, "lib", "sqlalchemy", "orm", "persistence.py")).read()
    for node in ast.walk(ast.parse(src)):
        if isinstance(node, ast.FunctionDef) and node.name == "_organize_states_for_save":
            calls = [
                n
                for n in ast.walk(node)
                if isinstance(n, ast.Call) and isinstance(n.func, ast.Attribute) and n.func.attr == "remove_state_actions"
            ]
            wad = [
                n
                for n in ast.walk(node)
                if isinstance(n, ast.Call) and isinstance(n.func, ast.Attribute) and n.func.attr == "was_already_deleted"
            ]
            # today: one remove_state_actions (row switch) and one was_already_deleted test;
            # a second remove_state_actions means the vanished-row branch also drops the DELETE
            if len(wad) == 1:
                keeps = len(calls) < 2
    ctx.obligation(
        "translator: persistence._organize_states_for_save tests was_already_deleted(existing) exactly once",
        keeps is not None,
        "row-switch detection has another shape; the model's Act.insDel branch cannot be regenerated",
    )
    batched = parse_versioned_update_executemany(src)
    ctx.obligation(
        "translator: persistence._emit_update_statements assigns `allow_executemany = <conjunction>` exactly once",
        batched is not None,
        "assignment not found or of another shape; the model's per-record / per-batch postfetch switch cannot be regenerated",
    )
    sess_src = open(os.path.join(vlib.REPO, "lib", "sqlalchemy", "orm", "session.py")).read()
    expmod = parse_savepoint_rollback_expiry(sess_src)
    ctx.obligation(
        "translator: SessionTransaction._restore_snapshot expires states under a recognisable condition over dirty_only / s.modified / self._dirty",
        expmod is not None,
        "expiry loop not found or of another shape; the model's savepoint-rollback expiry set cannot be regenerated",
    )
    if start is None or keeps is None or batched is None or expmod is None:
        return
    B = lambda b: "true" if b else "false"
    ctx.write_gen(
        "VersionCfg",
        "namespace SaVerif.Gen.VersionCfg\n"
        "/-- orm/mapper.py: `self.version_id_generator = lambda x: (x or %d) + %d` -/\n"
        "def counterStart : Nat := %d\n"
        "def counterStep : Nat := %d\n"
        "/-- orm/persistence.py `_organize_states_for_save`: when `was_already_deleted(existing)`\n"
        "    is true the expired state stays registered for DELETE (no `remove_state_actions`) -/\n"
        "def rowSwitchVanishedKeepsDelete : Bool := %s\n"
        "/-- orm/persistence.py `_emit_update_statements`: `allow_executemany = ...` does NOT carry the\n"
        "    conjunct `not needs_version_id`, i.e. versioned rows of one group go out as ONE executemany\n"
        "    UPDATE and every record is post-fetched from `compiled_parameters[0]` (the first record) -/\n"
        "def versionedUpdateExecutemany : Bool := %s\n"
        "/-- orm/session.py `SessionTransaction._restore_snapshot(dirty_only=True)` (SAVEPOINT rollback):\n"
        "    the expiry condition mentions `s.modified` (modified-but-unflushed states are expired) -/\n"
        "def savepointRollbackExpiresModified : Bool := %s\n"
        "end SaVerif.Gen.VersionCfg\n" % (start, step, start, step, B(keeps), B(batched), B(expmod)),
    )


class World:
    """engine + mapping for one variant; reused across histories"""

    def __init__(self, variant):
        import sqlalchemy as sa
        from sqlalchemy import event
        from sqlalchemy.orm import declarative_base

        from harness.lib_orm2 import odd_mixin

        Odd = odd_mixin("id", "val")  # falsy, value-equal instances
        self.sa = sa
        self.variant = variant
        fn = os.path.join(_tmpdir(), variant + ".db")
        self.engine = sa.create_engine("sqlite:///" + fn)
        Base = declarative_base()
        self.fresh = itertools.count(1000)
        gstart, gstep = parse_default_generator()
        if gstart is None:
            gstart, gstep = 0, 1
        if variant == "joined":

            class B(Odd, Base):
                __tablename__ = "b"
                id = sa.Column(sa.Integer, primary_key=True, autoincrement=False)
                ver = sa.Column(sa.Integer, nullable=False)
                type = sa.Column(sa.String(10))
                __mapper_args__ = {"version_id_col": ver, "polymorphic_on": type, "polymorphic_identity": "b"}

            class T(B):
                __tablename__ = "s"
                id = sa.Column(sa.Integer, sa.ForeignKey("b.id"), primary_key=True)
                val = sa.Column(sa.Integer)
                __mapper_args__ = {"polymorphic_identity": "s"}

            self.sql_rows = "select b.id, s.val, b.ver from b join s on b.id = s.id order by b.id"
            self.sql_clear = ["delete from s", "delete from b"]
        elif variant.startswith("joined3"):
            # three joined levels Doc -> Report -> AuditReport, version column on the base table;
            # the one data column the histories change lives in the base / middle / leaf table,
            # the other levels carry a column that never changes
            where = variant[len("joined3"):]

            class B(Odd, Base):
                __tablename__ = "d3"
                id = sa.Column(sa.Integer, primary_key=True, autoincrement=False)
                ver = sa.Column(sa.Integer, nullable=False)
                type = sa.Column(sa.String(10))
                if where == "base":
                    val = sa.Column(sa.Integer)
                else:
                    bx = sa.Column(sa.Integer, default=0)
                __mapper_args__ = {"version_id_col": ver, "polymorphic_on": type, "polymorphic_identity": "d"}

            class M(B):
                __tablename__ = "r3"
                id = sa.Column(sa.Integer, sa.ForeignKey("d3.id"), primary_key=True)
                if where == "mid":
                    val = sa.Column(sa.Integer)
                else:
                    mx = sa.Column(sa.Integer, default=0)
                __mapper_args__ = {"polymorphic_identity": "r"}

            class T(M):
                __tablename__ = "a3"
                id = sa.Column(sa.Integer, sa.ForeignKey("r3.id"), primary_key=True)
                if where == "leaf":
                    val = sa.Column(sa.Integer)
                else:
                    lx = sa.Column(sa.Integer, default=0)
                __mapper_args__ = {"polymorphic_identity": "a"}

            tab = {"base": "d3", "mid": "r3", "leaf": "a3"}[where]
            self.sql_rows = "select d3.id, %s.val, d3.ver from d3 join r3 on d3.id = r3.id join a3 on a3.id = d3.id order by d3.id" % tab
            self.sql_clear = ["delete from a3", "delete from r3", "delete from d3"]
        else:
            if variant == "server":
                vercol = sa.Column(
                    "ver",
                    sa.Integer,
                    nullable=False,
                    # the "server" counts like the client-side default generator of this tree
                    default=sa.literal_column(str(gstart + gstep)),
                    onupdate=sa.literal_column("ver + %d" % gstep),
                )
                margs = {"version_id_generator": False}
            elif variant == "fresh":
                vercol = sa.Column("ver", sa.Integer, nullable=False)
                margs = {"version_id_generator": lambda v: next(self.fresh)}
            else:
                vercol = sa.Column("ver", sa.Integer, nullable=False)
                margs = {}

            class T(Odd, Base):
                __tablename__ = "t"
                id = sa.Column(sa.Integer, primary_key=True, autoincrement=False)
                val = sa.Column(sa.Integer)
                ver = vercol
                __mapper_args__ = dict(margs, version_id_col=vercol)

            self.sql_rows = "select id, val, ver from t order by id"
            self.sql_clear = ["delete from t"]
        self.T = T
        Base.metadata.drop_all(self.engine)
        Base.metadata.create_all(self.engine)
        self.listener = None

        def on_load(target, context):
            if self.listener:
                self.listener(target, None)

        def on_refresh(target, context, attrs):
            if self.listener:
                self.listener(target, attrs)

        event.listen(T, "load", on_load)
        event.listen(T, "refresh", on_refresh)

    def reset(self):
        with self.engine.begin() as c:
            for q in self.sql_clear:
                c.exec_driver_sql(q)

    def rows(self):
        with self.engine.connect() as c:
            return {r[0]: (r[1], r[2]) for r in c.exec_driver_sql(self.sql_rows)}


def world(variant):
    if variant not in _WORLDS:
        _WORLDS[variant] = World(variant)
    return _WORLDS[variant]


BLIND = "blind"
KEY_ABA = "aba-version-restart-after-delete-reinsert"
KEY_INSDEL = "rowswitch-onto-expired-deleted-object-whose-row-vanished-loses-insert"


def run_history(case):
    """an exception escaping from a session operation on valid state is itself a defect"""
    import traceback

    try:
        return _run_history(case)
    except Exception as e:
        tb = traceback.extract_tb(e.__traceback__)
        where = ["%s:%d" % (os.path.basename(f.filename), f.lineno) for f in tb if "sqlalchemy" in f.filename][-3:]
        return "crash:" + type(e).__name__, [("unexpected-exception", "%s: %s at %s" % (type(e).__name__, str(e)[:200], where))]


def _run_history(case):
    """Execute one history on real sessions.  Returns (impl_line, problems) where
    problems is a list of (key, detail) found by the reference oracle."""
    from sqlalchemy import inspect
    from sqlalchemy.exc import IntegrityError
    from sqlalchemy.orm import Session
    from sqlalchemy.orm.exc import ObjectDeletedError, StaleDataError

    variant, eoc, npk, nsess, ops = case["variant"], case["eoc"], case["npk"], case["nsess"], case["ops"]
    w = world(variant)
    w.reset()
    T = w.T
    sessions = [Session(w.engine, expire_on_commit=bool(eoc), autoflush=False) for _ in range(nsess)]
    pers = [dict() for _ in range(nsess)]  # k -> persistent object handle (strong ref)
    pend = [dict() for _ in range(nsess)]  # k -> pending object handle
    # ---- reference-oracle shadow
    stamp = {}  # k -> number of committed content changes of row k
    seen = [dict() for _ in range(nsess)]  # k -> stamp seen when the version was last loaded
    base = [dict() for _ in range(nsess)]  # k -> value the session believes committed | BLIND
    intent = [dict() for _ in range(nsess)]  # k -> ("val", v) | ("del",) | ("add", v) | ("switch", v)
    ever_deleted = set()
    all_versions = set()
    problems = []
    outs = []
    lost_flag = False
    reins_flag = False
    sess_index = {id(s): i for i, s in enumerate(sessions)}
    spx = [None] * nsess  # open SAVEPOINT (SessionTransaction of begin_nested) per session
    modk = [set() for _ in range(nsess)]  # rows whose persistent object was assigned to since the last flush / expire

    def listener(target, attrs):
        st = inspect(target)
        si = sess_index.get(id(st.session))
        if si is None:
            return
        k = target.__dict__.get("id")
        if k is None:
            return
        if attrs is None or "ver" in attrs:
            seen[si][k] = stamp.get(k, 0)
        if attrs is None or "val" in attrs:
            base[si][k] = target.__dict__.get("val")

    w.listener = listener
    db = w.rows()

    def prune(s):
        for k, o in list(pend[s].items()):
            st = inspect(o)
            if st.persistent:
                pers[s][k] = o
                del pend[s][k]
            elif not st.pending:
                del pend[s][k]
        for k, o in list(pers[s].items()):
            if not inspect(o).persistent:
                del pers[s][k]

    def clear_shadow(s):
        intent[s].clear()
        seen[s].clear()
        base[s].clear()

    def showdb(d):
        return "[" + ",".join("%d=%s@%s" % (k, d[k][0], d[k][1]) for k in sorted(d)) + "]"

    try:
        with warnings.catch_warnings():
            warnings.simplefilter("ignore")
            for op in ops:
                kind, s = op[0], op[1]
                sess = sessions[s]
                if any(spx[t] is not None for t in range(nsess) if t != s):
                    # a session inside a SAVEPOINT holds SQLite locks until its transaction ends:
                    # the generators keep such episodes contiguous
                    raise ValueError("ill-formed history: op %s while another session has an open SAVEPOINT" % (op,))
                if kind == "g":
                    k = op[2]
                    o = pers[s].get(k)
                    if k in pend[s] or (o is not None and o in sess.deleted):
                        outs.append("-")
                        continue
                    r = sess.get(T, k)
                    if r is None:
                        outs.append("n")
                        pers[s].pop(k, None)
                        seen[s].pop(k, None)
                        base[s].pop(k, None)
                        intent[s].pop(k, None)
                    else:
                        pers[s][k] = r
                        outs.append("o%s@%s" % (r.__dict__.get("val", "N"), r.__dict__.get("ver", "N")))
                elif kind == "s":
                    k, v = op[2], op[3]
                    if k in pend[s]:
                        pend[s][k].val = v
                        it = intent[s].get(k)
                        intent[s][k] = (it[0], v)
                        outs.append("d")
                    elif k in pers[s] and pers[s][k] not in sess.deleted:
                        o = pers[s][k]
                        b = base[s].get(k, BLIND)
                        o.val = v
                        modk[s].add(k)
                        if b is BLIND or b != v:
                            intent[s][k] = ("val", v)
                        else:
                            intent[s].pop(k, None)
                        outs.append("d")
                    else:
                        outs.append("-")
                elif kind == "d":
                    k = op[2]
                    if k in pers[s] and k not in pend[s] and pers[s][k] not in sess.deleted:
                        sess.delete(pers[s][k])
                        intent[s][k] = ("del",)
                        outs.append("d")
                    else:
                        outs.append("-")
                elif kind == "a":
                    k, v = op[2], op[3]
                    if k in pend[s]:
                        outs.append("-")
                    elif k not in pers[s]:
                        o = T(id=k, val=v)
                        sess.add(o)
                        pend[s][k] = o
                        intent[s][k] = ("add", v)
                        outs.append("d")
                    elif pers[s][k] in sess.deleted:
                        o = T(id=k, val=v)
                        sess.add(o)
                        pend[s][k] = o
                        intent[s][k] = ("switch", v)
                        outs.append("d")
                    else:
                        outs.append("-")
                elif kind == "x":
                    k = op[2]
                    if k in pers[s] and k not in pend[s] and pers[s][k] not in sess.deleted:
                        sess.expire(pers[s][k])
                        modk[s].discard(k)
                        intent[s].pop(k, None)
                        seen[s].pop(k, None)
                        base[s].pop(k, None)
                        outs.append("d")
                    else:
                        outs.append("-")
                elif kind == "r":
                    if sess.in_transaction():
                        sess.rollback()
                        prune(s)
                        clear_shadow(s)
                    else:
                        sess.rollback()
                    spx[s] = None
                    modk[s].clear()
                    outs.append("d")
                elif kind == "n":
                    # begin_nested() flushes first: only on a session with nothing to flush
                    if spx[s] is not None or sess.new or sess.dirty or sess.deleted:
                        outs.append("-")
                    else:
                        spx[s] = sess.begin_nested()
                        outs.append("d")
                elif kind in ("c", "f"):
                    before = db
                    had_txn = sess.in_transaction()
                    plan = dict(intent[s])
                    seen_before = dict(seen[s])
                    insp = spx[s] is not None and kind == "c"

                    def recover():
                        if insp:
                            # the application catches the error, gives up the SAVEPOINT only and
                            # goes on with (here: commits) the enclosing transaction
                            spx[s].rollback()
                            sess.commit()
                        else:
                            sess.rollback()

                    try:
                        if kind == "c":
                            if insp:
                                sess.flush()  # inside the SAVEPOINT
                                spx[s].commit()  # RELEASE
                            elif case.get("flushfirst"):
                                sess.flush()
                            sess.commit()
                        else:
                            sess.flush()
                            sess.rollback()
                        outcome = "ok"
                    except StaleDataError:
                        recover()
                        outcome = "stale"
                    except IntegrityError:
                        recover()
                        outcome = "integrity"
                    except ObjectDeletedError:
                        recover()
                        outcome = "gone"
                    except Exception as e:  # any other exception out of a flush of valid state is a defect
                        outcome = "error-" + type(e).__name__
                        problems.append(("unexpected-exception-in-flush", "%s: %s" % (type(e).__name__, str(e)[:200])))
                        try:
                            sess.rollback()
                        except Exception:
                            pass
                    spx[s] = None
                    after = w.rows()
                    # ------------------------------------------------ reference oracle
                    changed = [k for k in set(before) | set(after) if before.get(k) != after.get(k)]
                    if outcome != "ok" or kind == "f":
                        if changed:
                            problems.append(("db-changed-by-%s-%s" % ("flush-rollback" if kind == "f" else "failed-commit", outcome),
                                             "rows %s changed: %s -> %s" % (changed, before, after)))
                    # which intended writes are stale w.r.t. what the session saw
                    stale_k, gone_k, dup_k = [], [], []
                    for k, it in plan.items():
                        if it[0] in ("val", "del", "switch"):
                            if k not in before:
                                gone_k.append(k)
                            elif k in seen_before and seen_before[k] != stamp.get(k, 0):
                                stale_k.append(k)
                        elif it[0] == "add" and k in before:
                            dup_k.append(k)
                    if outcome == "ok":
                        # known defect: row switch onto an expired, deleted-marked object whose row vanished
                        vanished_switch = [k for k in gone_k if plan[k][0] == "switch" and k not in seen_before]
                        if vanished_switch:
                            # (flush + rollback: the table is back to `before`, nothing can be "lost")
                            lostk = [k for k in vanished_switch if k not in after] if kind == "c" else []
                            if lostk:
                                problems.append((KEY_INSDEL,
                                                 "session %d: delete(expired obj) + add(new obj, same pk %s) committed without error but the new row is not in the table: before=%s after=%s"
                                                 % (s, lostk, before, after)))
                            # the old object was expired: nothing was seen, so a plain INSERT of the new object is a correct outcome
                            gone_k = [k for k in gone_k if k not in vanished_switch]
                            for k in lostk:
                                plan.pop(k)
                                ever_deleted.add(k)
                        if stale_k or gone_k:
                            aba = [k for k in stale_k if k in ever_deleted and variant != "fresh"]
                            if kind == "c" and stale_k:
                                lost_flag = True
                            if stale_k and len(aba) == len(stale_k) and not gone_k:
                                problems.append((KEY_ABA,
                                                 "session %d wrote rows %s although they were deleted and re-inserted (same version number) since it loaded them" % (s, stale_k)))
                            else:
                                problems.append(("stale-write-succeeded",
                                                 "session %d %s succeeded although rows %s changed / rows %s vanished since it loaded them; before=%s after=%s"
                                                 % (s, kind, stale_k, gone_k, before, after)))
                        if dup_k:
                            problems.append(("duplicate-insert-succeeded", "rows %s" % dup_k))
                        if kind == "c":
                            for k, it in plan.items():
                                if it[0] == "del":
                                    if k in after:
                                        problems.append(("delete-not-applied", "row %d still present" % k))
                                elif k not in after or after[k][0] != it[1]:
                                    problems.append(("write-not-applied", "row %d: intended %s, table has %s" % (k, it, after.get(k))))
                                elif k in before and it[0] in ("val", "switch"):
                                    ov, nv = before[k][1], after[k][1]
                                    if variant == "fresh":
                                        if nv in all_versions:
                                            problems.append(("version-not-fresh", "row %d: %s -> %s" % (k, ov, nv)))
                                    elif not (isinstance(nv, int) and nv > ov):
                                        problems.append(("version-not-incremented", "row %d: version %s -> %s" % (k, ov, nv)))
                            for k in changed:
                                if k not in plan:
                                    problems.append(("unintended-row-changed", "row %d: %s -> %s" % (k, before.get(k), after.get(k))))
                            if not eoc:
                                # the writer goes on with the objects it has: each must carry the version its
                                # own UPDATE / INSERT stored (else its next flush is spuriously stale, or
                                # overwrites a later change of somebody else unseen)
                                for k, it in plan.items():
                                    o = pend[s].get(k)  # not yet pruned: the object just inserted / switched in
                                    if o is None:  # (instances are falsy: no `or`)
                                        o = pers[s].get(k)
                                    if it[0] != "del" and k in after and o is not None and "ver" in o.__dict__:
                                        if o.__dict__["ver"] != after[k][1]:
                                            problems.append(("writer-version-differs-from-row-after-commit",
                                                             "session %d row %d: object carries version %s, its row was written with %s (flush of rows %s)"
                                                             % (s, k, o.__dict__["ver"], after[k][1], sorted(plan))))
                    else:
                        just = {"stale": stale_k or gone_k, "integrity": dup_k, "gone": gone_k}.get(outcome, True)
                        if not just:
                            problems.append(("unjustified-" + outcome,
                                             "session %d %s raised %s but no intended write %s conflicts with the table %s (seen=%s stamps=%s)"
                                             % (s, kind, outcome, plan, before, seen_before, stamp)))
                    # ------------------------------------------------ shadow update
                    for k in changed:
                        stamp[k] = stamp.get(k, 0) + 1
                        if k not in after:
                            ever_deleted.add(k)
                        elif k not in before and k in ever_deleted:
                            reins_flag = True
                    for v in after.values():
                        all_versions.add(v[1])
                    db = after
                    prune(s)
                    if outcome == "ok" and kind == "c":
                        intent[s].clear()
                        for k in plan:
                            if k in after and k in pers[s]:
                                if eoc:
                                    seen[s].pop(k, None)
                                    base[s].pop(k, None)
                                else:
                                    seen[s][k] = stamp.get(k, 0)
                                    base[s][k] = after[k][0]
                            else:
                                seen[s].pop(k, None)
                                base[s].pop(k, None)
                        if eoc:
                            seen[s].clear()
                            base[s].clear()
                    elif outcome != "ok" and insp:
                        # SAVEPOINT rolled back: pending objects expunged, deletions reverted, the
                        # assigned-to objects expired; untouched objects stay as loaded
                        intent[s].clear()
                        for k in modk[s]:
                            seen[s].pop(k, None)
                            base[s].pop(k, None)
                        if eoc:
                            seen[s].clear()
                            base[s].clear()
                    elif outcome != "ok" or had_txn:
                        clear_shadow(s)
                    modk[s].clear()
                    outs.append(outcome + showdb(after))
                else:
                    raise ValueError(op)
                # the table must only change inside commit operations
                if kind not in ("c", "f"):
                    now = w.rows()
                    if now != db:
                        problems.append(("db-changed-outside-commit", "op %s: %s -> %s" % (op, db, now)))
                        db = now
    finally:
        w.listener = None
        for sess in sessions:
            try:
                sess.close()
            except Exception:
                pass
    line = ";".join(outs) + " L%dR%d" % (1 if lost_flag else 0, 1 if reins_flag else 0)
    return line, problems


# ---------------------------------------------------------------------- encoding
def enc_op(op):
    return ":".join(str(x) for x in op)


def request(case):
    g = "f" if case["variant"] == "fresh" else "c"
    ops = ",".join(enc_op(o) for o in case["ops"]) or "-"
    return "version run %s %d %d %d %s" % (g, case["eoc"], case["npk"], case["nsess"], ops)


def canon(line, variant):
    """fresh generator: version numbers are only meaningful up to renaming"""
    if variant != "fresh":
        return line
    import re

    names = {}

    def ren(m):
        v = m.group(1)
        if v == "N":
            return "@N"
        if v not in names:
            names[v] = "v%d" % len(names)
        return "@" + names[v]

    return re.sub(r"@(N|\d+)", ren, line)


# ---------------------------------------------------------------------- generators
def gen_random(rng, tier):
    nsess = rng.choice([2, 2, 3])
    npk = rng.choice([1, 1, 2, 3])
    ops = []
    # seed rows and load them everywhere (mostly)
    for k in range(npk):
        if rng.random() < 0.85:
            ops.append(("a", 0, k, rng.randint(0, 3)))
    ops.append(("c", 0))
    for s in range(nsess):
        for k in range(npk):
            if rng.random() < 0.8:
                ops.append(("g", s, k))
    n = rng.randint(4, 10 if tier == "quick" else 18)
    for _ in range(n):
        s = rng.randrange(nsess)
        k = rng.randrange(npk)
        r = rng.random()
        if r < 0.30:
            ops.append(("s", s, k, rng.randint(0, 3)))
        elif r < 0.52:
            ops.append(("c", s))
        elif r < 0.64:
            ops.append(("g", s, k))
        elif r < 0.74:
            ops.append(("d", s, k))
        elif r < 0.84:
            ops.append(("a", s, k, rng.randint(4, 6)))
        elif r < 0.90:
            ops.append(("x", s, k))
        elif r < 0.95:
            ops.append(("f", s))
        else:
            ops.append(("r", s))
    if rng.random() < 0.3:
        # a SAVEPOINT episode of one session: contiguous (the session holds SQLite locks meanwhile)
        pos = rng.randrange(len(ops) // 2, len(ops) + 1)
        ops[pos:pos] = sp_episode(rng, rng.randrange(nsess), npk)
    # make pending work visible: everybody commits at the end
    order = list(range(nsess))
    rng.shuffle(order)
    for s in order:
        ops.append(("c", s))
    return nsess, npk, ops


def sp_episode(rng, s, npk):
    """[commit,] begin_nested, a few in-memory ops of the same session, then flush inside the
    SAVEPOINT + commit (mostly) / flush + rollback / rollback"""
    ep = [("c", s)] if rng.random() < 0.6 else []
    ep.append(("n", s))
    for _ in range(rng.randint(1, 3)):
        k = rng.randrange(npk)
        r = rng.random()
        if r < 0.5:
            ep.append(("s", s, k, rng.randint(7, 9)))
        elif r < 0.65:
            ep.append(("d", s, k))
        elif r < 0.8:
            ep.append(("a", s, k, rng.randint(4, 6)))
        elif r < 0.9:
            ep.append(("g", s, k))
        else:
            ep.append(("x", s, k))
    ep.append(rng.choice([("c", s)] * 8 + [("f", s), ("r", s)]))
    if rng.random() < 0.5:
        ep.append(("c", s))  # the session goes on: nothing of a rejected flush may come back
    return ep


def gen_batch(rng, tier):
    """flushes that write SEVERAL rows whose version counters differ, by sessions that keep
    using their objects afterwards (second flush without reload: expire_on_commit off, mostly)"""
    nsess = rng.choice([2, 2, 3])
    npk = rng.choice([2, 3, 3, 4])
    val = itertools.count(10)
    ops = [("a", 0, k, 0) for k in range(npk)] + [("c", 0)]
    # stagger the version counters with single-row commits
    for k in range(npk):
        for _ in range(rng.choice([0, 0, 1, 2])):
            ops += [("s", 0, k, next(val)), ("c", 0)]
    for s in range(1, nsess):
        ops += [("g", s, k) for k in range(npk) if rng.random() < 0.8]
    for _ in range(rng.randint(1, 3 if tier == "quick" else 5)):
        wr = rng.randrange(nsess)
        ks = [k for k in range(npk) if rng.random() < 0.75] or [rng.randrange(npk)]
        for k in ks:
            if rng.random() < 0.4:
                ops.append(("g", wr, k))
            r = rng.random()
            if r < 0.85:
                ops.append(("s", wr, k, next(val)))
            elif r < 0.92:
                ops.append(("d", wr, k))
            else:
                ops += [("d", wr, k), ("a", wr, k, next(val))]
        if rng.random() < 0.2:
            ops.append(("n", wr))  # skipped ("-") on both sides when there is something to flush
        ops.append(("c", wr))
        # what the writer now holds in memory
        ops += [("g", wr, k) for k in ks if rng.random() < 0.7]
        # somebody else moves some of these rows on; the writer, unaware, writes them again
        ot = rng.choice([t for t in range(nsess) if t != wr])
        for k in rng.sample(ks, min(len(ks), rng.choice([1, 1, 2]))):
            for _ in range(rng.choice([1, 1, 2])):
                ops += [("g", ot, k), ("s", ot, k, next(val)), ("c", ot)]
        if rng.random() < 0.7:
            ops += [("s", wr, k, next(val)) for k in ks if rng.random() < 0.6] + [("c", wr)]
    order = list(range(nsess))
    rng.shuffle(order)
    for s in order:
        ops.append(("c", s))
    return nsess, npk, ops


def small_scope_sp(length):
    """SAVEPOINT episodes of session 1 on one row that session 0 has / has not changed or deleted
    meanwhile: every sequence of `length` in-memory ops inside the SAVEPOINT, flush inside it,
    then the session goes on"""
    alpha = [("g", 1, 0), ("s", 1, 0, 3), ("d", 1, 0), ("a", 1, 0, 6), ("x", 1, 0)]
    for bump in ([], [("s", 0, 0, 2), ("c", 0)], [("d", 0, 0), ("c", 0)]):
        for seq in itertools.product(alpha, repeat=length):
            for close in (("c", 1), ("f", 1)):
                yield [("a", 0, 0, 1), ("c", 0), ("g", 1, 0)] + bump + [("n", 1)] + list(seq) + [close, ("c", 1), ("g", 1, 0), ("c", 0)]


def small_scope(length):
    """all op sequences of `length` over a 2-session / 1-row alphabet, after a
    prefix that creates the row and loads it in both sessions"""
    prefix = [("a", 0, 0, 1), ("c", 0), ("g", 1, 0)]
    alpha = []
    for s in (0, 1):
        alpha += [("g", s, 0), ("s", s, 0, 2 + s), ("d", s, 0), ("a", s, 0, 5 + s), ("x", s, 0), ("c", s)]
    alpha += [("f", 0), ("r", 1), ("s", 1, 0, 1)]
    for seq in itertools.product(alpha, repeat=length):
        yield prefix + list(seq) + [("c", 0), ("c", 1)]


def gen_cases(ctx, deep=False):
    thorough = ctx.tier == "thorough" or deep
    # ABA witness of Props/C44 (kept in the stream so the known finding is replayed every run)
    for variant in ("counter", "server", "joined", "joined3mid"):
        yield {"variant": variant, "eoc": 0, "npk": 1, "nsess": 2, "ops": ABA_OPS, "src": "aba"}
        yield {"variant": variant, "eoc": 0, "npk": 1, "nsess": 2, "ops": INSDEL_OPS, "src": "insdel"}
    yield {"variant": "fresh", "eoc": 0, "npk": 1, "nsess": 2, "ops": ABA_OPS, "src": "aba"}
    nrand = 2400 if thorough else 560
    for i in range(nrand):
        nsess, npk, ops = gen_random(ctx.rng, ctx.tier)
        for variant in VARIANTS:
            if not thorough and ctx.rng.random() < 0.6:
                continue
            yield {"variant": variant, "eoc": ctx.rng.choice([0, 0, 1]), "npk": npk, "nsess": nsess, "ops": ops,
                   "flushfirst": ctx.rng.random() < 0.2, "src": "random"}
    for i in range(800 if thorough else 110):
        nsess, npk, ops = gen_batch(ctx.rng, ctx.tier)
        for variant in VARIANTS:
            if not thorough and ctx.rng.random() < 0.6:
                continue
            yield {"variant": variant, "eoc": ctx.rng.choice([0, 0, 0, 1]), "npk": npk, "nsess": nsess, "ops": ops,
                   "flushfirst": ctx.rng.random() < 0.2, "src": "batch"}
    for seq in small_scope_sp(2 if thorough else 1):
        for variant in VARIANTS if thorough else (ctx.rng.choice(VARIANTS),):
            yield {"variant": variant, "eoc": ctx.rng.choice([0, 1]), "npk": 1, "nsess": 2, "ops": seq, "src": "savepoint"}
    length = 3 if thorough else 2
    for seq in small_scope(length):
        for variant in VARIANTS if thorough else (ctx.rng.choice(VARIANTS),):
            yield {"variant": variant, "eoc": 0, "npk": 1, "nsess": 2, "ops": seq, "src": "small"}
    if thorough:
        for seq in small_scope(4):
            if ctx.rng.random() < 0.12:
                yield {"variant": ctx.rng.choice(VARIANTS), "eoc": ctx.rng.choice([0, 1]), "npk": 1, "nsess": 2, "ops": seq, "src": "small4"}


INSDEL_OPS = [("a", 0, 0, 1), ("c", 0), ("g", 1, 0), ("d", 1, 0), ("c", 1), ("x", 0, 0), ("d", 0, 0), ("a", 0, 0, 6), ("c", 0)]
ABA_OPS = [("a", 0, 0, 1), ("c", 0), ("g", 1, 0), ("d", 0, 0), ("c", 0), ("a", 0, 0, 2), ("c", 0), ("s", 1, 0, 3), ("c", 1)]


def jsonable(case):
    c = dict(case)
    c["ops"] = [list(o) for o in case["ops"]]
    return c


def _budget_exhausted(ctx, t0, n):
    """a broken tree can make every history slow (leaks, lock waits): stop generating in time
    and judge what was run"""
    import time

    limit = 70 if ctx.tier == "quick" else 650
    if time.time() - t0 > limit:
        ctx.assumptions.append("time budget reached after %d cases; remaining generated cases not run" % n)
        return True
    return False


def run(ctx, deep=False):
    ctx.rule = (
        "histories of get/set/delete/add/expire/commit/flush+rollback/rollback/begin_nested over 2-3 real Sessions and 1-4 rows on a SQLite file "
        "(SAVEPOINT episodes: flush inside the SAVEPOINT, on rejection savepoint-only rollback + commit; batch family: multi-row flushes over rows "
        "with different version counters, objects re-used without reload; every 1-op (quick) / 2-op (thorough) in-memory sequence inside a SAVEPOINT x 3 concurrent-change prefixes), "
        "7 mapping variants (incl. 3-level joined inheritance with the changed column in the base / middle / leaf table) x expire_on_commit, random (seeded) + every sequence of 2 (quick) / 3 (thorough; 12% of length 4) ops over a 15-letter "
        "2-session/1-row alphabet after a create+load prefix; a case is non-trivial when at least one commit had something to write"
    )
    ctx.trusted.append("SQLite (file database, pysqlite rowcount) as the executing backend; SQLite serialises writers so session operations are atomic")
    ctx.trusted.append("ORM load/refresh events + an observer connection as the reference oracle's view of what each session saw")
    import time

    t0 = time.time()
    cases, impl_out, reqs = [], [], []
    for case in gen_cases(ctx, deep):
        if _budget_exhausted(ctx, t0, len(cases)):
            break
        line, problems = run_history(case)
        jc = jsonable(case)
        ctx.case((case["variant"], case["eoc"], case["ops"], case.get("flushfirst", False)),
                 nontrivial=("ok[" in line))
        ctx.count("variant=" + case["variant"])
        ctx.count("src=" + case["src"])
        for tag in ("stale", "integrity", "gone", "ok"):
            if tag + "[" in line:
                ctx.count("outcome-seen=" + tag)
        for key, detail in problems:
            ctx.violation(key, jc, detail)
        cases.append(jc)
        if sum(1 for v_ in ctx.violations if v_["key"] not in (KEY_ABA, KEY_INSDEL)) >= 25:  # enough evidence; a broken tree can make every history slow
            impl_out.append(canon(line, case["variant"]))
            reqs.append(request(case))
            break
        impl_out.append(canon(line, case["variant"]))
        reqs.append(request(case))
        if case["src"] == "random" and "stale" in line:
            ctx.sample({"case": jc, "impl": line}, cap=4)
    if ctx.driver_ok():
        model = [canon(m, c["variant"]) for m, c in zip(ctx.driver(reqs), cases)]
        ctx.correspond("corr/c44:sessions-on-sqlite-vs-Model.Version", cases, impl_out, model)
    # malformed stream: the model must reject what the harness would never run
    if ctx.driver_ok():
        bad = ["version run c 0 1 1 g:1:0", "version run c 0 1 1 s:0:3:1", "version run q 0 1 1 -", "version run c 2 1 1 -", "version run c 0 1 1 z:0"]
        outb = ctx.driver(bad)
        ctx.correspond("corr/c44:malformed-rejected", [{"req": b} for b in bad], ["bad-op"] * len(bad), outb)
    ctx.exhaustive = False


def search(ctx, broken):
    sub = type(ctx)(ctx.pid, "thorough", ctx.seed + 1, ctx.level)
    # first the disagreeing correspondence cases themselves
    for d in ctx.disagreements:
        c = d.get("case")
        if isinstance(c, dict) and "ops" in c:
            case = dict(c, ops=[tuple(o) for o in c["ops"]])
            _, problems = run_history(case)
            for key, detail in problems:
                ctx.violation(key, c, detail)
    known = {e["key"] for e in ctx.known_findings() if e.get("status") == "known"}
    if any(v["key"] not in known for v in ctx.violations):
        return
    run(sub, deep=True)
    ctx.violations.extend(sub.violations)


def replay(ctx, obj):
    c = obj["case"]
    case = dict(c, ops=[tuple(o) for o in c["ops"]])
    line, problems = run_history(case)
    print("replay C44 %s\n  impl: %s\n  oracle: %s" % (request(case), line, problems))
    return any(k == obj.get("key") for k, _ in problems) or (bool(problems) and obj.get("key") is None)
