"""C39 — Cascades follow their configured rules.

Model       lean/SaVerif/Model/Cascade.lean (Mapper.cascade_iterator + RelationshipProperty.cascade_iterator)
Table       lean/SaVerif/Gen/CascadeTable.lean (regenerated: orm.util.all_cascades, CascadeOptions._add_w_all_cascades,
            and the normalisation of CascadeOptions.__new__ over them)
Theorems    lean/SaVerif/Props/C39.lean
Check       (1) every subset of the cascade option names through the real CascadeOptions vs the table
            normalisation and an explicit spec; (2) the real Mapper.cascade_iterator on random object graphs
            (self-referential many-to-many / many-to-one relationships with random cascade settings: cycles,
            shared children, self loops, halt_on sets) vs the model (exact order) and vs an independent
            closure computation; (3) Session.add / delete / expunge / expire / refresh / merge + flush on
            SQLite: session membership, lifecycle state and rows vs the closure-based prediction;
            delete-orphan: no orphan rows after flush.
"""
import itertools
import json

PID = "C39"
LEVEL = "proof"
LEAN = ["SaVerif.Props.C39"]
META = {
    "text": "Lean theorems for ANY object graph (cycles, shared children, self references), any assignment of cascade flags to relationships and any halt_on predicate: the transcribed Mapper.cascade_iterator / RelationshipProperty.cascade_iterator yields exactly the objects reachable from the root through at least one edge whose relationship carries the cascade and whose target is not halted (cascade_sound, cascade_complete, cascade_reaches_exactly) and yields each once (cascade_nodup) — a loop-invariant proof over the explicit stack of the iterator. The CascadeOptions flag table ('all' expansion, 'none', delete-orphan not implied by 'all') is decided over constants regenerated from orm/util.py. Session.add / delete / expunge / expire / refresh / merge and flush-time delete-orphan are tied to the closure by the direct oracle on the real Session.",
    "note": "The iterator model is a hand transcription tied by an exact (ordered) differential run against the real Mapper.cascade_iterator on random graphs. Session-level semantics (which lifecycle transition each reached object makes, pending children skipped by refresh-expire, objects without identity skipped by delete, delete-orphan at flush) are checked by the oracle only: the prediction is the reflexive-transitive closure computed independently in Python. get_all_pending (save-update also following objects removed since the last flush) is oracle-level only. SQLite in-memory is the only backend.",
    "technique": "Lean 4 loop-invariant proof of a transcribed graph traversal + decide over a regenerated option table + exact differential correspondence and closure oracle on the real ORM/SQLite",
    "design_ref": "DESIGN.md §3 C39",
}

class Timeout(Exception):
    pass


class time_limit:
    """a traversal that does not terminate (e.g. a lost visited set on a cyclic graph) must
    become a violation, not a hang"""

    def __init__(self, seconds):
        self.seconds = seconds

    def __enter__(self):
        import signal

        def onalarm(signum, frame):
            raise Timeout()

        self.old = signal.signal(signal.SIGALRM, onalarm)
        signal.alarm(self.seconds)

    def __exit__(self, *a):
        import signal

        signal.alarm(0)
        signal.signal(signal.SIGALRM, self.old)
        return False


CASCADES = ["save-update", "delete", "refresh-expire", "merge", "expunge"]
FLAGS = ["save-update", "delete", "refresh-expire", "merge", "expunge", "delete-orphan"]
_ENV = {}


# ---------------------------------------------------------------------------------------
# translator
# ---------------------------------------------------------------------------------------
def gen(ctx):
    import hashlib
    import inspect
    from sqlalchemy.orm import util as U

    allc = sorted(U.all_cascades)
    addall = sorted(U.CascadeOptions._add_w_all_cascades)
    src = inspect.getsource(U.CascadeOptions.__new__)
    # the flag assignments of __new__ : attribute -> option string
    import ast
    import textwrap

    tree = ast.parse(textwrap.dedent(src))
    assigns = []
    for n in ast.walk(tree):
        if isinstance(n, ast.Assign) and isinstance(n.targets[0], ast.Attribute) and isinstance(n.value, ast.Compare):
            if isinstance(n.value.left, ast.Constant):
                assigns.append((n.targets[0].attr, n.value.left.value))
    lst = lambda l: "[" + ", ".join('"%s"' % x for x in l) + "]"  # noqa: E731
    ctx.write_gen(
        "CascadeTable",
        "namespace SaVerif.Gen.CascadeTable\n"
        "/-- orm.util.all_cascades -/\n"
        "def allCascades : List String := %s\n"
        "/-- CascadeOptions._add_w_all_cascades -/\n"
        "def addWithAll : List String := %s\n"
        "/-- `self.<attr> = \"<option>\" in values` assignments of CascadeOptions.__new__ -/\n"
        "def flagAttrs : List (String × String) := [%s]\n"
        "/-- sha1 of the source of CascadeOptions.__new__ (the normalisation below transcribes it) -/\n"
        "def newSourceSha : String := \"%s\"\n"
        "/-- CascadeOptions.__new__: ArgumentError for unknown options (`none`); `all` adds\n"
        "    `_add_w_all_cascades`; `none` clears; `all` itself is discarded -/\n"
        "def normalize (values : List String) : Option (List String) :=\n"
        "  if values.any (fun v => !allCascades.contains v) then none else\n"
        "  let v1 := if values.contains \"all\" then values ++ addWithAll else values\n"
        "  let v2 := if v1.contains \"none\" then [] else v1\n"
        "  some ((v2.filter (fun v => v != \"all\")).eraseDups)\n"
        "end SaVerif.Gen.CascadeTable\n"
        % (lst(allc), lst(addall), ", ".join('("%s", "%s")' % a for a in sorted(assigns)), hashlib.sha1(src.encode()).hexdigest()),
    )


# ---------------------------------------------------------------------------------------
# mappings with random cascade settings
# ---------------------------------------------------------------------------------------
def variant(idx, opts):
    """a self-referential Node class with relationships r0, r1 (many-to-many lists) and r2
    (many-to-one), cascade options opts[0..2] (lists of option strings)"""
    key = ("v", json.dumps(opts))
    if key in _ENV:
        return _ENV[key]
    import sqlalchemy as sa
    from sqlalchemy import orm
    from sqlalchemy.pool import StaticPool

    Base = orm.declarative_base()
    t0 = sa.Table("l0", Base.metadata, sa.Column("a", sa.ForeignKey("node.id"), primary_key=True), sa.Column("b", sa.ForeignKey("node.id"), primary_key=True))
    t1 = sa.Table("l1", Base.metadata, sa.Column("a", sa.ForeignKey("node.id"), primary_key=True), sa.Column("b", sa.ForeignKey("node.id"), primary_key=True))

    class Node(Base):
        __tablename__ = "node"
        id = sa.Column(sa.Integer, primary_key=True)
        tag = sa.Column(sa.Integer)
        r2_id = sa.Column(sa.ForeignKey("node.id"))

    Node.r0 = orm.relationship(Node, secondary=t0, primaryjoin=Node.id == t0.c.a, secondaryjoin=Node.id == t0.c.b, cascade=",".join(opts[0]) or "none")
    Node.r1 = orm.relationship(Node, secondary=t1, primaryjoin=Node.id == t1.c.a, secondaryjoin=Node.id == t1.c.b, cascade=",".join(opts[1]) or "none")
    Node.r2 = orm.relationship(Node, remote_side=[Node.id], post_update=True, cascade=",".join(opts[2]) or "none")
    orm.configure_mappers()
    eng = sa.create_engine("sqlite://", poolclass=StaticPool)
    Base.metadata.create_all(eng)
    _ENV[key] = (Node, eng, Base, opts)
    return _ENV[key]


def orphan_env():
    if "orphan" in _ENV:
        return _ENV["orphan"]
    import sqlalchemy as sa
    from sqlalchemy import orm
    from sqlalchemy.pool import StaticPool

    Base = orm.declarative_base()

    class OP(Base):
        __tablename__ = "op"
        id = sa.Column(sa.Integer, primary_key=True)
        kids = orm.relationship("OK", cascade="all, delete-orphan", back_populates="parent")
        plain = orm.relationship("OQ", cascade="save-update, merge")

    class OK(Base):
        __tablename__ = "ok"
        id = sa.Column(sa.Integer, primary_key=True)
        p_id = sa.Column(sa.ForeignKey("op.id"))
        parent = orm.relationship(OP, back_populates="kids")
        subs = orm.relationship("OS", cascade="all, delete-orphan")

    class OS(Base):
        __tablename__ = "os"
        id = sa.Column(sa.Integer, primary_key=True)
        k_id = sa.Column(sa.ForeignKey("ok.id"))

    class OQ(Base):
        __tablename__ = "oq"
        id = sa.Column(sa.Integer, primary_key=True)
        p_id = sa.Column(sa.ForeignKey("op.id"))

    eng = sa.create_engine("sqlite://", poolclass=StaticPool)
    Base.metadata.create_all(eng)
    _ENV["orphan"] = (OP, OK, OS, OQ, eng, Base)
    return _ENV["orphan"]


def rand_opts(rng):
    out = []
    for _ in range(3):
        c = rng.random()
        if c < 0.15:
            out.append(["all"])
        elif c < 0.25:
            out.append([])
        else:
            out.append(sorted(o for o in CASCADES if rng.random() < 0.5))
    return out


def flags_of(opts, type_):
    return [1 if (type_ in o or "all" in o) else 0 for o in opts]


def closure(n, edges, flags, halted, root):
    """independent oracle: nodes reachable from root by >= 1 flagged edge, not entering halted nodes"""
    seen = set()
    todo = [root]
    first = True
    while todo:
        x = todo.pop()
        for r in range(3):
            if not flags[r]:
                continue
            for c in edges.get((x, r), []):
                if c in halted or c in seen:
                    continue
                seen.add(c)
                todo.append(c)
    return seen


def gen_graph(rng, n):
    edges = {}
    for a in range(n):
        for r in (0, 1):
            k = rng.choice([0, 0, 1, 1, 2, 3])
            cs = rng.sample(range(n), min(k, n))
            if cs:
                edges[(a, r)] = cs
        if rng.random() < 0.5:
            edges[(a, 2)] = [rng.randrange(n)]
    return edges


def build(Node, n, edges):
    objs = [Node(id=i + 1, tag=i) for i in range(n)]
    for (a, r), cs in edges.items():
        if r == 2:
            objs[a].r2 = objs[cs[0]]
        else:
            getattr(objs[a], "r%d" % r).extend(objs[c] for c in cs)
    return objs


def dots(l):
    return ".".join(str(x) for x in l) if l else "-"


def edge_str(edges):
    return ",".join("%d:%d:%s" % (a, r, dots(cs)) for (a, r), cs in sorted(edges.items())) or "-"


# ---------------------------------------------------------------------------------------
# part 2: the iterator itself
# ---------------------------------------------------------------------------------------
def run_iter_case(ctx, case):
    import sqlalchemy as sa

    Node, eng, Base, opts = variant(case["variant"], case["opts"])
    from sqlalchemy import orm

    objs = build(Node, case["n"], {tuple(map(int, k.split(":"))): v for k, v in case["edges"].items()})
    idx = {id(o): i for i, o in enumerate(objs)}
    halted = set(case["halted"])
    sess = None
    if case.get("persist"):
        with eng.begin() as c:
            for t in reversed(Base.metadata.sorted_tables):
                c.execute(t.delete())
        sess = orm.Session(eng, autoflush=False)
        sess.add_all(objs)
        sess.commit()
        for o in objs:
            o.r0, o.r1, o.r2
    try:
        st = sa.inspect(objs[case["root"]])
        # the collections as they are now (reloaded collections come back in row order)
        actual = {}
        for a, o in enumerate(objs):
            for r in (0, 1):
                cs = [idx[id(c)] for c in getattr(o, "r%d" % r)]
                if cs:
                    actual[(a, r)] = cs
            if o.r2 is not None:
                actual[(a, 2)] = [idx[id(o.r2)]]
        case["_actual_edges"] = actual
        got = []
        for o, m, s_, d in st.mapper.cascade_iterator(case["type"], st, halt_on=(lambda s: idx[id(s.obj())] in halted) if halted else None):
            got.append(idx[id(o)])
            if len(got) > 4 * case["n"] + 4:
                break  # does not terminate / repeats objects: reported by the oracle (duplicates)
    finally:
        if sess is not None:
            sess.rollback()
            sess.close()
    return got


def effective_halted(case):
    """`skip_pending`: refresh-expire does not follow children without an identity key (unless the
    relationship has delete-orphan, never the case in these mappings)"""
    if case["type"] == "refresh-expire" and not case.get("persist"):
        return set(range(case["n"]))
    return set(case["halted"])


# ---------------------------------------------------------------------------------------
# part 3: session operations
# ---------------------------------------------------------------------------------------
def life(sess, o):
    import sqlalchemy as sa

    s = sa.inspect(o)
    if s.transient:
        return "transient"
    if s.pending:
        return "pending"
    if s.deleted:
        return "deleted"
    if s.persistent:
        return "persistent-deleted" if o in sess.deleted else "persistent"
    if s.detached:
        return "detached"
    return "?"


def run_session_case(case):
    """returns None or (key, detail).  All objects start persistent and loaded (or transient for
    `add`); one operation on one root; the reached set is compared with the closure."""
    import sqlalchemy as sa
    from sqlalchemy import orm

    Node, eng, Base, opts = variant(case["variant"], case["opts"])
    edges = {tuple(map(int, k.split(":"))): v for k, v in case["edges"].items()}
    n = case["n"]
    with eng.begin() as c:
        for t in reversed(Base.metadata.sorted_tables):
            c.execute(t.delete())
    sess = orm.Session(eng, autoflush=False)
    op = case["op"]
    root = case["root"]
    try:
        if op == "add":
            objs = build(Node, n, edges)
            pre = set(case.get("pre", []))
            # objects already in the session halt the save-update cascade
            for i in pre:
                sess.add(objs[i])  # cascades too: recompute membership from the session below
            before = {i for i, o in enumerate(objs) if o in sess}
            sess.add(objs[root])
            after = {i for i, o in enumerate(objs) if o in sess}
            want = before | {root} | closure(n, edges, flags_of(opts, "save-update"), before | {root}, root)
            if after != want:
                return ("add-reach", "session.add(%d): in session %s, closure over save-update edges (halting at %s) %s" % (root, sorted(after), sorted(before), sorted(want)))
            sess.flush()
            rows = {r[0] - 1 for r in sess.execute(sa.select(Node.__table__.c.id))}
            if rows != after:
                return ("add-rows", "after flush rows %s, session members %s" % (sorted(rows), sorted(after)))
            return None
        # persistent graph
        objs = build(Node, n, edges)
        # make everything persistent regardless of cascades
        sess.add_all(objs)
        sess.commit()
        for o in objs:
            o.r0, o.r1, o.r2, o.tag  # load
        if op == "attach":
            # relationship mutation on an object in the session: the append / set event cascades
            # save-update to the new object (and on through its own save-update relationships)
            k = case["rel"]
            n1, n2 = Node(id=n + 1, tag=n), Node(id=n + 2, tag=n + 1)
            n1.r0.append(n2)
            if k == 2:
                objs[root].r2 = n1
            else:
                getattr(objs[root], "r%d" % k).append(n1)
            su = flags_of(opts, "save-update")
            want1 = bool(su[k])
            want2 = want1 and bool(su[0])
            got1, got2 = n1 in sess, n2 in sess
            if (got1, got2) != (want1, want2):
                return ("attach-reach", "object attached through r%d of a persistent object: in session (new, new.r0 child) = %s, save-update flags %s say %s" % (k, (got1, got2), su, (want1, want2)))
            return None
        if op == "delete":
            sess.delete(objs[root])
            got = {i for i, o in enumerate(objs) if o in sess.deleted}
            want = {root} | closure(n, edges, flags_of(opts, "delete"), set(), root)
            if got != want:
                return ("delete-reach", "session.delete(%d): marked deleted %s, closure over delete edges %s" % (root, sorted(got), sorted(want)))
            sess.flush()
            rows = {r[0] - 1 for r in sess.execute(sa.select(Node.__table__.c.id))}
            if rows != set(range(n)) - want:
                return ("delete-rows", "after flush rows %s, expected %s" % (sorted(rows), sorted(set(range(n)) - want)))
            return None
        if op == "expunge":
            sess.expunge(objs[root])
            got = {i for i, o in enumerate(objs) if o not in sess}
            want = {root} | closure(n, edges, flags_of(opts, "expunge"), set(), root)
            if got != want:
                return ("expunge-reach", "session.expunge(%d): detached %s, closure over expunge edges %s" % (root, sorted(got), sorted(want)))
            return None
        if op in ("expire", "refresh"):
            for o in objs:
                o.tag = 100 + o.tag  # pending change, discarded by expire/refresh
            if op == "expire":
                sess.expire(objs[root])
            else:
                sess.refresh(objs[root])
            got = {i for i, o in enumerate(objs) if "tag" not in sa.inspect(o).dict or o.tag < 100}
            want = {root} | closure(n, edges, flags_of(opts, "refresh-expire"), set(), root)
            if got != want:
                return ("%s-reach" % op, "session.%s(%d): expired/refreshed %s, closure over refresh-expire edges %s" % (op, root, sorted(got), sorted(want)))
            return None
        if op == "merge":
            sess.expunge_all()
            for o in objs:
                sa.inspect(o)  # detached copies carry the graph
            for o in objs:
                o.tag = 100 + o.tag
            s2 = orm.Session(eng, autoflush=False)
            try:
                s2.merge(objs[root])
                s2.flush()
                rows = {r[0] - 1 for r in s2.execute(sa.select(Node.__table__.c.id).where(Node.__table__.c.tag >= 100))}
                want = {root} | closure(n, edges, flags_of(opts, "merge"), set(), root)
                if rows != want:
                    return ("merge-reach", "session.merge(%d): state copied onto rows %s, closure over merge edges %s" % (root, sorted(rows), sorted(want)))
            finally:
                s2.rollback()
                s2.close()
            return None
        raise ValueError(op)
    finally:
        sess.rollback()
        sess.close()


def run_orphan_case(case):
    """delete-orphan: after flush no row of a de-associated child (or of its own delete-orphan
    children) remains; children still attached keep their rows"""
    import sqlalchemy as sa
    from sqlalchemy import orm

    OP, OK, OS, OQ, eng, Base = orphan_env()
    with eng.begin() as c:
        for t in reversed(Base.metadata.sorted_tables):
            c.execute(t.delete())
    sess = orm.Session(eng, autoflush=False)
    try:
        ps = [OP(id=i + 1) for i in range(2)]
        ks = [OK(id=i + 1) for i in range(4)]
        ss = [OS(id=i + 1) for i in range(4)]
        qs = [OQ(id=i + 1) for i in range(2)]
        for i, k in enumerate(ks):
            k.subs.append(ss[i])
        for i, p in enumerate(case["init"]):
            if p is not None:
                ps[p].kids.append(ks[i])
        ps[0].plain.append(qs[0])
        sess.add_all(ps)
        sess.flush()
        removed_from = {}  # kid -> parent it was removed from since the last flush
        orphan_of_deleted_parent = False
        pending_child_of_deleted = False
        for op in case["ops"]:
            k = op["op"]
            if k == "remove":
                kid = ks[op["k"]]
                kst = sa.inspect(kid)
                if not (kst.deleted or kst.detached or kst.was_deleted) and kid.parent is not None:
                    removed_from.setdefault(op["k"], set()).add(ps.index(kid.parent))
                    kid.parent.kids.remove(kid)
            elif k == "move":
                kst, pst = sa.inspect(ks[op["k"]]), sa.inspect(ps[op["p"]])
                gone = lambda st: st.deleted or st.detached or st.was_deleted or st.obj() in sess.deleted  # noqa: E731
                if not gone(kst) and not gone(pst) and ks[op["k"]] not in ps[op["p"]].kids:
                    oldp = ks[op["k"]].parent
                    was_pending = kst.pending
                    ps[op["p"]].kids.append(ks[op["k"]])
                    removed_from.setdefault(op["k"], set()).discard(op["p"])
                    if oldp is not None and oldp is not ps[op["p"]]:
                        removed_from[op["k"]].add(ps.index(oldp))  # the backref took it out of the old list
                    if ks[op["k"]] not in sess and was_pending and oldp is not None and oldp is not ps[op["p"]]:
                        return ("pending-child-moved-between-parents-expunged", "pending child %d moved from parent %d to parent %d (both delete-orphan): the backref's removal from the old collection expunges it as an orphan after the save-update cascade of the append has already run; it is in the new collection but not in the session, and flush skips it" % (op["k"], ps.index(oldp), op["p"]))
                    if ks[op["k"]] not in sess or ss[op["k"]] not in sess:
                        return ("attach-reach", "child %d appended to a parent in the session: child / sub-child in session = %s / %s (save-update cascade)" % (op["k"], ks[op["k"]] in sess, ss[op["k"]] in sess))
            elif k == "readd":
                # attach a new child through the NON cascading many-to-one side, then add the
                # parent (already in the session) again: the save-update cascade must reach it
                kid = ks[op["k"]]
                kst, pst = sa.inspect(kid), sa.inspect(ps[op["p"]])
                if kst.transient and (pst.pending or pst.persistent) and ps[op["p"]] not in sess.deleted:
                    ps[op["p"]].kids  # collection loaded (an unloaded one only queues a pending mutation)
                    kid.parent = ps[op["p"]]
                    sess.add(ps[op["p"]])
                    if kid not in sess or ss[op["k"]] not in sess:
                        return ("readd-reach", "child %d attached by child.parent = p%d (no backref cascade) and session.add(parent) called again: child / sub-child in session = %s / %s" % (op["k"], op["p"], kid in sess, ss[op["k"]] in sess))
            elif k == "unplain":
                if qs[0] in ps[0].plain:
                    ps[0].plain.remove(qs[0])
            elif k == "delparent":
                if sa.inspect(ps[op["p"]]).persistent:
                    if any(sa.inspect(x).pending for x in ps[op["p"]].kids):
                        pending_child_of_deleted = True
                    sess.delete(ps[op["p"]])
                    if any(op["p"] in v for v in removed_from.values()):
                        orphan_of_deleted_parent = True
            elif k == "flush":
                sess.flush()
                removed_from.clear()
        sess.flush()
        krows = {r[0] - 1: r[1] for r in sess.execute(sa.select(OK.__table__.c.id, OK.__table__.c.p_id))}
        srows = {r[0] - 1 for r in sess.execute(sa.select(OS.__table__.c.id))}
        prows = {r[0] - 1 for r in sess.execute(sa.select(OP.__table__.c.id))}
        qrows = {r[0] - 1 for r in sess.execute(sa.select(OQ.__table__.c.id))}
        for i, pid in krows.items():
            if pid is None:
                return ("orphan-row", "child %d has a row with no parent after flush (delete-orphan): %s" % (i, case))
            if pid - 1 not in prows:
                if pending_child_of_deleted:
                    return ("pending-child-of-deleted-parent-inserted", "child %d was pending in the collection of parent %d when the parent was deleted: delete skips objects without identity, flush INSERTs the child pointing at the deleted parent" % (i, pid))
                return ("orphan-row", "child %d row points at deleted parent %d" % (i, pid))
        for i in srows:
            if i not in krows:
                if orphan_of_deleted_parent:
                    return ("orphan-of-deleted-parent-grandchild-row", "child %d was removed from a parent that is deleted in the same flush: the child row is deleted as an orphan but its own delete / delete-orphan children keep their rows (sub-child %d)" % (i, i))
                return ("orphan-row", "sub-child %d has a row but its parent child row is gone" % i)
        for i in krows:
            if i not in srows:
                return ("cascade-overreach", "sub-child %d row deleted although child %d is kept" % (i, i))
        if 0 not in qrows:
            return ("cascade-overreach", "an object of a relationship WITHOUT delete / delete-orphan was deleted")
        # every child whose parent is alive and still holds it keeps its row
        for i, kobj in enumerate(ks):
            if sa.inspect(kobj).persistent and kobj not in sess.deleted and kobj.parent is not None and i not in krows:
                return ("cascade-overreach", "child %d still attached but row missing" % i)
        return None
    finally:
        sess.rollback()
        sess.close()


def m2o_env():
    if "m2o" in _ENV:
        return _ENV["m2o"]
    import sqlalchemy as sa
    from sqlalchemy import orm
    from sqlalchemy.pool import StaticPool

    Base = orm.declarative_base()

    class MU(Base):
        __tablename__ = "mu"
        id = sa.Column(sa.Integer, primary_key=True)
        pref_id = sa.Column(sa.ForeignKey("mpref.id"))
        pref = orm.relationship("MPref", cascade="all, delete-orphan", single_parent=True, back_populates="user")

    class MPref(Base):
        __tablename__ = "mpref"
        id = sa.Column(sa.Integer, primary_key=True)
        data = sa.Column(sa.Integer)
        user = orm.relationship(MU, back_populates="pref", uselist=False)
        extras = orm.relationship("MExtra", cascade="all, delete-orphan")

    class MExtra(Base):
        __tablename__ = "mextra"
        id = sa.Column(sa.Integer, primary_key=True)
        pref_id = sa.Column(sa.ForeignKey("mpref.id"))
        subs = orm.relationship("MSub", cascade="all, delete-orphan")

    class MSub(Base):
        __tablename__ = "msub"
        id = sa.Column(sa.Integer, primary_key=True)
        extra_id = sa.Column(sa.ForeignKey("mextra.id"))

    eng = sa.create_engine("sqlite://", poolclass=StaticPool)
    Base.metadata.create_all(eng)
    _ENV["m2o"] = (MU, MPref, MExtra, MSub, eng, Base)
    return _ENV["m2o"]


def run_m2o_case(case):
    """many-to-one delete-orphan (single_parent) whose target has its own delete cascade: a
    de-associated target — clean or dirty in the same flush — is deleted with everything below it"""
    import sqlalchemy as sa
    from sqlalchemy import orm

    MU, MPref, MExtra, MSub, eng, Base = m2o_env()
    with eng.begin() as c:
        for t in reversed(Base.metadata.sorted_tables):
            c.execute(t.delete())
    sess = orm.Session(eng, autoflush=False)
    try:
        us = [MU(id=i + 1) for i in range(2)]
        prefs = [MPref(id=i + 1, data=0) for i in range(4)]
        nid = [100]
        for p in prefs:
            for _ in range(2):
                e = MExtra(id=nid[0])
                nid[0] += 1
                e.subs.append(MSub(id=nid[0]))
                nid[0] += 1
                p.extras.append(e)
        for i, u in enumerate(us):
            if case["init"][i]:
                u.pref = prefs[i]
        sess.add_all(us)
        sess.commit()
        for u in us:
            if u.pref is not None:
                [x.subs for x in u.pref.extras]
        nextp = 2
        for op in case["ops"]:
            k = op["op"]
            u = us[op.get("u", 0)]
            if k == "dirty" and u.pref is not None:
                u.pref.data = (u.pref.data or 0) + 1
            elif k == "unset":
                u.pref = None
            elif k == "replace" and nextp < 4:
                u.pref = prefs[nextp]
                nextp += 1
            elif k == "dirty-extra" and u.pref is not None and u.pref.extras:
                u.pref.extras[0].subs.append(MSub(id=nid[0]))
                nid[0] += 1
                sess.flush()  # a still-pending grandchild under a parent orphaned in the same flush is a different scenario
            elif k == "flush":
                sess.flush()
        sess.flush()
        prow = {r[0] for r in sess.execute(sa.select(MPref.__table__.c.id))}
        urow = {r[0]: r[1] for r in sess.execute(sa.select(MU.__table__.c.id, MU.__table__.c.pref_id))}
        erow = {r[0]: r[1] for r in sess.execute(sa.select(MExtra.__table__.c.id, MExtra.__table__.c.pref_id))}
        srow = {r[0]: r[1] for r in sess.execute(sa.select(MSub.__table__.c.id, MSub.__table__.c.extra_id))}
        held = {v for v in urow.values() if v is not None}
        if prow != held:
            return ("m2o-orphan-row", "pref rows %s, prefs referenced by a user %s (delete-orphan on the many-to-one)" % (sorted(prow), sorted(held)))
        for eid, pid in erow.items():
            if pid not in prow:
                return ("m2o-orphan-row", "extra %d row survives although its pref %s was deleted as an orphan (delete cascade below the orphan)" % (eid, pid))
        for sid, eid in srow.items():
            if eid not in erow:
                return ("m2o-orphan-row", "sub %d row survives although its extra %s is gone" % (sid, eid))
        for pid in prow:
            if sum(1 for v in erow.values() if v == pid) < 2:
                return ("cascade-overreach", "pref %d is kept but lost extras" % pid)
        return None
    finally:
        sess.rollback()
        sess.close()


def gen_m2o_case(rng):
    case = {"m2o": True, "init": [rng.random() < 0.85, rng.random() < 0.6], "ops": []}
    for _ in range(rng.randint(1, 6)):
        c = rng.random()
        u = rng.randrange(2)
        if c < 0.3:
            case["ops"].append({"op": "dirty", "u": u})
        elif c < 0.5:
            case["ops"].append({"op": "unset", "u": u})
        elif c < 0.7:
            case["ops"].append({"op": "replace", "u": u})
        elif c < 0.85:
            case["ops"].append({"op": "dirty-extra", "u": u})
        else:
            case["ops"].append({"op": "flush"})
    return case


def gen_orphan_case(rng):
    case = {"orphan": True, "init": [rng.choice([None, 0, 0, 1]) for _ in range(4)], "ops": []}
    for _ in range(rng.randint(1, 6)):
        c = rng.random()
        if c < 0.4:
            case["ops"].append({"op": "remove", "k": rng.randrange(4)})
        elif c < 0.55:
            case["ops"].append({"op": "move", "k": rng.randrange(4), "p": rng.randrange(2)})
        elif c < 0.62:
            case["ops"].append({"op": "readd", "k": rng.randrange(4), "p": rng.randrange(2)})
        elif c < 0.7:
            case["ops"].append({"op": "unplain"})
        elif c < 0.8:
            case["ops"].append({"op": "delparent", "p": rng.randrange(2)})
        else:
            case["ops"].append({"op": "flush"})
    return case


# ---------------------------------------------------------------------------------------
def spec_flags(values):
    """explicit statement of the CascadeOptions rules"""
    vs = set(values)
    if "none" in vs:
        return [0] * 6
    out = []
    for f in FLAGS:
        on = f in vs or ("all" in vs and f != "delete-orphan")
        out.append(1 if on else 0)
    return out


def run(ctx, deep=False):
    import warnings

    from sqlalchemy.orm import util as U
    from sqlalchemy import exc as sa_exc

    thorough = ctx.tier == "thorough" or deep
    ctx.rule = (
        "(1) all 256 subsets of the 8 cascade option names (+ invalid names) through CascadeOptions; (2) Mapper.cascade_iterator for the five "
        "cascade types on random graphs of 2-6 self-referential nodes, 3 relationships (two many-to-many lists, one many-to-one) with random "
        "cascade settings (%d mapping variants), cycles, self loops, shared children, random halt_on sets; (3) Session.add (with objects "
        "already in the session) / delete / expunge / expire / refresh / merge on the same graphs + flush and rows; (4) delete-orphan "
        "sequences (remove / move / delete parent / flush) on a parent-child-subchild mapping; (5) object-graph histories over the delete-orphan "
        "families of harness/lib_graph.py (bidirectional and one-directional, three levels, subclass members, orphans whose parent is not "
        "part of the flush, remove + delete parent in one flush) with the tables/reload oracle; non-trivial = graph with at least one edge" % (10 if thorough else 5)
    )
    ctx.trusted.append("session-level lifecycle semantics are checked by the closure oracle only (the Lean model covers the traversal)")
    ctx.trusted.append("SQLite in-memory is the only backend executed")
    rng = ctx.rng
    # ---- (1) option table
    names = sorted(U.all_cascades)
    cases1, impl1, req1 = [], [], []
    subsets = [list(c) for k in range(len(names) + 1) for c in itertools.combinations(names, k)]
    subsets += [["bogus"], ["all", "bogus"], ["delete", "delete"]]
    for vs in subsets:
        with warnings.catch_warnings():
            warnings.simplefilter("ignore")
            try:
                co = U.CascadeOptions(list(vs))
                got = [int(co.save_update), int(co.delete), int(co.refresh_expire), int(co.merge), int(co.expunge), int(co.delete_orphan)]
                line = " ".join(str(x) for x in got)
                if set(vs) <= set(names) and got != spec_flags(vs):
                    ctx.violation("c39:cascade-options-flags", {"options": vs}, "CascadeOptions(%r) flags %s, rules say %s" % (vs, got, spec_flags(vs)))
                if sorted(co) != sorted(f for f, g in zip(FLAGS, got) if g):
                    ctx.violation("c39:cascade-options-members", {"options": vs}, "CascadeOptions(%r) members %s disagree with its flags %s" % (vs, sorted(co), got))
            except sa_exc.ArgumentError:
                line = "invalid"
                if set(vs) <= set(names):
                    ctx.violation("c39:cascade-options-flags", {"options": vs}, "CascadeOptions(%r) rejected a valid option list" % (vs,))
        ctx.case({"options": vs}, nontrivial=bool(vs))
        ctx.count("part=options")
        cases1.append({"options": vs})
        impl1.append(line)
        req1.append("cascade norm %s" % (",".join(vs) or "-"))
    # ---- mapping variants
    nvar = 10 if thorough else 5
    variants = [rand_opts(rng) for _ in range(nvar)]
    variants[0] = [["all"], ["save-update", "merge"], ["save-update", "delete", "expunge", "refresh-expire", "merge"]]
    # ---- (2) iterator
    cases2, impl2, req2 = [], [], []
    for _ in range(6000 if thorough else 700):
        v = rng.randrange(nvar)
        n = rng.randint(2, 6)
        edges = gen_graph(rng, n)
        type_ = rng.choice(CASCADES)
        root = rng.randrange(n)
        halted = sorted(rng.sample(range(n), rng.choice([0, 0, 0, 1, 2]))) if n > 2 else []
        if root in halted:
            halted.remove(root)
        case = {"part": "iter", "variant": v, "opts": variants[v], "n": n, "edges": {"%d:%d" % k: c for k, c in edges.items()}, "type": type_, "root": root, "halted": halted,
                "persist": rng.random() < 0.3}
        got = run_iter_case(ctx, case)
        actual_edges = case.pop("_actual_edges")
        halted = sorted(effective_halted(case))
        ctx.case(case, nontrivial=bool(edges))
        ctx.count("part=iter/%s" % type_)
        ctx.count("nodes=%d" % n)
        fl = flags_of(variants[v], type_)
        want = closure(n, edges, fl, set(halted), root)
        if set(got) != want or len(got) != len(set(got)):
            ctx.violation("c39:iterator-ne-closure", case, "cascade_iterator(%r, node %d) yields %s, closure over flagged edges is %s" % (type_, root, got, sorted(want)))
        if len(got) >= 3:
            ctx.sample({"case": case, "yielded": got}, cap=4)
        cases2.append(case)
        impl2.append("ok " + dots(got))
        req2.append("cascade iter 3 %s %s %s %d" % (dots(fl), dots(halted), edge_str(actual_edges), root))
    # ---- (3) session operations
    for _ in range(2500 if thorough else 350):
        v = rng.randrange(nvar)
        n = rng.randint(2, 5)
        edges = gen_graph(rng, n)
        op = rng.choice(["add", "add", "delete", "expunge", "expire", "refresh", "merge", "attach"])
        case = {"part": "session", "variant": v, "opts": variants[v], "n": n, "edges": {"%d:%d" % k: c for k, c in edges.items()}, "op": op, "root": rng.randrange(n)}
        if op == "add":
            case["pre"] = sorted(rng.sample(range(n), rng.choice([0, 0, 1])))
        if op == "attach":
            case["rel"] = rng.randrange(3)
        try:
            with time_limit(20):
                bad = run_session_case(case)
        except Timeout:
            bad = ("operation-does-not-terminate", "session.%s(%d) did not finish within 20 s" % (op, case["root"]))
        ctx.case(case, nontrivial=bool(edges))
        ctx.count("part=session/%s" % op)
        if bad:
            ctx.violation("c39:" + bad[0], case, bad[1])
    # ---- (4) delete-orphan
    for _ in range(1500 if thorough else 200):
        case = gen_orphan_case(rng)
        try:
            with time_limit(20):
                bad = run_orphan_case(case)
        except Timeout:
            bad = ("operation-does-not-terminate", "delete-orphan sequence did not finish within 20 s")
        ctx.case(case, nontrivial=True)
        ctx.count("part=orphan")
        if bad:
            ctx.violation("c39:" + bad[0], case, bad[1])
    for _ in range(1500 if thorough else 250):
        case = gen_m2o_case(rng)
        try:
            with time_limit(20):
                bad = run_m2o_case(case)
        except Timeout:
            bad = ("operation-does-not-terminate", "many-to-one delete-orphan sequence did not finish within 20 s")
        except Exception as e:  # noqa: BLE001
            bad = ("op-raised", "many-to-one delete-orphan sequence raised %s: %s" % (type(e).__name__, str(e)[:200]))
        ctx.case(case, nontrivial=True)
        ctx.count("part=m2o-orphan")
        if bad:
            ctx.violation("c39:" + bad[0], case, bad[1])
    run_graph_part(ctx, deep)
    if ctx.driver_ok():
        bad = ["cascade iter 3 1.1 - - 0", "cascade iter x 1.1.1 - - 0", "cascade frob"]
        ctx.correspond("corr/c39:malformed-rejected", [{"line": l} for l in bad], ["bad-op"] * len(bad), ctx.driver(bad))
        ctx.correspond("corr/c39:CascadeOptions-vs-Gen.CascadeTable.normalize", cases1, impl1, ctx.driver(req1))
        ctx.correspond("corr/c39:Mapper.cascade_iterator-vs-Model.Cascade", cases2, impl2, ctx.driver(req2))


GRAPH_PROFILES = ["o2m", "oneway", "chain", "chain", "cycle"]


def run_graph_part(ctx, deep=False):
    """(5) delete / delete-orphan cascades on whole object-graph histories (harness/lib_graph.py):
    the families with delete-orphan collections - bidirectional (parent/child, person/car) and
    one-directional (folder/file, dept/team/task three levels), members that are instances of a
    single-table SUBCLASS of the relationship target, orphans whose former parent takes no part
    in the flush (parent never added to the Session; Session.flush([orphan])), member removed and
    parent deleted in one flush. Oracle: tables and a fresh-session reload equal the intended
    graph (cascade rules as configured), foreign keys enforced."""
    import os

    from harness import lib_graph_check as K

    thorough = ctx.tier == "thorough" or deep
    cases = K.run_random("C39", ctx.seed, "deep" if deep else ctx.tier, 24 if thorough else 6, 300 if thorough else 110,
                         (4, 10) if thorough else (3, 7), procs=int(os.environ.get("VERIF_PROCS", "6")), profiles=GRAPH_PROFILES)
    for prof, rounds, f, _d, nst, _k in cases:
        ctx.case(rounds, nontrivial=nst > 2)
        ctx.count("part=graph/%s" % prof)
        if f is not None and f["kind"] != "inapplicable":
            key = "c39:graph-%s-%s" % (f["kind"], f.get("table") or f.get("exc"))
            ctx.violation(key, {"graph": True, "rounds": rounds[: f["round"] + 1]}, f["detail"])


def search(ctx, broken):
    sub = type(ctx)(ctx.pid, "thorough", ctx.seed + 1, ctx.level)
    run(sub, deep=True)
    ctx.violations.extend(sub.violations)


def replay(ctx, obj):
    case = obj["case"]
    if "options" in case:
        from sqlalchemy.orm import util as U

        co = U.CascadeOptions(list(case["options"]))
        got = [int(co.save_update), int(co.delete), int(co.refresh_expire), int(co.merge), int(co.expunge), int(co.delete_orphan)]
        print("replay C39 options %r -> %s, rules %s" % (case["options"], got, spec_flags(case["options"])))
        return got != spec_flags(case["options"])
    if case.get("graph"):
        from harness import lib_graph_check as K

        res, f = K.replay_case(case["rounds"], attempts=12)
        for rd, r in zip(case["rounds"], res):
            print("round:", rd["muts"], "->", rd["end"], "| error:", r["error"])
        print("oracle:", f)
        return f is not None
    if case.get("m2o"):
        bad = run_m2o_case(case)
        print("replay C39 m2o-orphan %s -> %s" % (json.dumps(case), bad))
        return bad is not None
    if case.get("orphan"):
        bad = run_orphan_case(case)
        print("replay C39 orphan %s -> %s" % (json.dumps(case), bad))
        return bad is not None
    if case.get("part") == "iter":
        got = run_iter_case(ctx, case)
        case.pop("_actual_edges", None)
        edges = {tuple(map(int, k.split(":"))): v for k, v in case["edges"].items()}
        want = closure(case["n"], edges, flags_of(case["opts"], case["type"]), effective_halted(case), case["root"])
        print("replay C39 iterator %s -> %s, closure %s" % (json.dumps(case), got, sorted(want)))
        return set(got) != want or len(got) != len(set(got))
    bad = run_session_case(case)
    print("replay C39 session %s -> %s" % (json.dumps(case), bad))
    return bad is not None
