"""C26 — the pool recovers from any fault without leaking or reusing dead connections.

Model     lean/SaVerif/Model/PoolFault.lean  (record / fairy fault machine, sequential)
Theorems  lean/SaVerif/Props/C26.lean        (quiescent_no_leak, no_stale_handout, ... by
                                              induction over (op, fault) sequences)
Tie       the same (config, fault plan, op list) is executed on the REAL QueuePool with a
          fake DBAPI (ledger of every connection opened / close() calls), a real
          DefaultDialect subclass (pre-ping goes through DefaultDialect._do_ping_w_event),
          a logical clock that advances by one per time.time() call, and a fault plan
          consumed at every DBAPI call / checkout event in call order; the per-op outcomes,
          idle records, open connections, overflow, checkedout(), pool invalidation time,
          clock and number of unconsumed faults must equal the Lean driver's.
Concurrent lean/SaVerif/Model/RecProto.lean: checkout / checkin / _finalize_fairy as a protocol
          over the shared cells (fairy_ref, queue), one atomic step per write, any number of
          concurrent checkouts; Props/C26.lean proves for ALL interleavings that a holder is
          always designated by its entry's fairy_ref (its release is never skipped), that an
          entry has one responsible checkout, and that at quiescence every entry is idle or
          closed -- and that with the two writes of checkin() in the other order an entry is
          lost.  Tie: two real threads under the deterministic scheduler (harness/lib_sched.py),
          thread B's operations inserted at the decision points of thread A's operation; the
          writes of fairy_ref / queue in execution order must be a run of RecProto.step ending
          in the same idle / owned / closed sets (trace inclusion), and the direct oracle
          below is evaluated after both threads released everything.
Oracle    the property itself, independent of the model: after every holder has been
          released checkedout() == 0 and every connection of the ledger is closed or is
          the connection of an idle record; every handed-out connection is open, was
          never hard- or soft-invalidated, is not older than a pool invalidation and
          (with recycle) not older than the recycle time.
"""
import gc
import itertools
import logging
import random

PID = "C26"
LEVEL = "proof"
LEAN = ["SaVerif.Props.C26"]
META = {
    "text": "Lean theorems over ALL sequences of operations (checkout, close, invalidate, soft invalidate, pool invalidate, GC drop, time passing) and ALL fault plans (connect / close / reset / pre-ping / checkout-event faults at every call) of a sequential transcription of _ConnectionRecord / _ConnectionFairy._checkout / _finalize_fairy over QueuePool: when no record is in use checkedout() = 0 and every open connection belongs to an idle record (quiescent_no_leak); a handed-out connection is open, belongs to its record, and its record is neither older than the pool invalidation time nor soft-invalidated nor past recycle (no_stale_handout). Tied to the code by a differential run (same config, ops, fault plan) comparing outcomes, idle set, open set, counters, clock and fault consumption, and by an independent oracle on the ledger of a fake DBAPI. Concurrent part (Model/RecProto.lean): for ALL interleavings of any number of concurrent checkouts over the shared cells fairy_ref / queue, a holder's release is never skipped (release_never_skipped, skip_never_enabled), an entry has one responsible checkout (handover_exclusive) and at quiescence every entry is idle or closed (proto_quiescent_no_loss); late_clear_loses_entry shows the order of the two writes in checkin() is what this rests on. Tied by trace inclusion of the real writes under a deterministic two-thread scheduler that inserts one thread's operations at every state-changing point of the other's.",
    "note": "Modelled-not-verified: strictly increasing clock (one tick per time.time() call, as get_connection's comment assumes), the fault machine is single-threaded with pool timeout 0 (two-thread interleavings of checkout/close/invalidate/drop are covered by the RecProto part without DBAPI faults other than a failing connect; queue/overflow-counter races are C25), Exception-class faults only (BaseException such as CancelledError is C29), detach()/dispose()/recreate() excluded, reset_on_return commit/rollback both one fault point, event listeners other than `checkout` absent. NullPool gets the direct oracle only.",
    "technique": "Lean 4 inductive invariant over a sequential state machine with fault plans + differential correspondence with a fake DBAPI",
    "design_ref": "DESIGN.md §3 C26",
}


# --------------------------------------------------------------------------- real-code runner
class Ledger:
    def __init__(self, plan):
        self.plan = list(plan)
        self.conns = []  # FakeConn
        self.clock = 1

        self.rollback_guard = None  # oracle hook: called with the connection being rolled back
        self.banned = {}  # conn cid -> why it must never be handed out again
        self.inv_at = 0  # oracle's own copy of "time of the last effective pool invalidation"

    def fault(self, mod):
        f = self.plan.pop(0) if self.plan else 0
        return f % mod

    def pool_invalidation(self, conn):
        """a pool invalidation was requested on behalf of `conn` (pool._invalidate(fairy),
        failed pre-ping, listener raising InvalidatePoolError).  Documented semantics: it
        takes effect unless `conn` belongs to a generation that was already invalidated;
        then every connection open now is stale."""
        if conn is None or conn.created_at > self.inv_at:
            self.inv_at = self.clock
            for c in self.conns:
                if not c.close_called:
                    self.banned.setdefault(c.cid, "older than the pool invalidation at t=%d" % self.clock)


def build(cfg, plan, pool_cls_name="QueuePool"):
    """real pool + fake DBAPI; returns (pool, ledger, restore())"""
    import sqlalchemy.pool.base as pbase
    import sqlalchemy.pool.impl as pimpl
    import sqlalchemy.util.queue as squeue
    from sqlalchemy import event, exc
    from sqlalchemy.engine.default import DefaultDialect

    led = Ledger(plan)
    lg = logging.getLogger("sqlalchemy")
    if not getattr(lg, "_verif_silenced", False):
        lg.addHandler(logging.NullHandler())
        lg.propagate = False
        lg._verif_silenced = True

    class Error(Exception):
        pass

    class Disconnect(Error):
        pass

    class Cursor:
        def __init__(self, conn):
            self.conn = conn

        def execute(self, *a, **k):
            f = led.fault(3)
            if f == 1:
                led.pool_invalidation(self.conn)
                raise Disconnect("ping: server gone")
            if f == 2:
                raise Error("ping: other error")

        def close(self):
            pass

    class Conn:
        def __init__(self, cid):
            self.cid = cid
            self.close_called = False
            self.start = None

        def close(self):
            self.close_called = True
            if led.fault(2):
                raise Error("close failed")

        def rollback(self):
            if led.rollback_guard is not None:
                led.rollback_guard(self)
            if led.fault(2):
                raise Error("rollback failed")

        def commit(self):
            if led.fault(2):
                raise Error("commit failed")

        def cursor(self):
            return Cursor(self)

        def __repr__(self):
            return "<conn %d>" % self.cid

    class FakeDBAPIModule:
        paramstyle = "qmark"
        Error = None

    FakeDBAPIModule.Error = Error

    class Dialect(DefaultDialect):
        def is_disconnect(self, e, connection, cursor):
            return isinstance(e, Disconnect)

    def creator():
        if led.fault(2):
            raise Error("connect failed")
        c = Conn(len(led.conns))
        c.created_at = led.clock  # > the starttime its record took just before
        led.conns.append(c)
        return c

    class TimeShim:
        def __getattr__(s, k):
            import time as _t

            return getattr(_t, k)

        def time(s):
            t = led.clock
            led.clock += 1
            return t

    saved = (pbase.time, squeue._time)
    pbase.time = TimeShim()
    squeue._time = lambda: 0.0

    def restore():
        pbase.time, squeue._time = saved

    dialect = Dialect(dbapi=FakeDBAPIModule)
    reset = {0: "rollback", 1: "commit", 2: None}[cfg["reset"]]
    if pool_cls_name == "QueuePool":
        pool = pimpl.QueuePool(
            creator,
            pool_size=cfg["size"],
            max_overflow=cfg["max_overflow"],
            use_lifo=cfg["lifo"],
            timeout=0,
            recycle=cfg["recycle"],
            pre_ping=cfg["pre_ping"],
            reset_on_return=reset,
            dialect=dialect,
        )
    else:
        pool = getattr(pimpl, pool_cls_name)(creator, recycle=cfg["recycle"], pre_ping=cfg["pre_ping"], reset_on_return=reset, dialect=dialect)
    if cfg["has_event"]:

        @event.listens_for(pool, "checkout")
        def on_checkout(dbapi_conn, rec, fairy):
            f = led.fault(4)
            if f == 1:
                raise exc.DisconnectionError("listener: disconnect")
            if f == 2:
                led.pool_invalidation(dbapi_conn)
                raise exc.InvalidatePoolError("listener: invalidate pool")
            if f == 3:
                raise Error("listener: other error")

    led.Error, led.Disconnect = Error, Disconnect
    return pool, led, restore


def run_real(cfg, plan, ops, pool_cls_name="QueuePool"):
    """execute on the real code; returns (canonical string, oracle failures)"""
    import warnings
    from sqlalchemy import exc

    failures = []
    pool, led, restore = build(cfg, plan, pool_cls_name)
    is_q = pool_cls_name == "QueuePool"
    gc_was = gc.isenabled()
    gc.disable()
    outs = []
    fairies = []  # handle -> fairy or None
    rec_ids = {}
    recs_keep = []
    banned = led.banned  # conn cid -> reason it must never be handed out again
    try:
        with warnings.catch_warnings():
            warnings.simplefilter("ignore")
            # number records in order of creation *attempts* (the model numbers them so)
            attempts = [0]
            orig_create = pool._create_connection

            def counting_create():
                idx = attempts[0]
                attempts[0] += 1
                rec = orig_create()
                rec_ids[id(rec)] = idx
                recs_keep.append(rec)
                return rec

            pool._create_connection = counting_create

            def rid(rec):
                return rec_ids.get(id(rec), 999)

            kept = []  # exceptions of failed checkouts the caller keeps alive (op "cok")
            releasing = [None]

            def guard(conn):
                for g in fairies:
                    if g is not None and g is not releasing[0] and g.dbapi_connection is conn:
                        failures.append(("rollback-on-held-connection", "rollback() called on connection %d while a live checkout holds it" % conn.cid))

            led.rollback_guard = guard

            def drop_exc(j):
                # `del e; gc.collect()` of the caller: the traceback (and through its frames
                # the dead _ConnectionFairy) is freed.  The traceback <-> harness-frame cycle is
                # cut by hand instead of a full gc.collect(), which would dominate the run time
                e, kept[j] = kept[j], None
                e.__traceback__ = None
                e.__context__ = None
                e.__cause__ = None
                del e

            def holders_check(after):
                if not is_q:
                    return
                live = [g for g in fairies if g is not None]
                conns = [id(g.dbapi_connection) for g in live if g.dbapi_connection is not None]
                if len(conns) != len(set(conns)):
                    failures.append(("two-holders", "after %s: one DBAPI connection is held by two live checkouts" % (after,)))
                if pool.checkedout() != len(live):
                    failures.append(("checkedout-mismatch", "after %s: checkedout()=%d but %d live checkouts" % (after, pool.checkedout(), len(live))))
                held_recs = {id(g._connection_record) for g in live if g._connection_record is not None}
                if any(id(r) in held_recs for r in pool._pool.queue):
                    failures.append(("held-and-idle", "after %s: a checked-out record is idle in the pool" % (after,)))

            for op in ops:
                kind = op[0]
                if kind == "gcx":
                    # the caller finally drops the exception of a failed checkout: whatever it
                    # kept alive (the dead _ConnectionFairy) is collected now
                    if op[1] < len(kept) and kept[op[1]] is not None:
                        drop_exc(op[1])
                    outs.append("done")
                    holders_check(op)
                    continue
                if kind in ("co", "cok"):
                    def keep(e):
                        if kind == "cok":
                            kept.append(e)

                    try:
                        f = pool.connect()
                    except exc.TimeoutError as e:
                        outs.append("timeout")
                        keep(e)
                    except exc.InvalidRequestError as e:
                        outs.append("exhausted")
                        keep(e)
                    except led.Error as e:
                        outs.append("connect-error" if "connect failed" in str(e) else "checkout-error")
                        keep(e)
                    except Exception as e:  # noqa
                        outs.append("unexpected:" + type(e).__name__)
                        failures.append(("unexpected-exception", "connect() raised %s: %s" % (type(e).__name__, e)))
                    else:
                        h = len(fairies)
                        fairies.append(f)
                        conn = f.dbapi_connection
                        rec = f._connection_record
                        outs.append("ok:%d:%d:%d" % (h, rid(rec), conn.cid))
                        # ---- direct oracle: no stale / dead handout
                        if conn.close_called:
                            failures.append(("dead-handout", "checkout %d returned connection %d on which close() was already called" % (h, conn.cid)))
                        if conn.cid in banned:
                            failures.append(("stale-handout", "checkout %d returned connection %d which was %s" % (h, conn.cid, banned[conn.cid])))
                        if rec.dbapi_connection is not conn:
                            failures.append(("fairy-record-mismatch", "checkout %d: fairy connection is not its record's connection" % h))
                        if any(g is not None and g is not f and g.dbapi_connection is conn for g in fairies):
                            failures.append(("two-holders", "checkout %d returned a connection another live checkout holds" % h))
                        if cfg["recycle"] > -1 and (led.clock - 1) - rec.starttime > cfg["recycle"] + 8:
                            # (+8: ticks consumed inside the checkout itself after the age test)
                            failures.append(("recycle-ignored", "checkout %d: connection age %d > recycle %d" % (h, led.clock - 1 - rec.starttime, cfg["recycle"])))
                elif kind == "wait":
                    led.clock += op[1]
                    outs.append("done")
                else:
                    h = op[1]
                    f = fairies[h] if h < len(fairies) else None
                    if f is None:
                        outs.append("skip")
                        continue
                    conn = f.dbapi_connection
                    releasing[0] = f
                    if kind == "ci":
                        f.close()
                    elif kind == "drop":
                        pass
                    elif kind == "inv":
                        if conn is not None:
                            banned.setdefault(conn.cid, "hard-invalidated")
                        f.invalidate()
                    elif kind == "soft":
                        if conn is not None:
                            banned.setdefault(conn.cid, "soft-invalidated")
                        f.invalidate(soft=True)
                    elif kind == "pinv":
                        if conn is not None:
                            banned.setdefault(conn.cid, "hard-invalidated")
                        led.pool_invalidation(conn)
                        pool._invalidate(f)
                    if kind != "soft":
                        fairies[h] = None
                    del f
                    releasing[0] = None
                    outs.append("done")
                holders_check(op)
            # ---------------- final observation (before releasing the remaining holders)
            if is_q:
                q = list(pool._pool.queue)
                idle = ",".join("%d:%s" % (rid(r), r.dbapi_connection.cid if r.dbapi_connection is not None else "-") for r in q) or "-"
                opn = ",".join(str(c.cid) for c in led.conns if not c.close_called) or "-"
                canon = "%s ov=%d co=%d idle=%s open=%s inv=%d clock=%d left=%d" % (
                    ";".join(outs), pool._overflow, pool.checkedout(), idle, opn, pool._invalidate_time, led.clock, len(led.plan))
            else:
                canon = None
            # ---------------- direct oracle: release everything, then nothing may leak
            led.plan = []  # no more faults while releasing
            led.rollback_guard = None
            for j in range(len(kept)):
                if kept[j] is not None:
                    drop_exc(j)
            for h in range(len(fairies)):
                if fairies[h] is not None:
                    fairies[h].close()
                    fairies[h] = None
            if is_q:
                if pool.checkedout() != 0:
                    failures.append(("checkedout-nonzero", "all holders released but checkedout()=%d" % pool.checkedout()))
                idle_conns = {id(r.dbapi_connection) for r in pool._pool.queue if r.dbapi_connection is not None}
                for c in led.conns:
                    if not c.close_called and id(c) not in idle_conns:
                        failures.append(("leaked-connection", "connection %d is neither closed nor idle in the pool after all holders released" % c.cid))
                        break
                if len(pool._pool.queue) != len({id(r) for r in pool._pool.queue}):
                    failures.append(("queue-duplicate", "a record is idle twice"))
            else:
                if any(not c.close_called for c in led.conns):
                    failures.append(("leaked-connection", "NullPool: a connection stays open after all holders released"))
    finally:
        restore()
        if gc_was:
            gc.enable()
    return canon, failures


# --------------------------------------------------------------------------- generation
OPK = ("ci", "ci", "ci", "inv", "soft", "pinv", "drop")


def gen_case(rng, small=False):
    size = rng.choice([0, 1, 1, 2, 2, 3])
    cfg = {
        "size": size,
        "max_overflow": rng.choice([-1, 0, 1, 1, 2]),
        "lifo": rng.random() < 0.35,
        "recycle": rng.choice([-1, -1, -1, 0, 3, 10]),
        "pre_ping": rng.random() < 0.45,
        "reset": rng.choice([0, 0, 0, 1, 2]),
        "has_event": rng.random() < 0.45,
    }
    n = rng.randint(2, 6) if small else rng.randint(3, 12)
    ops, nco, nkept = [], 0, 0
    for _ in range(n):
        x = rng.random()
        if nco == 0 or x < 0.45:
            if rng.random() < 0.3:
                ops.append(["cok"])
                nkept += 1
            else:
                ops.append(["co"])
            nco += 1
        elif x < 0.475 and nkept:
            ops.append(["gcx", rng.randrange(nkept)])
        elif x < 0.5:
            ops.append(["wait", rng.choice([1, 2, 5, 20])])
        else:
            ops.append([rng.choice(OPK), rng.randrange(nco)])
    # fault plan: mostly 0, length ~ number of fault points
    dens = rng.choice([0.0, 0.1, 0.25, 0.5])
    plan = [(rng.randrange(1, 12) if rng.random() < dens else 0) for _ in range(rng.randint(0, 4 * n))]
    return cfg, plan, ops


def fmt_ops(ops):
    return ",".join(":".join(str(x) for x in op) for op in ops) or "-"


def fmt_model_ops(ops):
    """`cok` is `co` whose exception the caller keeps; `gcx` (dropping that exception) is a
    no-op for the pool: the dead fairy's weakref callback finds `fairy_ref is not ref`"""
    out = []
    for op in ops:
        if op[0] == "cok":
            out.append("co")
        elif op[0] == "gcx":
            out.append("wait:0")
        else:
            out.append(":".join(str(x) for x in op))
    return ",".join(out) or "-"


def model_line(cfg, plan, ops):
    return "poolfault run %d %d %d %d %d %d %d %s %s" % (
        cfg["size"], cfg["max_overflow"], int(cfg["lifo"]), cfg["recycle"], int(cfg["pre_ping"]), cfg["reset"],
        int(cfg["has_event"]), ",".join(map(str, plan)) or "-", fmt_model_ops(ops))


def classify(key, cfg, plan, ops):
    return key


def one(ctx, cfg, plan, ops, cases, impl_out, reqs, kind="QueuePool"):
    canon, failures = run_real(cfg, plan, ops, kind)
    case = {"kind": kind, "cfg": cfg, "plan": plan, "ops": ops}
    ctx.case((kind, cfg, plan, ops), nontrivial=len(ops) >= 3)
    ctx.count("kind=" + kind)
    ctx.count("nops=%d" % min(len(ops), 12))
    ctx.count("faults-in-plan=%d" % min(sum(1 for f in plan if f), 6))
    if canon is not None:
        for o in canon.split(" ")[0].split(";"):
            ctx.count("outcome=" + o.split(":")[0])
        cases.append(case)
        impl_out.append(canon)
        reqs.append(model_line(cfg, plan, ops))
    for key, detail in failures[:3]:
        ctx.violation(classify(key, cfg, plan, ops), case, detail)
    return canon


def exhaustive_cases(max_ops, plan_len):
    """all op sequences of length <= max_ops over {co, ci, inv, soft, pinv, drop} on a
    tight pool x every position of a single fault x pre_ping/event settings"""
    base = {"size": 1, "max_overflow": 1, "lifo": False, "recycle": -1, "reset": 0}
    alphabet = [["co"], ["cok"], ["gcx", 0], ["ci", 0], ["ci", 1], ["inv", 0], ["soft", 0], ["pinv", 0], ["drop", 0], ["drop", 1]]
    for n in range(1, max_ops + 1):
        for seq in itertools.product(alphabet, repeat=n):
            if seq[0] not in (["co"], ["cok"]):
                continue
            for pp, ev in ((False, False), (True, False), (False, True), (True, True)):
                cfg = dict(base, pre_ping=pp, has_event=ev)
                yield cfg, [], [list(o) for o in seq]
                for pos in range(plan_len):
                    for val in (1, 2, 3):
                        plan = [0] * pos + [val]
                        yield cfg, plan, [list(o) for o in seq]


def run(ctx, deep=False):
    ctx.rule = (
        "cases = (pool_size 0..3, max_overflow -1..2, FIFO/LIFO, recycle off/0/3/10, pre_ping, reset rollback/commit/none, "
        "checkout listener) x 3..12 ops from {checkout, close, invalidate, soft, pool-invalidate, GC drop, wait} x random fault plan "
        "(density 0..50%); plus exhaustive op sequences (quick <= 3, thorough <= 5 ops) x every single-fault position on a "
        "size-1/overflow-1 pool; two-thread schedules = (pool 1/0, 1/1, 2/0, 1/unbounded) x A's op {checkout, close, invalidate, soft, GC drop, "
        "failing checkout} x B's ops {checkout, close, invalidate, drop and sequences of them}, B's ops run to completion (or until "
        "blocked) at a decision point of A's op (every line of pool/base.py, pool/impl.py, util/queue.py and every lock operation): "
        "quick = the points around every change of shared state, thorough = additionally every point of the hand-over scenarios and "
        "B pre-started; non-trivial = >= 3 ops / any two-thread schedule; distinct = distinct (config, plan, ops) / (scenario, points)"
    )
    ctx.trusted.append("fake DBAPI / DefaultDialect subclass / logical clock of harness/props/c26.py")
    ctx.assumptions.append("time.time() strictly increases between calls (logical clock), as assumed by the comment in _ConnectionRecord.get_connection")
    thorough = ctx.tier == "thorough" or deep
    cases, impl_out, reqs = [], [], []
    n = 40000 if thorough else 5000
    for i in range(n):
        rng = random.Random("%s:%d:%d" % (PID, ctx.seed, i))
        cfg, plan, ops = gen_case(rng, small=(i % 3 == 0))
        canon = one(ctx, cfg, plan, ops, cases, impl_out, reqs)
        if canon and len(ops) >= 8 and sum(1 for f in plan if f) >= 2:
            ctx.sample({"cfg": cfg, "plan": plan, "ops": fmt_ops(ops), "real": canon})
    k = 0
    for cfg, plan, ops in exhaustive_cases(5 if thorough else 3, 10 if thorough else 8):
        if thorough and len(ops) == 5 and (k % 7):
            k += 1
            continue  # 5-op layer: every 7th (the 4-op layer is complete)
        k += 1
        one(ctx, cfg, plan, ops, cases, impl_out, reqs)
        ctx.count("exhaustive-layer")
    for i in range(n // 20):
        rng = random.Random("%s:null:%d:%d" % (PID, ctx.seed, i))
        cfg, plan, ops = gen_case(rng, small=True)
        ops = [o for o in ops if o[0] != "pinv"]
        one(ctx, cfg, plan, ops, cases, impl_out, reqs, kind="NullPool")
    if ctx.driver_ok():
        ctx.correspond("corr/c26:QueuePool-fault-machine-vs-Model.PoolFault", cases, impl_out, ctx.driver(reqs))
    # two threads: every operation inserted into every other one
    conc_check(ctx, thorough)
    ctx.exhaustive = thorough


# --------------------------------------------------------------------------- two actors: one operation inserted into another
class InsertChooser:
    """schedule for two threads A (t0) and B (t1): both run their set-up ops one after the other;
    then A runs its main op and, at A's decision points number k1 and k2 (a decision point =
    every line of pool/base.py, pool/impl.py, util/queue.py and every lock operation executed
    by A in that op), B runs its main ops until they are finished or B blocks; A resumes when B
    cannot run; afterwards B finishes, then both release what they hold (non-preemptive)."""

    def __init__(self, run, mains, points):
        self.run, self.mains = run, mains
        self.pending = set(p for p in points if p is not None)
        self.acount = 0
        self.bturn = False
        self.choices = []
        self.fps = []  # shared-state fingerprint at each of A's decision points

    def pick(self, options, current):
        plain = [o for o in options if not o.startswith("to:")]
        c = self._want(plain, current) if plain else options[0]
        self.choices.append(c)
        return c

    def _want(self, plain, current):
        r = self.run
        a_main, b_main, b_n = self.mains
        A, B = "t0", "t1"
        if r.opidx[0] < a_main and A in plain:
            return A
        if r.opidx[1] < b_main and B in plain:
            return B
        b_done = r.opidx[1] >= b_main + b_n
        if r.opidx[0] == a_main:
            if self.bturn:
                if B in plain and not b_done:
                    return B
                self.bturn = False
            if A in plain:
                if self.acount in self.pending and not b_done and B in plain:
                    self.pending.discard(self.acount)
                    self.bturn = True
                    return B
                self.pending.discard(self.acount)
                self.acount += 1
                self.fps.append(_fingerprint(r))
                return A
            return B if B in plain else plain[0]
        if not b_done and B in plain:
            return B
        return current if current in plain else plain[0]


def _fingerprint(r):
    """what another thread can observe: queue, overflow counter, lock owners, every record's
    fairy_ref / connection"""
    pool = r.pool
    q = pool._pool
    own = lambda lk: getattr(getattr(lk, "owner", None), "idx", None)
    return (
        tuple(id(x) for x in r.queue_list()),
        r.raw_overflow(),
        own(getattr(q, "mutex", None)),
        own(pool._overflow_lock),
        tuple((rec.fairy_ref is None, id(rec.dbapi_connection), rec.fresh) for rec in r.recs),
        tuple(c.closed for c in r.dbapi.conns),
    )


def _change_points(fps):
    """A's decision points right after (and right before) a step that changed the shared state"""
    pts = {0}
    for k in range(1, len(fps)):
        if fps[k] != fps[k - 1]:
            pts.update((k - 1, k))
    return sorted(pts)


CONC_CFGS = ({"size": 1, "max_overflow": 0}, {"size": 1, "max_overflow": 1}, {"size": 2, "max_overflow": 0}, {"size": 1, "max_overflow": -1})
# main op of A (with the number of connections A must hold before) / main ops of B
CONC_X = (
    (0, [("co",)]),
    (1, [("ci", 0)]),
    (1, [("inv", 0)]),
    (1, [("soft", 0)]),
    (1, [("drop", 0)]),
    (0, [("failnext", 1), ("co",)]),
    (1, [("co",)]),
)
CONC_Y = (
    (0, [("co",)]),
    (0, [("co",), ("ci", 0)]),
    (1, [("ci", 0)]),
    (1, [("ci", 0), ("co",)]),
    (1, [("inv", 0)]),
    (0, [("co",), ("inv", 0)]),
    (1, [("drop", 0)]),
    (0, [("co",), ("ci", 0), ("co",)]),
)


def conc_scenarios():
    out = []
    for cfg in CONC_CFGS:
        for hx, xs in CONC_X:
            for hy, ys in CONC_Y:
                cap = cfg["size"] + (cfg["max_overflow"] if cfg["max_overflow"] >= 0 else 9)
                if hx + hy > cap:
                    continue
                pa = [("co",)] * hx + xs[:-1]
                pb = [("co",)] * hy
                sc = {
                    "cfg": dict(cfg, lifo=False, timeout=5.0),
                    "programs": [pa + xs[-1:] + [("ci", 0)] * 3, pb + ys + [("ci", 0)] * 3],
                    "mains": [len(pa), len(pb), len(ys)],
                }
                out.append(sc)
    return out


def run_conc(sc, points):
    """returns (failures, number of decision points of A's main op, PoolRun)"""
    from harness import lib_pool

    run = lib_pool.PoolRun(sc["cfg"], [[tuple(o) for o in p] for p in sc["programs"]], None, max_steps=8000, early=False, trace_base=True, trace_records=True)
    ch = run.chooser = InsertChooser(run, sc["mains"], points)
    run.run()
    failures = list(run.oracle_failures)
    if run.status == "done":
        # the property: every holder has released -> nothing counted as checked out, every
        # connection the driver opened is closed or is the connection of an idle record
        q = run.queue_list()
        co = run.pool._pool.maxsize - len(q) + run.raw_overflow()
        idle = {id(r.dbapi_connection) for r in q if r.dbapi_connection is not None}
        lost = [c for c in run.dbapi.conns if not c.closed and id(c) not in idle]
        if co != 0:
            failures.append(("slot-lost", "every holder released its connection but checkedout()=%d (idle records %d, overflow %d)" % (co, len(q), run.raw_overflow())))
        if lost:
            failures.append(("connection-neither-idle-nor-closed", "%s open but not idle in the pool after every holder released" % lost))
    run.fps = ch.fps
    return failures, ch.acount, run


PROTO_KINDS = ("cr", "pop", "fs", "fc", "cp", "put", "cl", "qset")


def proto_line(run):
    """the writes of shared cells (queue, fairy_ref) in the order the run performed them"""
    toks = [l for l in run.labels if l.split(":")[1] in PROTO_KINDS]
    return "poolfault proto " + (",".join(toks) or "-")


def proto_impl(run):
    fmt = lambda l: ",".join(map(str, sorted(l))) if l else "-"
    idle, owned = set(run.final["queue"]), set(run.final["live"])
    known = set(v for v in run.rec_ids.values())
    return "ok idle=%s owned=%s dead=%s" % (fmt(idle), fmt(owned), fmt(known - idle - owned))


def conc_check(ctx, thorough):
    """quick: B inserted at every point of A's op around which the shared state changes (every
    scenario of the hand-over core, the rest while the budget lasts, in seeded random order);
    thorough: additionally every single decision point of the core scenarios and the
    variants where B has already started (and is possibly blocked) before A's op begins"""
    scs = conc_scenarios()
    rng = random.Random("%s:conc:%d" % (PID, ctx.seed))
    budget = 9000 if thorough else 650
    order = list(range(len(scs)))
    rng.shuffle(order)
    core = [i for i in order if scs[i]["programs"][0][scs[i]["mains"][0]][0] in ("co", "ci") and scs[i]["cfg"]["size"] == 1 and scs[i]["cfg"]["max_overflow"] in (0, 1)]
    order = core + [i for i in order if i not in core]
    runs = 0
    cases, impl_out, reqs = [], [], []

    def tie(case, run):
        if run.status == "done":
            cases.append(case)
            impl_out.append(proto_impl(run))
            reqs.append(proto_line(run))

    for i in order:
        sc = scs[i]
        if runs >= budget:
            break
        _, K, run = run_conc(sc, ())
        tie({"conc": sc, "points": [None, None]}, run)
        runs += 1
        ctx.count("conc-scenarios")
        cps = _change_points(run.fps)
        plans = [(k, None) for k in cps]
        if thorough:
            plans += [(0, k) for k in cps if k]
            if i in core:
                plans += [(k, None) for k in range(K) if k not in cps]
        else:
            plans += [(0, k) for k in rng.sample(cps[1:], min(len(cps) - 1, 3 if i in core else 1))]
        for k1, k2 in plans:
            if runs >= budget:
                break
            failures, _, run = run_conc(sc, (k1, k2))
            tie({"conc": sc, "points": [k1, k2]}, run)
            runs += 1
            ctx.case(("conc", i, k1, k2), nontrivial=True)
            ctx.count("conc-runs")
            for key, detail in failures[:2]:
                ctx.violation("c26-conc-" + key, {"conc": sc, "points": [k1, k2]}, "%s; thread programs %s, B's main ops inserted at A's decision point(s) %s" % (detail, sc["programs"], [k1, k2]))
    if ctx.driver_ok():
        ctx.correspond("corr/c26:concurrent-checkin-checkout-vs-Model.RecProto", cases, impl_out, ctx.driver(reqs))
    return runs


def search(ctx, broken):
    sub = type(ctx)(ctx.pid, "thorough", ctx.seed + 1, ctx.level)
    run(sub, deep=True)
    ctx.violations.extend(sub.violations)


def replay(ctx, obj):
    c = obj["case"]
    if "conc" in c:
        failures, K, run = run_conc(c["conc"], tuple(c["points"]))
        print("replay C26 two-thread schedule %s points=%s" % (c["conc"]["programs"], c["points"]))
        print("  labels:", ",".join(run.labels))
        print("  oracle:", failures or "no violation")
        return bool(failures)
    canon, failures = run_real(c["cfg"], c["plan"], c["ops"], c.get("kind", "QueuePool"))
    print("replay C26 cfg=%s plan=%s ops=%s" % (c["cfg"], c["plan"], fmt_ops(c["ops"])))
    print("  real :", canon)
    if ctx.driver_ok() and canon is not None:
        print("  model:", ctx.driver([model_line(c["cfg"], c["plan"], c["ops"])])[0])
    print("  oracle:", failures or "no violation")
    return bool(failures)
