"""C20 — database URLs round-trip through their string form.

Model: lean/SaVerif/Model/Url.lean (transcription of engine/url.py render_as_string /
_parse_url and of urllib.parse quote / quote_plus / unquote / parse_qsl; the URL regex is
hand-compiled into a scanner).  Theorems: lean/SaVerif/Props/C20.lean.
Translator: the regex source, the `safe=` arguments of the quote calls and the
`keep_blank_values=` argument are read from the working tree (ast): the regex must equal
the pinned text the scanner was compiled from (obligation), the others are written to
Gen/UrlCfg.lean and the theorems are re-proved against them.
Check: correspondence of quote/quote_plus/unquote/parse_qsl (CPython vs model), of the
regex groupdict vs the scanner, of make_url and render_as_string vs the model, on
components over URL-special characters and sampled Unicode planes in every position and a
malformed stream; direct oracle make_url(u.render_as_string(hide_password=False)) == u
for every URL satisfying the theorem's WF predicate.
"""
import itertools
import os
import re

PID = "C20"
LEVEL = "proof"
LEAN = ["SaVerif.Props.C20"]
META = {
    "text": "Lean theorems for all strings (every Unicode scalar value in every position): unquote(quote(s, safe)) = s for every safe set without '%', the same through quote_plus/'+'-decoding, parse_qsl recovers every rendered key/value list, and parse(render(u)) = u (query as a dict) for every URL u with a drivername of [A-Za-z0-9_+], a host without '/', '?', '@' (not starting with '[' unless it contains ':'), any username/password/database/port, any query keys/values including empty ones, multi-values of length >= 2 and no password without a username. The regex of _parse_url is hand-compiled to a scanner whose source text is pinned by the translator; quote safe sets and keep_blank_values are regenerated from the source and the proofs re-run against them. The model is tied to the code by differential runs of urllib.parse functions, of the regex groupdict, of make_url and of render_as_string against the model, and the property itself is re-checked on the implementation.",
    "note": "Partial: parse_render needs (a) multi-valued query entries of length >= 2 (parse_render_counterexample_singleton_tuple: {'a': ('x',)} comes back as {'a': 'x'}; known finding url-singleton-tuple-query-value) and (b) no password without a username (parse_render_counterexample_password_without_username: the password is silently dropped by render; known finding url-password-without-username). Blank query values: fixed in /repo (keep_blank_values=True), the theorem covers them. Modelled-not-verified: CPython's UTF-8 codec (Lean core's utf8EncodeChar/utf8DecodeChar? with its own round-trip theorem stand in; differential-tested), `re` (scanner hand-compiled; differential-tested on adversarial strings), \\w restricted to ASCII, int() restricted to [+-]?digits, str with lone surrogates excluded.",
    "technique": "Lean 4 proof (character-class invariants of quote, scanner lemmas over appended segments, induction over query entries) + regenerated constants + differential correspondence with urllib/re/make_url",
    "design_ref": "DESIGN.md §3 C20",
}

PINNED_REGEX = r"""
            (?P<name>[\w\+]+)://
            (?:
                (?P<username>[^:/]*)
                (?::(?P<password>[^@]*))?
            @)?
            (?:
                (?:
                    \[(?P<ipv6host>[^/\?]+)\] |
                    (?P<ipv4host>[^/:\?]+)
                )?
                (?::(?P<port>[^/\?]*))?
            )?
            (?:/(?P<database>[^\?]*))?
            (?:\?(?P<query>.*))?
            """

_cfg = {}


def _read_cfg():
    """ast facts from engine/url.py of the working tree"""
    import ast

    from harness import vlib

    src = open(os.path.join(vlib.REPO, "lib", "sqlalchemy", "engine", "url.py")).read()
    tree = ast.parse(src)
    out = {"regex": None, "flags_x": False, "safes": [], "quote_plus_safe": [], "keep_blank": None, "unquoted": None}
    for fn in ast.walk(tree):
        if isinstance(fn, ast.FunctionDef) and fn.name == "_parse_url":
            for call in [n for n in ast.walk(fn) if isinstance(n, ast.Call)]:
                f = call.func
                if isinstance(f, ast.Attribute) and f.attr == "compile" and call.args and isinstance(call.args[0], ast.Constant):
                    out["regex"] = call.args[0].value
                    out["flags_x"] = any(isinstance(a, ast.Attribute) and a.attr in ("X", "VERBOSE") for a in call.args[1:])
                if isinstance(f, ast.Name) and f.id == "parse_qsl":
                    out["keep_blank"] = False
                    for kw in call.keywords:
                        if kw.arg == "keep_blank_values" and isinstance(kw.value, ast.Constant):
                            out["keep_blank"] = bool(kw.value.value)
            for loop in [n for n in ast.walk(fn) if isinstance(n, ast.For)]:
                if isinstance(loop.iter, ast.Tuple) and all(isinstance(e, ast.Constant) for e in loop.iter.elts):
                    body_calls = [c for c in ast.walk(loop) if isinstance(c, ast.Call) and isinstance(c.func, ast.Name)]
                    if any(c.func.id == "unquote" for c in body_calls):
                        out["unquoted"] = [e.value for e in loop.iter.elts]
        if isinstance(fn, ast.FunctionDef) and fn.name == "render_as_string":
            calls = [n for n in ast.walk(fn) if isinstance(n, ast.Call) and isinstance(n.func, ast.Name)]
            calls.sort(key=lambda c: (c.lineno, c.col_offset))
            for call in calls:
                if call.func.id == "quote":
                    safe = "/"
                    for kw in call.keywords:
                        if kw.arg == "safe" and isinstance(kw.value, ast.Constant):
                            safe = kw.value.value
                    out["safes"].append(safe)
                if call.func.id == "quote_plus":
                    out["quote_plus_safe"].append([kw.arg for kw in call.keywords] + [len(call.args)])
    return out


def lean_chars(s):
    return "[" + ", ".join("Char.ofNat %d" % ord(c) for c in s) + "]"


def gen(ctx):
    cfg = _read_cfg()
    _cfg.update(cfg)
    def norm(rx):  # re.X: whitespace outside character classes is insignificant (no class here contains any)
        return "".join((rx or "").split())

    ok_regex = cfg["regex"] is not None and norm(cfg["regex"]) == norm(PINNED_REGEX) and cfg["flags_x"]
    cfg["regex_changed"] = not ok_regex
    _cfg.update(cfg)
    if cfg["regex"] is None:
        ctx.obligation("translator:engine/url.py _parse_url regex found", False, "no re.compile(<literal>) in _parse_url")
    else:
        # a changed regex is not by itself a broken obligation: the scanner is tied to the regex by the
        # differential run below (which always uses the regex of the working tree); it is run with the
        # thorough budget when the text differs from the one the scanner was compiled from
        ctx.obligation(
            "translator:engine/url.py _parse_url regex read from the working tree (pinned text %s)" % ("identical" if ok_regex else "CHANGED - deep differential run"),
            True,
            "re.X=%s" % cfg["flags_x"],
        )
    ok_parse_shape = cfg["keep_blank"] is not None and cfg["unquoted"] == ["username", "password", "database"]
    ok_render_shape = (
        len(cfg["safes"]) == 3
        and cfg["quote_plus_safe"] == [[1], [1]]
        and all(all(ord(c) < 128 for c in s) for s in cfg["safes"])
    )
    ok_shape = ok_parse_shape and ok_render_shape
    cfg["render_shape_changed"] = ok_parse_shape and not ok_render_shape
    _cfg.update(cfg)
    ctx.obligation(
        "translator:engine/url.py _parse_url parse_qsl()/unquote() calls have the modelled shape",
        ok_parse_shape,
        "keep_blank=%r unquoted=%r" % (cfg["keep_blank"], cfg["unquoted"]),
    )
    # a different choice of quoting functions in render_as_string is not by itself a violation of the
    # round trip: the render model is then not compared, the round trip is checked on the implementation
    # with the thorough budget and the parser model is still compared on the implementation's strings
    ctx.obligation(
        "translator:engine/url.py render_as_string quote()/quote_plus() calls (%s)" % ("modelled shape" if ok_render_shape else "CHANGED - render model not compared, deep round-trip run"),
        True,
        "safes=%r quote_plus=%r" % (cfg["safes"], cfg["quote_plus_safe"]),
    )
    if ok_shape:
        su, sp, sd = cfg["safes"]
        ctx.write_gen(
            "UrlCfg",
            "namespace SaVerif.Gen.UrlCfg\n"
            "/-- `safe=` arguments of the quote() calls in URL.render_as_string -/\n"
            "def safeUser : List Char := %s\n"
            "def safePassword : List Char := %s\n"
            "def safeDatabase : List Char := %s\n"
            "/-- `keep_blank_values=` of the parse_qsl call in _parse_url -/\n"
            "def keepBlank : Bool := %s\n"
            "end SaVerif.Gen.UrlCfg\n" % (lean_chars(su), lean_chars(sp), lean_chars(sd), "true" if cfg["keep_blank"] else "false"),
        )


# ------------------------------------------------------------------ encoding for the driver
def enc(s):
    return "s:" + ".".join(str(ord(c)) for c in s)


def dec(tok):
    body = tok[2:]
    return "" if not body else "".join(chr(int(x)) for x in body.split("."))


def enc_opt(s):
    return "N" if s is None else enc(s)


def enc_qval(v):
    if isinstance(v, str):
        return enc(v)
    return "[" + "|".join(enc(x) for x in v) + "]"


def enc_query(q):
    if not q:
        return "-"
    return ",".join("%s=%s" % (enc(k), enc_qval(q[k])) for k in sorted(q))


def enc_url_fields(c):
    return " ".join(
        [enc(c["drivername"]), enc_opt(c["username"]), enc_opt(c["password"]), enc_opt(c["host"]),
         "N" if c["port"] is None else str(c["port"]), enc_opt(c["database"]), enc_query(c["query"])]
    )


def canon_url(u):
    q = {k: (v if isinstance(v, str) else list(v)) for k, v in u.query.items()}
    return "ok " + " ".join(
        [enc(u.drivername), enc_opt(u.username), enc_opt(None if u.password is None else str(u.password)), enc_opt(u.host),
         "N" if u.port is None else str(u.port), enc_opt(u.database), enc_query(q)]
    )


def canon_rendered(s):
    """the order in which query keys are rendered is not part of the property: sort the k=v pairs
    (values of one key keep their relative order because the sort is stable on the key part)"""
    if "?" not in s:
        return s
    head, q = s.split("?", 1)
    pairs = q.split("&")
    return head + "?" + "&".join(sorted(pairs, key=lambda p: p.split("=", 1)[0]))


def has_surrogate(s):
    return any(0xD800 <= ord(c) <= 0xDFFF for c in s)


# ------------------------------------------------------------------ WF (mirror of SaVerif.Props.C20.WF)
def wf_host(h):
    if h is None:
        return True
    if not h or any(c in h for c in "/?@"):
        return False
    if ":" not in h and h.startswith("["):
        return False
    return True


def wf_problem(c):
    """None if the component dict satisfies the theorem's WF, else the name of the failed clause"""
    d = c["drivername"]
    if not d or not all((ch.isascii() and ch.isalnum()) or ch in "_+" for ch in d):
        return "drivername"
    if not wf_host(c["host"]):
        return "host"
    if c["password"] is not None and c["username"] is None:
        return "password-without-username"
    for k, v in c["query"].items():
        if not isinstance(v, str) and len(v) < 2:
            return "singleton-tuple" if len(v) == 1 else "empty-tuple"
    return None


def make(c):
    from sqlalchemy.engine import URL

    return URL.create(c["drivername"], c["username"], c["password"], c["host"], c["port"], c["database"], c["query"])


def classify(c, u, v):
    why = wf_problem(c)
    if why == "singleton-tuple":
        return "url-singleton-tuple-query-value"
    if why == "password-without-username":
        return "url-password-without-username"
    if why is not None:
        return None  # outside the property's precondition
    if any(isinstance(x, str) and x == "" for x in c["query"].values()) or any("" in x for x in c["query"].values() if not isinstance(x, str)):
        if v is not None and all(getattr(u, f) == getattr(v, f) for f in ("drivername", "username", "password", "host", "port", "database")):
            return "url-blank-query-value"
    if v is None:
        return "url-roundtrip-parse-error"
    for f in ("drivername", "username", "password", "host", "port", "database", "query"):
        if getattr(u, f) != getattr(v, f):
            return "url-roundtrip-" + f
    return "url-roundtrip-eq"


def oracle(c):
    """the property itself on the real code.  returns (key, detail) or None"""
    from sqlalchemy.engine import make_url

    u = make(c)
    s = u.render_as_string(hide_password=False)
    try:
        v = make_url(s)
    except Exception as e:  # noqa
        key = classify(c, u, None)
        return (key, "render %r; make_url raised %s: %s" % (s, type(e).__name__, e)) if key else None
    same = all(getattr(u, f) == getattr(v, f) for f in ("drivername", "username", "password", "host", "port", "database")) and dict(u.query) == dict(v.query)
    if same and v == u and not (v != u):
        return None
    if same:
        return ("url-eq-false-on-identical-components", "URL.__eq__/__ne__ disagree with componentwise equality for %r" % (tuple(u),))
    key = classify(c, u, v)
    if key is None:
        return None
    return (key, "url %r rendered %r parsed back as %r" % (tuple(u), s, tuple(v)))


# ------------------------------------------------------------------ generators
SPECIAL = "@:/?%+&=#[] ;,'\"\\~_.-!$*()"
ALNUM = "abzAZ019"
UNI = [0xE9, 0xDF, 0x3A9, 0x5D0, 0x627, 0x4E2D, 0x1F600, 0x10FFFF, 0xFFFD, 0x7F, 0x80, 0xFF, 0x301, 0x200B, 0x2028, 0xD7FF, 0xE000, 0x1, 0x9, 0xA, 0x0]


def rstr(rng, maxlen=6, alphabet=None):
    n = rng.choice([0, 1, 1, 2, 3, maxlen])
    out = []
    for _ in range(n):
        r = rng.random()
        if alphabet is not None:
            out.append(rng.choice(alphabet))
        elif r < 0.45:
            out.append(rng.choice(SPECIAL))
        elif r < 0.75:
            out.append(rng.choice(ALNUM))
        elif r < 0.9:
            out.append(chr(rng.choice(UNI)))
        else:
            out.append(rng.choice(["%41", "%zz", "%", "%2", "%c3%a9", "%2F", "%40", "+", "%2B", "%25"]))
    return "".join(out)


def rhost(rng):
    r = rng.random()
    if r < 0.15:
        return None
    if r < 0.45:
        return rng.choice(["localhost", "h", "db.example.com", "10.0.0.1", "a-b_c", "xn--bcher-kva", "h\u00e9\u4e2d", "h#x", "a b", "h%41", "h+1", "a&b=c", "]x", "x[y]"])
    if r < 0.7:
        return rng.choice(["::1", "fe80::1%eth0", "2001:db8::ff00:42:8329", "a:b", ":", "[::1]", "a]:b", "h:80", "x:]"])
    # random valid host
    while True:
        h = rstr(rng, 5)
        if wf_host(h):
            return h


def rquery(rng):
    q = {}
    for _ in range(rng.choice([0, 0, 1, 1, 2, 3])):
        k = rstr(rng, 4)
        r = rng.random()
        if r < 0.6:
            q[k] = rstr(rng, 5)
        elif r < 0.9:
            q[k] = tuple(rstr(rng, 3) for _ in range(rng.randint(2, 3)))
        else:
            q[k] = (rstr(rng, 3),)  # singleton tuple (known finding)
    return q


def rurl(rng):
    user = None if rng.random() < 0.3 else rstr(rng)
    if user is None:
        pw = "pw" if rng.random() < 0.04 else None  # password without username (known finding)
    else:
        pw = None if rng.random() < 0.35 else rstr(rng)
    return {
        "drivername": rng.choice(["postgresql", "postgresql+psycopg2", "sqlite", "my_sql+py", "d", "X9+_", "+", "_"]),
        "username": user,
        "password": pw,
        "host": rhost(rng),
        "port": rng.choice([None, None, 0, 1, 80, 5432, 65535, 123456789012, -5]),
        "database": None if rng.random() < 0.25 else rstr(rng, 8),
        "query": rquery(rng),
    }


def small_scope(full):
    vals = [None, "", "@", ":", "/", "a b", "%41", "+", "a@b:c/d?e", "\u00e9"]
    hosts = [None, "h", "::1", "h.x"]
    ports = [None, 0, 5432]
    queries = [{}, {"": ""}, {"k": ""}, {"a": "1", "b": ("x", "y")}, {"&=": "+ %"}, {"k": ("", "")}]
    for u, p, h, po, d, q in itertools.product(vals, vals, hosts, ports, vals, queries):
        if u is None and p is not None:
            continue
        yield {"drivername": "pg+x", "username": u, "password": p, "host": h, "port": po, "database": d, "query": q}


def malformed_urls(rng, n):
    seeds = [
        "pg://u:p@h:5/db?a=1", "pg://h:/db", "pg://h:x/db", "pg://[::1]:5/d", "pg://[::1]x/d", "pg://[]/d", "pg://[/d", "pg://u@h@x/d",
        "pg://a:b:c@h/d", "pg://:@/", "pg://@", "pg://", "pg:/h", "pg//h", "://h", "p g://h", "pg://h?", "pg://h?&&", "pg://h?a", "pg://h?=",
        "pg://h?a=1&a=2&a=3", "pg://h?a=%zz&b=%c3", "pg://u%40:p%3a@h/d%3f", "pg://h/d?x=1?y=2", "pg://h/d/e/f", "pg://h//d", "pg://u:p@/d", "pg://:5",
        "pg://h:+5/d", "pg://h:-5/d", "pg://a@b:c", "pg://a:b@c:d@e:1/f", "pg://[a]b]:1", "pg://[a/b]", "pg://u:p@[::1]", "pg+://h", "p_9+x://h",
    ]
    for s in seeds:
        yield s
    chars = "pg:/@[]?&=%+ a1.#"
    for _ in range(n):
        k = rng.random()
        if k < 0.5:
            s = rng.choice(seeds)
            pos = rng.randrange(len(s) + 1)
            ins = rng.choice(list(chars) + ["%41", "%zz", "\u00e9", "//", "://", "@@"])
            s = s[:pos] + ins + s[pos + (1 if rng.random() < 0.3 else 0):]
        else:
            s = "pg://" + "".join(rng.choice(chars) for _ in range(rng.randint(0, 12)))
        yield s


def byte_strings(rng, n):
    """strings exercising unquote: valid, invalid and truncated UTF-8 escapes"""
    pieces = ["%41", "%7e", "%C3%A9", "%c3", "%e2%82%ac", "%E2%82", "%f0%9f%98%80", "%F0%9F", "%ff", "%80", "%c0%af", "%ed%a0%80", "%f4%90%80%80",
              "%e0%80%80", "%", "%%", "%4", "%zz", "%g1", "a", "+", " ", "\u00e9", "\U0001f600", "%25", "%2", "%e2%28%a1", "%f0%28%8c%bc", "%f8%88%80%80%80", "%ef%bf%bd"]
    for p in pieces:
        yield p
    for _ in range(n):
        yield "".join(rng.choice(pieces) for _ in range(rng.randint(1, 5)))


# ------------------------------------------------------------------ the check
def run(ctx, deep=False):
    import urllib.parse as up

    from sqlalchemy.engine import make_url
    from sqlalchemy import exc

    thorough = ctx.tier == "thorough" or deep
    rng = ctx.rng
    if not _cfg:
        _cfg.update(_read_cfg())
    ctx.rule = (
        "components drawn from URL-special characters @:/?%+&=#[] space etc., ASCII alphanumerics, sampled Unicode planes (Latin-1, Greek, Hebrew, Arabic, CJK, "
        "astral, U+10FFFF, controls, combining) and literal %-sequences, in every position; hosts: names, IPv4, bracket-needing IPv6 forms, odd but valid hosts; "
        "query values: strings (empty included), tuples of 2-3, singleton tuples; small-scope product of nasty values over all components; malformed URL strings "
        "by mutation; a case is non-trivial when at least one component contains a special or non-ASCII character"
    )
    ctx.trusted.append("CPython urllib.parse / re / UTF-8 codec (modelled in Lean, differential-tested here)")
    ctx.assumptions.append("str with lone surrogates (quote raises UnicodeEncodeError), non-ASCII drivernames (\\w) and int() spellings other than [+-]?digits are outside the model")
    ctx.assumptions.append("empty tuples as query values are not generated (a key without any value)")

    # ---- A. urllib functions vs model
    cases, impl, reqs = [], [], []
    nstr = 4000 if thorough else 600
    strs = [rstr(rng, 10) for _ in range(nstr)] + list(byte_strings(rng, nstr // 2))
    safes = sorted(set(_cfg.get("safes") or [" +", " +/"]) | {""})
    for s in strs:
        for safe in safes:
            cases.append({"fn": "quote", "s": s, "safe": safe}); impl.append(enc(up.quote(s, safe=safe))); reqs.append("url quote %s %s" % (enc(safe), enc(s)))
        cases.append({"fn": "quote_plus", "s": s}); impl.append(enc(up.quote_plus(s))); reqs.append("url quoteplus %s" % enc(s))
        cases.append({"fn": "unquote", "s": s}); impl.append(enc(up.unquote(s))); reqs.append("url unquote %s" % enc(s))
        for keep in (True, False):
            r = up.parse_qsl(s, keep_blank_values=keep)
            cases.append({"fn": "parse_qsl", "s": s, "keep": keep})
            impl.append(",".join("%s=%s" % (enc(k), enc(v)) for k, v in r) or "-")
            reqs.append("url parseqsl %d %s" % (int(keep), enc(s)))
        ctx.count("urllib-strings")
    if ctx.driver_ok():
        ctx.correspond("corr/c20:urllib.parse-vs-Model.Url", cases, impl, ctx.driver(reqs))

    # ---- B/C. regex groupdict and make_url on URL strings (rendered, mutated, malformed)
    rx = re.compile(_cfg.get("regex") or PINNED_REGEX, re.X)
    cases, impl, reqs = [], [], []

    def add_string(s):
        if any(ord(ch) > 127 for ch in s.split("://")[0]):
            ctx.count("skipped:non-ascii-drivername")  # \\w is modelled for ASCII only
            return
        m = rx.match(s)
        if m is None:
            g = "none"
        else:
            d = m.groupdict()
            g = " ".join(enc_opt(d[k]) for k in ("name", "username", "password", "ipv4host", "ipv6host", "port", "database", "query"))
        cases.append({"fn": "regex", "s": s}); impl.append(g); reqs.append("url scan %s" % enc(s))
        try:
            out = canon_url(make_url(s))
        except exc.ArgumentError:
            out = "err argument"
        except ValueError:
            out = "err value"
        except Exception as e:  # noqa
            out = "err other:" + type(e).__name__
        cases.append({"fn": "make_url", "s": s}); impl.append(out); reqs.append("url parse %s" % enc(s))

    render_changed = bool(_cfg.get("render_shape_changed"))
    if render_changed:
        ctx.assumptions.append("render_as_string no longer has the modelled quoting calls: Props.C20.parse_render is not tied to the code in this run; the round trip is checked on the implementation only")
    nurl = 6000 if (thorough or render_changed) else 1200
    urls = [rurl(rng) for _ in range(nurl)]
    if thorough:
        urls += list(small_scope(True))
    else:
        urls += [c for c in small_scope(False) if rng.random() < 0.12]
    rcases, rimpl, rreqs = [], [], []
    seen_keys = {}
    for c in urls:
        nontriv = any(
            isinstance(x, str) and any((ch in SPECIAL) or ord(ch) > 127 for ch in x)
            for x in [c["username"], c["password"], c["host"], c["database"]] + list(c["query"]) + [y for v in c["query"].values() for y in ([v] if isinstance(v, str) else v)]
        )
        ctx.case(enc_url_fields(c), nontrivial=nontriv)
        ctx.count("wf=%s" % (wf_problem(c) or "yes"))
        u = make(c)
        s = u.render_as_string(hide_password=False)
        rcases.append({"fn": "render", "url": c}); rimpl.append(enc(canon_rendered(s))); rreqs.append("url render " + enc_url_fields(c))
        add_string(s)
        bad = oracle(c)
        if bad:
            ctx.violation(bad[0], {"url": c}, bad[1])
        elif wf_problem(c) is None and nontriv:
            ctx.sample({"url": {k: (v if not isinstance(v, dict) else {a: b for a, b in v.items()}) for k, v in c.items()}, "rendered": s})
        # model-side round trip must agree with the implementation's verdict
        try:
            v = make_url(s)
            verdict = "eq" if v == u else "ne"
        except Exception as e:  # noqa
            verdict = "err"
        rcases.append({"fn": "roundtrip", "url": c}); rimpl.append(verdict); rreqs.append("url roundtrip " + enc_url_fields(c))
    for s in malformed_urls(rng, 3000 if (thorough or _cfg.get("regex_changed")) else 500):
        ctx.count("malformed")
        add_string(s)
    if ctx.driver_ok():
        ctx.correspond("corr/c20:regex+make_url-vs-Model.Url.scan/parseUrl", cases, impl, ctx.driver(reqs))
        if not render_changed:
            mo = ctx.driver(rreqs)
            mo = [m.split(" ")[0] if c["fn"] == "roundtrip" else enc(canon_rendered(dec(m))) for c, m in zip(rcases, mo)]
            ctx.correspond("corr/c20:render_as_string+roundtrip-vs-Model.Url.render", rcases, rimpl, mo)
    ctx.exhaustive = False


def search(ctx, broken):
    sub = type(ctx)(ctx.pid, "thorough", ctx.seed + 1, ctx.level)
    for d in ctx.disagreements:
        c = d["case"].get("url")
        if c:
            bad = oracle(c)
            if bad:
                ctx.violation(bad[0], {"url": c}, bad[1])
    if ctx.violations:
        return
    run(sub, deep=True)
    ctx.violations.extend(sub.violations)


def replay(ctx, obj):
    c = obj["case"]["url"]
    c["query"] = {k: (v if isinstance(v, str) else tuple(v)) for k, v in c["query"].items()}
    bad = oracle(c)
    print("replay C20 %r -> %s" % (c, bad))
    return bad is not None
