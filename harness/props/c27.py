"""C27 — A database disconnect invalidates the connection and blocks silent continuation.

Model:    lean/SaVerif/Model/Txn.lean (Connection._handle_dbapi_exception: is_disconnect,
          handle_error listeners, invalidate_pool_on_disconnect; Pool._invalidate;
          _ConnectionRecord.get_connection recycling; Connection._revalidate_connection,
          _invalid_transaction, the PendingRollbackError checks of _execute_context)
Theorems: lean/SaVerif/Props/C27.lean
Tie:      histories of execute / begin / begin_nested / commit / rollback / savepoint ops on
          a real Connection + QueuePool whose DBAPI connections are wrapped by a fault
          injecting proxy: at every position a fault (an error the pysqlite dialect
          classifies as a disconnect — the connection is really closed underneath — or
          one it does not) is armed at cursor(), cursor.execute(), commit() or rollback(),
          with no / a passive / a reclassifying / a pool-sparing handle_error listener.
          Every op's record (result class incl. connection_invalidated, invalidated flag,
          identity of the DBAPI connection held, pool queue, transaction state, rows) is
          compared with the Lean model; the oracle states the property directly.
"""
PID = "C27"
LEVEL = "proof"
LEAN = ["SaVerif.Props.C27"]
META = {
    "text": "Lean theorems over ALL states / histories of the transcribed Connection+pool model: (disconnect_invalidates) an error classified as a disconnect - by the dialect or by a handle_error listener - always returns the disconnect result, leaves the Connection invalidated and moves the pool's invalidation time past every pooled connection (stale_never_handed_out: by an inductive invariant over all later histories no DBAPI connection that existed at the failure is ever held again); (pending_rollback_until_rollback) while invalidated with a transaction attached, execute / begin / begin_nested / commit / savepoint commit raise and neither the database nor the blocked state changes, for every sequence of such calls; (reconnect_after_rollback) rollback() then needs no DBAPI call, detaches the transaction and the next statement runs on a fresh, clean DBAPI connection; (non_disconnect_leaves_pool) errors not classified as disconnects leave connection, pool queue and invalidation time untouched; (handler_rollback_disconnect_invalidates) when a statement fails with an ordinary error before autobegin and the handler's own autorollback meets a dead connection (re-entrant _handle_dbapi_exception) Connection and pool end up exactly as for a direct disconnect although the error raised is not flagged; (failed_reconnect_stays_invalidated) a reconnect whose creator fails leaves the Connection invalidated and the pool without new usable connections; (recycle_respects_invalidation) for every pool_recycle setting a pooled connection is handed out only if born after the last pool invalidation. Tied to engine/base.py + pool/base.py by a per-step differential run with a fault at every position (5 fault points incl. the creator x 2 kinds x 4 listener modes x 3 pool_recycle settings) and a direct oracle (also run with pool_pre_ping).",
    "note": "reconnect_after_rollback is stated for a disconnect detected BEFORE rollback(); when the disconnect (or any error) is first raised BY rollback()/close() itself the savepoint objects stay current and active (rollback_failure_counterexample, known finding rollback-failure-leaves-savepoint-current, F19). Modelled-not-verified: the dialect's is_disconnect tables (only pysqlite's closed-database classification is executed; a fault kind stands for the classification), time.time() (logical clock substituted in sqlalchemy.pool.base), single-threaded QueuePool, DBAPI driver behind the proxy. pool_pre_ping is exercised by the oracle only (not in the Lean model); soft invalidation is not modelled.",
    "technique": "Lean 4 single-step theorems for all states + inductive invariants over all histories of a hand-transcribed model; per-step differential correspondence with fault injection on a real pool over SQLite",
    "design_ref": "DESIGN.md §3 C27",
}

KEY_F19 = "rollback-failure-leaves-savepoint-current"
LISTENERS = ["none", "passive", "force", "nopool"]
EXEC = "idq"


def oracle(ops, records, listener, armed_before):
    """-> (key, step, why) for the first deviation from the property, or None"""
    from harness import lib_txn

    prev = None
    stale = set()  # DBAPI connections that existed when a disconnect was detected
    for i, (tok, rec) in enumerate(zip(ops, records)):
        o = lib_txn.parse_record(rec)
        res = o["res"].split(":")[0]
        before = prev
        prev = o
        if o["res"].startswith("EXC:") or o["res"].startswith("OBSERVE-ERROR"):
            return ("c27-oracle", i, "step %d (%s) let an internal error escape: %s" % (i, tok, o["res"]))
        if before is None:
            continue
        f0, f1 = before["flags"], o["flags"]
        held0 = before["rid"].rstrip("atu!")
        # faults that fired during this step
        fired = list(armed_before[i])
        for x in (armed_before[i + 1] if i + 1 < len(armed_before) else []):
            if x in fired:
                fired.remove(x)
        if tok == "D":
            fired = []
        # (a') the error handler's own autorollback (a statement failed with an ordinary error
        # before a transaction had begun) met a dead DBAPI connection: the error that is raised
        # is not flagged, but the disconnect was detected all the same
        handler_disc = (
            res == "OE" and held0 != "x" and ("r", "d") in fired and any(k == "e" for _, k in fired)
        )
        if handler_disc:
            if f1[3] != "1" or o["rid"] != "x":
                return ("c27-oracle", i, "step %d (%s): the rollback emitted by the error handler failed with a disconnect-classified error but the Connection is not invalidated (invalidated=%s, holds %s)" % (i, tok, f1[3], o["rid"]))
            if listener != "nopool":
                stale.add(held0)
                stale.update(x for x in before["idle"].split(",") if x not in ("-", "N", "?"))
        # (a) a disconnect invalidates the Connection
        if res == "DISC":
            if f1[3] != "1" or o["rid"] != "x":
                return ("c27-oracle", i, "step %d (%s) raised a disconnect error but the Connection is not invalidated (invalidated=%s, holds %s)" % (i, tok, f1[3], o["rid"]))
            # (a DISC raised while nothing was held is a failed reconnect: the creator's error is
            # classified, but no existing connection failed - the pool is not invalidated)
            if listener != "nopool" and held0 != "x":
                stale.add(held0)
                stale.update(x for x in before["idle"].split(",") if x not in ("-", "N", "?"))
        # (b) connections opened before the failure are not reused
        held1 = o["rid"].rstrip("atu!")
        if held1 != "x" and held1 in stale:
            return ("c27-oracle", i, "step %d (%s): DBAPI connection #%s, opened before a disconnect was detected, is in use again" % (i, tok, held1))
        blocked = f0[3] == "1" and before["transaction"] != "N" and f0[2] == "0"
        # (c) with a transaction in progress further use raises until rollback
        if blocked and (tok[0] in EXEC or tok in ("n", "b", "C") or tok[0] == "c") and res == "ok":
            return ("c27-oracle", i, "step %d (%s) succeeded on an invalidated Connection whose transaction was not rolled back" % (i, tok))
        if blocked and o["committed"] != before["committed"]:
            return ("c27-oracle", i, "step %d (%s): committed rows changed while the Connection was invalidated inside a transaction" % (i, tok))
        # (d) after rollback the Connection transparently reconnects
        reconnectable = (
            f0[3] == "1" and f0[2] == "0" and before["transaction"] == "N" and before["nested"] == "N" and before["ctx"] == "N"
        )
        if reconnectable and tok[0] in EXEC and not armed_before[i]:
            allowed = ("ok", "IE", "DISC") if listener == "force" else ("ok", "IE")  # a reclassifying listener turns the IntegrityError into a disconnect
            if res not in allowed:
                return ("c27-oracle", i, "step %d (%s) raised %s although the invalidated Connection has no transaction: it should reconnect transparently" % (i, tok, res))
            if res != "DISC" and (o["rid"] == "x" or f1[3] == "1"):
                return ("c27-oracle", i, "step %d (%s) did not leave the Connection reconnected" % (i, tok))
        # (j) only an error classified as a disconnect may be reported (and handled) as one
        if res == "DISC" and listener != "force" and not any(k == "d" for _, k in armed_before[i]):
            return ("c27-oracle", i, "step %d (%s) reported connection_invalidated=True although no disconnect-classified error was raised by the DBAPI (armed faults: %s)" % (i, tok, armed_before[i]))
        # (h) rollback() always ends the transaction (this is what un-blocks the Connection)
        if tok == "R" and res == "ok" and o["transaction"] != "N" and f0[2] == "0":
            return ("c27-oracle", i, "step %d: Connection.rollback() returned normally but transaction object #%s is still attached" % (i, o["transaction"]))
        # (i) no second transaction can be begun while one is attached, active or not
        if tok == "b" and before["transaction"] != "N" and res == "ok":
            return ("c27-oracle", i, "step %d: begin() succeeded while transaction object #%s was still attached" % (i, before["transaction"]))
        # (e) errors not classified as disconnects leave the pool untouched
        if res in ("OE", "IE") and held0 != "x" and f0[2] == "0" and not handler_disc:
            if o["idle"] != before["idle"] or o["rid"].rstrip("atu!") != held0 or f1[3] != f0[3]:
                return ("c27-oracle", i, "step %d (%s) raised the non-disconnect error %s but pool/connection changed: idle %s -> %s, held %s -> %s" % (i, tok, res, before["idle"], o["idle"], before["rid"], o["rid"]))
        # (g) no savepoint object stays current once the transaction is gone
        if o["transaction"] == "N" and o["nested"] != "N" and f1[2] == "0":
            key = KEY_F19 if (res in ("DISC", "OE") and (tok in ("R", "X") or tok[0] in "rxfo")) else "c27-oracle"
            return (key, i, "step %d (%s, result %s): the transaction is gone but savepoint object #%s is still the connection's current nested transaction (in_nested_transaction()=%s)" % (i, tok, res, o["nested"], f1[1]))
    return None


# ---------------------------------------------------------------- generator
def gen_fault_history(rng, world, n):
    """a transactional history with faults armed at random positions, each followed by
    the reaction the property talks about (more use, rollback, more use)"""
    k = 1
    if rng.random() < 0.5:
        yield "W%d" % rng.randint(1, 3)
    steps = 0
    while steps < n:
        steps += 1
        r = rng.random()
        nh = len(world.handles)
        c = world.conn
        if c is not None and c.invalidated and c.get_transaction() is None and not world.plan.armed and rng.random() < 0.5:
            # the database is still down: the reconnect itself fails, then it comes back and
            # an ordinary error happens on the fresh connection
            yield "Fn" + rng.choice("dde")
            yield rng.choice(["q", "i%d" % k])
            k += 1
            if rng.random() < 0.7:
                yield "q"
                yield "Fxe"
                yield "i%d" % k
                k += 1
                yield "q"
            continue
        if r < 0.18:
            # arm a fault, then usually an op that reaches it
            p = rng.choice("uuxxxccrr")
            kind = rng.choice("dde")
            yield "F" + p + kind
            if rng.random() < 0.3:
                # a second failure of another class waits behind the first one: it is met by
                # whatever the error handling itself does next on the DBAPI connection (its
                # autorollback), or by the program's reaction (rollback / close / more use)
                p2 = rng.choice([x for x in "rrrcx" if x != p])
                yield "F" + p2 + ("e" if kind == "d" else rng.choice("dde"))
            if rng.random() < 0.85:
                if p in "ux":
                    yield rng.choice(["i%d" % k, "q", "n", "i%d" % k])
                    k += 1
                elif p == "c":
                    yield rng.choice(["C", "C", "c0"] if nh else ["C"])
                else:
                    yield rng.choice(["R", "R", "r0", "X"] if nh else ["R"])
            continue
        if r < 0.26:
            yield "b"
        elif r < 0.38:
            yield "n"
        elif r < 0.60:
            if rng.random() < 0.1 and k > 1:
                yield "i%d" % rng.randrange(1, k)
            else:
                yield "i%d" % k
                k += 1
        elif r < 0.66:
            yield "q"
        elif r < 0.74:
            yield "C"
        elif r < 0.84:
            yield "R"
        elif r < 0.86:
            yield "I"
        elif r < 0.88 and not world.plan.armed:
            yield "W1"
        elif r < 0.89:
            yield "X"
        elif nh:
            yield rng.choice("crxcrxeof") + str(rng.randrange(nh))
        else:
            yield "q"
    # the reaction after the last fault: rollback and go on
    yield "R"
    yield "q"


def run_history(rng, n, listener, reset="rollback", recycle=None, pre_ping=False):
    from harness import lib_txn

    w = lib_txn.World(reset, "c27", listener=listener, recycle=recycle, pre_ping=pre_ping)
    ops, recs, armed = [], [], []
    try:
        for tok in gen_fault_history(rng, w, n):
            if tok.startswith("W") and w.plan.armed:
                continue
            ops.append(tok)
            armed.append(list(w.plan.armed))
            recs.append(w.step(tok))
        armed.append(list(w.plan.armed))  # what is still armed at the end
    finally:
        w.dispose()
    return ops, recs, armed


def replay_ops(ops, listener, reset="rollback", recycle=None, pre_ping=False):
    from harness import lib_txn

    w = lib_txn.World(reset, "c27r", listener=listener, recycle=recycle, pre_ping=pre_ping)
    recs, armed = [], []
    try:
        for tok in ops:
            armed.append(list(w.plan.armed))
            recs.append(w.step(tok))
        armed.append(list(w.plan.armed))
    finally:
        w.dispose()
    return recs, armed


FIXED = [
    ("W2;b;i1;Fxd;i2;q;n;C;R;q;i3;C", "none"),
    ("W2;i1;Fud;i2;q;R;q", "none"),
    ("i1;Fcd;C;q;C;R;i2;C;q", "none"),
    ("W1;i1;Fxe;i2;q;C;q", "none"),
    ("W1;i1;Fxe;i2;q;R;q", "force"),
    ("W2;i1;Fxd;i2;R;q", "nopool"),
    ("W2;i1;Fxd;i2;R;q", "passive"),
    ("b;n;i1;Fxd;i2;c1;r1;q;R;q", "none"),
    ("i1;I;q;R;q;i2;C", "none"),
    ("i1;n;Frd;R;q", "none"),  # F19
    ("i1;n;Fre;R;q", "none"),  # F19 (non-disconnect error from rollback)
    ("b;e0;i1;Fxd;i2;f0;q", "none"),
    ("i1;i1;q;C", "force"),  # IntegrityError reclassified as a disconnect by the listener
    # the database stays down: the reconnect fails too; later an ordinary error
    ("W2;b;i1;Fxd;i2;R;Fnd;q;q;Fxe;i3;q;i4;C;q", "none"),
    ("W1;i1;Fxd;i2;R;Fne;q;q;C", "none"),
    # a statement fails before autobegin (cursor creation); the handler's autorollback meets
    # a dead connection / another ordinary error / works
    ("W2;R;Fue;Frd;q;q;X", "none"),
    ("W2;R;Fue;Frd;i1;C;q", "nopool"),
    ("W1;R;Fue;Fre;q;q;i1;C", "none"),
    ("W1;Fue;q;q;b;Fue;i1;R;q", "passive"),
    ("W1;R;Fue;Frd;q;q", "force"),
]

FIXED_RC = [
    ("W3;W1;Fxd;i1;R;Fnd;q;q;Frd;R;Frd;R;b;R;q", "nopool", 6),
    ("W3;W1;Fxd;i1;R;Fnd;q;q;Frd;R;Frd;R;b;R;q", "nopool", 7),
    ("W3;W1;Fxd;i1;R;Fnd;q;q;Frd;R;Frd;R;b;R;q", "nopool", 5),
    ("W2;X;N;q;X;N;q;X;N;q;X;N;q", "none", 3),
    ("W2;X;N;q;X;N;q;X;N;q;X;N;q", "none", 4),
    ("W1;Fxd;i1;W2;q;X;N;q;X;N;q", "none", 6),
]


def run(ctx, deep=False):
    from harness import lib_txn

    ctx.rule = (
        "histories (<=10 ops quick, <=16 thorough, plus 15 scripted x 2 pool_recycle settings) of execute/begin/begin_nested/commit/rollback/handle ops/"
        "invalidate with extra pooled connections, a fault (disconnect or plain error) armed at cursor()/execute()/commit()/rollback() and at "
        "the pool's creator (failing reconnects followed by working ones and by plain errors) at random positions, also two faults of different classes armed at once (the second one is met by the error handler's own autorollback or by the program's reaction), x handle_error "
        "listener in {none, passive, reclassify-as-disconnect, keep-pool} x pool_recycle in {unset, 3600, 6 or 3 clock ticks} x pool_pre_ping "
        "(12%, oracle only); every op's record compared with the Lean model and checked by the oracle; non-trivial = at least one "
        "fault fired or invalidate() was called"
    )
    ctx.trusted.append("pysqlite is_disconnect classification (closed-database ProgrammingError) stands for every dialect's table")
    ctx.trusted.append("logical clock substituted for time.time in sqlalchemy.pool.base")
    big = ctx.tier == "thorough" or deep
    cases, impl_out, reqs = [], [], []

    def check(ops, recs, armed, listener, recycle=None, pre_ping=False):
        case = {"ops": ops, "listener": listener, "recycle": recycle, "pre_ping": pre_ping}
        ctx.count("recycle=%s" % recycle)
        ctx.count("pre_ping=%s" % pre_ping)
        fired = any(r.split("/")[0].split(":")[0] in ("DISC", "OE") for r in recs) or "I" in ops
        ctx.case(listener + ":" + ";".join(ops), nontrivial=fired)
        ctx.count("listener=" + listener)
        for t in ops:
            ctx.count("op=" + (t if t[0] in "FWIX" else t[0]))
        for r in recs:
            ctx.count("res=" + r.split("/")[0].split(":")[0])
        bad = oracle(ops, recs, listener, armed)
        if bad:
            ctx.violation(bad[0], {"ops": ops[: bad[1] + 1], "listener": listener, "recycle": recycle, "pre_ping": pre_ping}, bad[2])
        if pre_ping:
            return  # pre-ping is not in the Lean model: oracle only
        cases.append(case)
        impl_out.append("|".join(recs) if recs else "-")
        reqs.append(lib_txn.driver_line(ops, "rollback", listener, recycle=recycle))

    for s, lis in FIXED:
        ops = s.split(";")
        for rc in (None, 3600):
            recs, armed = replay_ops(ops, lis, recycle=rc)
            check(ops, recs, armed, lis, rc)
    # the age test at its boundary (a pooled connection exactly pool_recycle ticks old / one older)
    for s, lis, rc in FIXED_RC:
        ops = s.split(";")
        recs, armed = replay_ops(ops, lis, recycle=rc)
        check(ops, recs, armed, lis, rc)
    n = 15000 if big else 2500
    maxlen = 16 if big else 10
    for i in range(n):
        lis = ctx.rng.choice(["none", "none", "passive", "force", "nopool"])
        # pool_recycle configured (far in the future, or a few clock ticks so that real
        # recycling happens) changes the path through _ConnectionRecord.get_connection
        rc = ctx.rng.choice([None, None, 3600, 3600, 6, 6, 3])
        pp = ctx.rng.random() < 0.12
        ops, recs, armed = run_history(ctx.rng, ctx.rng.randint(3, maxlen), lis, recycle=rc, pre_ping=pp)
        check(ops, recs, armed, lis, rc, pp)
        if i % 300 == 0:
            ctx.sample({"listener": lis, "recycle": rc, "pre_ping": pp, "ops": ";".join(ops), "last": recs[-1]})
    if ctx.driver_ok():
        ctx.correspond("corr/c27:disconnect-handling-vs-Model.Txn", cases, impl_out, ctx.driver(reqs))


def search(ctx, broken):
    for d in ctx.disagreements:
        c = d["case"]
        recs, armed = replay_ops(c["ops"], c["listener"], recycle=c.get("recycle"), pre_ping=c.get("pre_ping", False))
        bad = oracle(c["ops"], recs, c["listener"], armed)
        if bad:
            ctx.violation(bad[0], {"ops": c["ops"][: bad[1] + 1], "listener": c["listener"], "recycle": c.get("recycle"), "pre_ping": c.get("pre_ping", False)}, bad[2])
    sub = type(ctx)(ctx.pid, "thorough", ctx.seed + 1, ctx.level)
    run(sub, deep=True)
    ctx.violations.extend(sub.violations)


def replay(ctx, obj):
    c = obj["case"]
    recs, armed = replay_ops(c["ops"], c["listener"], recycle=c.get("recycle"), pre_ping=c.get("pre_ping", False))
    bad = oracle(c["ops"], recs, c["listener"], armed)
    print("replay C27 listener=%s recycle=%s pre_ping=%s ops=%s" % (c["listener"], c.get("recycle"), c.get("pre_ping", False), ";".join(c["ops"])))
    for t, r in zip(c["ops"], recs):
        print("  %-5s %s" % (t, r))
    print("oracle:", bad)
    return bad is not None
